------------------------------- MODULE Writer -------------------------------
(* C13.  A failing output writer aborts rendering with the writer's error.

   Property statement (properties.jsonl): "If the writer passed to Template.Run fails on its k-th
   write with error E, for any template and any k, Run returns E (unless the template itself
   recovers the panic), no byte is written after the failure, and the host does not panic."

   PART 1 - REFERENCE.  What the property demands, over the observable part of a render only:
     att     number of write attempts made on the real writer W so far
     failed  some attempt on W has failed
     pend    an attempt on W has failed and the template has not recovered since
     after   number of attempts made on W while pend  (must stay 0)
     nrec    number of panics the template's own code recovered
     ret     what Run did: "none" (still running) | "nil" | "E" (exactly the writer's error)
             | "other" (another error) | "hostpanic"
   The same predicates judge the real code in Trace_Writer.tla.

   PART 2 - IMPLEMENTATION-SHAPED MODEL of internal/runtime (run.go OpText/OpShow/OpCallMacro/
   OpReturn, renderer.go, vm.go runFunc/nextCall/VM.Run, errors.go convertPanic).  A render is a
   PROGRAM: a well-nested sequence of
     "T"   text: one write attempt on the current output                       (OpText)
     "S"   show through a piecewise escaper: two attempts, the second only if the first succeeded
           (OpShow: htmlEscape & co. write piece by piece; the URL state's "&amp;" is such a piece)
     "V"   show of a native.Markdown value in HTML: the converter writes two pieces on the current
           output; its error is returned by renderer.Show and raised as outError
     "CD"  call of a macro that writes on the caller's output                  (OpCallMacro, same format)
     "CB"  call of a macro into a fresh strings.Builder (ReturnString); at "R" the collected text
           is a value that the caller shows: one attempt on the caller's output (flush)
     "CC"  call of a Markdown macro / .md partial from HTML: fresh bytes.Buffer; at "R" the
           Markdown->HTML converter writes two pieces on the CALLER's output (OpReturn); when the
           converter returns an error the code raises  fatalError if ConvFatal  else outError
     "R"   return of the innermost macro
     "DR"  defer of a function literal that recovers;  "DN"  defer of one that does not
   The real writer fails at attempt k (and at every later attempt too when sticky).  Builders and
   buffers cannot fail.  Every action below is a guard En_X(s) and an effect Do_X(s) on one record s.
   Next runs them as a state machine (model-checked, one action per code branch) in which k is not
   chosen in advance (k = 0): while no attempt has failed, every attempt on the real writer may
   succeed (WriteOk) or be THE failing one (WriteFail, which fixes k) - all k share the fault-free
   prefix.  Given k >= 1 the model is deterministic; Step/Final run it as a function (used by
   MC_Writer to compute the model's outcome set of a catalogue template for every k). *)
EXTENDS Integers, Sequences, FiniteSets, TLC
CONSTANTS Shapes,      \* set of programs
          ConvFatal    \* TRUE: OpReturn raises the converter's error as fatalError (the code as found);
                       \* FALSE: as outError (the proposed fix).  Copied into the state (field cf) so that
                       \* MC_Writer can evaluate both variants of a catalogue template in one run
VARIABLE s

(* ------------------------------- PART 1: reference ------------------------------- *)
\* no byte (no attempt at all) reaches the writer after a failure the template did not recover
NoWriteAfterFail(x) == x.after = 0
\* Run returns exactly E when a failure is pending (not recovered) at the end
ReturnsE(x) == (x.ret # "none" /\ x.pend) => x.ret = "E"
\* the host never sees a panic because of a writer failure
NoHostPanic(x) == x.failed => x.ret # "hostpanic"
\* (sanity of the model, not a clause of C13: a render whose writer never failed returns nil)
NilWithoutFailure(x) == (x.ret # "none" /\ ~x.failed) => x.ret = "nil"
RefOk(x) == NoWriteAfterFail(x) /\ ReturnsE(x) /\ NoHostPanic(x)

(* ------------------------------- PART 2: model ------------------------------- *)
Ops == {"T", "S", "V", "CD", "CB", "CC", "R", "DR", "DN"}
Calls == {"CD", "CB", "CC"}
RECURSIVE DepthOk(_, _, _, _)
\* well nested, never deeper than maxd macro calls; d = open calls before position i
DepthOk(p, i, d, maxd) ==
  IF i > Len(p) THEN d = 0
  ELSE IF p[i] \in Calls THEN d + 1 <= maxd /\ DepthOk(p, i + 1, d + 1, maxd)
  ELSE IF p[i] = "R" THEN d > 0 /\ DepthOk(p, i + 1, d - 1, maxd)
  ELSE DepthOk(p, i + 1, d, maxd)
RECURSIVE Scan(_, _, _)
Scan(p, i, d) == IF p[i] = "R" THEN (IF d = 0 THEN i ELSE Scan(p, i + 1, d - 1))
                 ELSE IF p[i] \in Calls THEN Scan(p, i + 1, d + 1) ELSE Scan(p, i + 1, d)
MatchR(p, c) == Scan(p, c + 1, 0)          \* index of the "R" that ends the call at index c

Frame(kind, out, callpc) == [kind |-> kind, out |-> out, defers |-> <<>>, callpc |-> callpc]
S0(prog, k, sticky, cf) ==
  [prog |-> prog, k |-> k, sticky |-> sticky, cf |-> cf, pc |-> 1, sub |-> 0, phase |-> "run", panic |-> "none",
   stack |-> <<Frame("main", "W", 0)>>,
   att |-> 0, failed |-> FALSE, pend |-> FALSE, after |-> 0, nrec |-> 0, ret |-> "none"]

Top(x) == x.stack[Len(x.stack)]
Op(x) == IF x.pc <= Len(x.prog) THEN x.prog[x.pc] ELSE "END"
Pop(x) == SubSeq(x.stack, 1, Len(x.stack) - 1)
\* phases: "run"    executing prog[pc]
\*         "flush"  the caller shows the string returned by a CB macro (one attempt)
\*         "conv"   the converter of a returning CC macro writes its pieces
\*         "raise"  renderer.Text/Show returned the writer's error to the instruction
\*         "converr" the converter returned the writer's error to OpReturn
\*         "unwind" panicking;  "done"
ConvPiece(x) == x.phase = "conv" \/ (x.phase = "run" /\ Op(x) = "V")
Due(x) == x.phase \in {"flush", "conv"} \/ (x.phase = "run" /\ Op(x) \in {"T", "S", "V"})
Pieces(x) == IF x.phase = "flush" \/ (x.phase = "run" /\ Op(x) = "T") THEN 1 ELSE 2
OnW(x) == Top(x).out = "W"
WillFail(x) == (x.k # 0 /\ x.att + 1 = x.k) \/ (x.sticky /\ x.failed)     \* this attempt fails for sure
MayFail(x) == x.k = 0 \/ WillFail(x)                                        \* k = 0: the failing attempt is not chosen yet
FixK(x) == IF x.k = 0 THEN [x EXCEPT !.k = x.att + 1] ELSE x
Advance(x) == IF x.sub + 1 < Pieces(x) THEN [x EXCEPT !.sub = @ + 1]
              ELSE [x EXCEPT !.sub = 0, !.pc = @ + 1, !.phase = "run"]
Attempt(x, ok) == [x EXCEPT !.att = @ + 1, !.after = IF x.pend THEN @ + 1 ELSE @,
                            !.failed = @ \/ ~ok, !.pend = @ \/ ~ok]

\* --- writes of OpText / OpShow (and of the show that flushes a returned string)
En_WriteOk(x) == Due(x) /\ ~ConvPiece(x) /\ OnW(x) /\ ~WillFail(x)
Do_WriteOk(x) == Advance(Attempt(x, TRUE))
En_WriteFail(x) == Due(x) /\ ~ConvPiece(x) /\ OnW(x) /\ MayFail(x)
Do_WriteFail(x) == [Attempt(FixK(x), FALSE) EXCEPT !.phase = "raise", !.sub = 0]
En_BufWrite(x) == Due(x) /\ ~ConvPiece(x) /\ ~OnW(x)                 \* strings.Builder / bytes.Buffer: cannot fail
Do_BufWrite(x) == Advance(x)
\* --- the instruction panics with outError{err}
En_RaiseOutError(x) == x.phase = "raise"
Do_RaiseOutError(x) == [x EXCEPT !.phase = "unwind", !.panic = "out"]
\* --- writes of the Markdown converter (to the real writer or to an enclosing macro buffer)
En_ConverterWriteOk(x) == Due(x) /\ ConvPiece(x) /\ OnW(x) /\ ~WillFail(x)
Do_ConverterWriteOk(x) == Advance(Attempt(x, TRUE))
En_ConverterWriteFail(x) == Due(x) /\ ConvPiece(x) /\ OnW(x) /\ MayFail(x)
Do_ConverterWriteFail(x) == [Attempt(FixK(x), FALSE) EXCEPT !.phase = IF x.phase = "conv" THEN "converr" ELSE "raise", !.sub = 0]
En_ConverterWriteBuf(x) == Due(x) /\ ConvPiece(x) /\ ~OnW(x)
Do_ConverterWriteBuf(x) == Advance(x)
\* --- OpReturn: err := vm.env.conv(...); if err != nil { panic(...) }
En_ConverterError(x) == x.phase = "converr"
Do_ConverterError(x) == [x EXCEPT !.phase = "unwind", !.panic = IF x.cf THEN "fatal" ELSE "out"]
\* --- calls, defers, normal returns
En_Call(x) == x.phase = "run" /\ Op(x) \in Calls
Do_Call(x) == [x EXCEPT !.stack = Append(@, Frame(Op(x), IF Op(x) = "CD" THEN Top(x).out ELSE "buf", x.pc)), !.pc = @ + 1]
En_Defer(x) == x.phase = "run" /\ Op(x) \in {"DR", "DN"}
Do_Defer(x) == [x EXCEPT !.stack[Len(x.stack)].defers = Append(@, Op(x)), !.pc = @ + 1]
\* (deferred calls of a normally returning function run too; they do nothing observable)
En_Ret(x) == x.phase = "run" /\ Op(x) = "R"
Do_Ret(x) == LET k == Top(x).kind IN
             [x EXCEPT !.stack = Pop(x),
                       !.phase = IF k = "CB" THEN "flush" ELSE IF k = "CC" THEN "conv" ELSE "run",
                       !.pc = IF k = "CD" THEN @ + 1 ELSE @]
\* --- unwinding (runFunc loop + nextCall): deferred calls of the panicking frames run, newest first
En_Unwind(x) == x.phase = "unwind" /\ x.panic = "out" /\
                (IF Top(x).defers # <<>> THEN Top(x).defers[Len(Top(x).defers)] = "DN" ELSE Len(x.stack) > 1)
Do_Unwind(x) == IF Top(x).defers # <<>>
                THEN [x EXCEPT !.stack[Len(x.stack)].defers = SubSeq(@, 1, Len(@) - 1)]       \* a deferred call ran
                ELSE [x EXCEPT !.stack = Pop(x)]                                               \* frame (and its buffer) dropped
\* a deferred call recovers: its function returns normally to its caller - WITHOUT the OpReturn
\* buffer handling (nextCall restores the caller's renderer; the buffer is dropped)
En_TemplateRecover(x) == x.phase = "unwind" /\ x.panic = "out" /\ Top(x).defers # <<>>
                         /\ Top(x).defers[Len(Top(x).defers)] = "DR"
Do_TemplateRecover(x) ==
  LET y == [x EXCEPT !.panic = "none", !.pend = FALSE, !.nrec = @ + 1] IN
  IF Len(x.stack) = 1 THEN [y EXCEPT !.phase = "done", !.ret = "nil"]
  ELSE [y EXCEPT !.stack = Pop(x), !.phase = "run", !.sub = 0, !.pc = MatchR(x.prog, Top(x).callpc) + 1]
\* --- Run returns
En_Return(x) == \/ x.phase = "run" /\ Op(x) = "END"
                \/ x.phase = "unwind" /\ x.panic = "out" /\ Len(x.stack) = 1 /\ Top(x).defers = <<>>
Do_Return(x) == [x EXCEPT !.phase = "done", !.ret = IF x.phase = "run" THEN "nil" ELSE "E"]   \* VM.Run unwraps outError
\* a fatalError is not a PanicError: runFunc returns it at once (no deferred call runs) and VM.Run panics
En_HostPanic(x) == x.phase = "unwind" /\ x.panic = "fatal"
Do_HostPanic(x) == [x EXCEPT !.phase = "done", !.ret = "hostpanic"]

\* the model as a function (k >= 1 given; with k = 0 no attempt fails).  It dispatches on the phase first;
\* InvStepAgrees checks on every reachable state that it is the enabled action's effect.
Step(x) ==
  IF Due(x) THEN
    IF ~OnW(x) THEN (IF ConvPiece(x) THEN Do_ConverterWriteBuf(x) ELSE Do_BufWrite(x))
    ELSE IF WillFail(x) THEN (IF ConvPiece(x) THEN Do_ConverterWriteFail(x) ELSE Do_WriteFail(x))
    ELSE (IF ConvPiece(x) THEN Do_ConverterWriteOk(x) ELSE Do_WriteOk(x))
  ELSE IF x.phase = "run" THEN
    (IF Op(x) \in Calls THEN Do_Call(x) ELSE IF Op(x) = "R" THEN Do_Ret(x) ELSE IF Op(x) = "END" THEN Do_Return(x) ELSE Do_Defer(x))
  ELSE IF x.phase = "raise" THEN Do_RaiseOutError(x)
  ELSE IF x.phase = "converr" THEN Do_ConverterError(x)
  ELSE IF x.panic = "fatal" THEN Do_HostPanic(x)
  ELSE IF En_TemplateRecover(x) THEN Do_TemplateRecover(x)
  ELSE IF En_Unwind(x) THEN Do_Unwind(x)
  ELSE Do_Return(x)
RECURSIVE Final(_)
Final(x) == IF x.phase = "done" THEN x ELSE Final(Step(x))
\* number of attempts on the real writer of a fault-free render of prog (as a function, k = 0 means that no
\* attempt fails: Step takes the WriteOk branch)
NWrites(prog) == Final(S0(prog, 0, FALSE, FALSE)).att

WriteOk == En_WriteOk(s) /\ s' = Do_WriteOk(s)
WriteFail == En_WriteFail(s) /\ s' = Do_WriteFail(s)
BufWrite == En_BufWrite(s) /\ s' = Do_BufWrite(s)
RaiseOutError == En_RaiseOutError(s) /\ s' = Do_RaiseOutError(s)
ConverterWriteOk == En_ConverterWriteOk(s) /\ s' = Do_ConverterWriteOk(s)
ConverterWriteFail == En_ConverterWriteFail(s) /\ s' = Do_ConverterWriteFail(s)
ConverterWriteBuf == En_ConverterWriteBuf(s) /\ s' = Do_ConverterWriteBuf(s)
ConverterWrite == ConverterWriteOk \/ ConverterWriteFail \/ ConverterWriteBuf
ConverterError == En_ConverterError(s) /\ s' = Do_ConverterError(s)
Call == En_Call(s) /\ s' = Do_Call(s)
Defer == En_Defer(s) /\ s' = Do_Defer(s)
Ret == En_Ret(s) /\ s' = Do_Ret(s)
Unwind == En_Unwind(s) /\ s' = Do_Unwind(s)
TemplateRecover == En_TemplateRecover(s) /\ s' = Do_TemplateRecover(s)
Return == En_Return(s) /\ s' = Do_Return(s)
HostPanic == En_HostPanic(s) /\ s' = Do_HostPanic(s)

\* (a sticky writer differs from one that fails once only if the render goes on after the failure, i.e. only
\* if the program can recover)
Stickiness(p) == IF \E i \in DOMAIN p : p[i] = "DR" THEN BOOLEAN ELSE {FALSE}
Init == \E p \in Shapes : \E st \in Stickiness(p) : s = S0(p, 0, st, ConvFatal)
Next == WriteOk \/ WriteFail \/ BufWrite \/ RaiseOutError \/ ConverterWrite \/ ConverterError \/ Call \/ Defer \/ Ret
        \/ Unwind \/ TemplateRecover \/ Return \/ HostPanic

(* ---- what TLC checks on the model (every program of Shapes, every k, sticky or not) ---- *)
InvNoWriteAfterFail == NoWriteAfterFail(s)
InvReturnsE == ReturnsE(s)
InvNoHostPanic == NoHostPanic(s)
InvNilWithoutFailure == NilWithoutFailure(s)
\* until Run has returned exactly one action is enabled - or, while the failing attempt is not chosen
\* yet, the two outcomes of an attempt on the real writer
Ens(x) == <<En_WriteOk(x), En_WriteFail(x), En_BufWrite(x), En_RaiseOutError(x), En_ConverterWriteOk(x), En_ConverterWriteFail(x),
            En_ConverterWriteBuf(x), En_ConverterError(x), En_Call(x), En_Defer(x), En_Ret(x), En_Unwind(x), En_TemplateRecover(x),
            En_Return(x), En_HostPanic(x)>>
EnSet(x) == {i \in 1..15 : Ens(x)[i]}
InvDeterministic == IF s.phase = "done" THEN EnSet(s) = {} /\ s.ret # "none"
                    ELSE \/ Cardinality(EnSet(s)) = 1
                         \/ s.k = 0 /\ EnSet(s) \in {{1, 2}, {5, 6}}
\* the function Step is the state machine Next (for the k the behaviour chose; before that: the non-failing branch)
InvStepAgrees == s.phase # "done" =>
   LET t == Step(s) IN
   /\ (En_WriteOk(s) => t = Do_WriteOk(s))
   /\ ((En_WriteFail(s) /\ s.k # 0) => t = Do_WriteFail(s))
   /\ (En_BufWrite(s) => t = Do_BufWrite(s))
   /\ (En_RaiseOutError(s) => t = Do_RaiseOutError(s))
   /\ (En_ConverterWriteOk(s) => t = Do_ConverterWriteOk(s))
   /\ ((En_ConverterWriteFail(s) /\ s.k # 0) => t = Do_ConverterWriteFail(s))
   /\ (En_ConverterWriteBuf(s) => t = Do_ConverterWriteBuf(s))
   /\ (En_ConverterError(s) => t = Do_ConverterError(s))
   /\ (En_Call(s) => t = Do_Call(s))
   /\ (En_Defer(s) => t = Do_Defer(s))
   /\ (En_Ret(s) => t = Do_Ret(s))
   /\ (En_Unwind(s) => t = Do_Unwind(s))
   /\ (En_TemplateRecover(s) => t = Do_TemplateRecover(s))
   /\ (En_Return(s) => t = Do_Return(s))
   /\ (En_HostPanic(s) => t = Do_HostPanic(s))
\* the failing attempt is the k-th, and nothing but k (and stickiness) decides it
InvFailAtK == s.failed => (s.k >= 1 /\ s.att >= s.k)
=============================================================================

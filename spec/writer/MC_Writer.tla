------------------------------ MODULE MC_Writer ------------------------------
(* Exhaustive check of Writer.tla: every well-nested program over the full instruction alphabet up
   to MaxLen, plus every program over the reduced alphabet (text, buffered macro, converted macro,
   return, recovering defer) up to MaxLenR and over the minimal one (text, converted macro, return,
   recovering defer) up to MaxLenM, never deeper than MaxDepth nested macro calls - each with
   every failure index k in 1..n+1 (n = its number of writes), failing once or sticky.

   And the replay CATALOGUE: every concrete template the driver knows (by name) with its abstract
   shape; TLC computes for each one the model's set of outcomes (over all k, sticky or not) under
   both variants of the converter-error branch.  The driver does a counting run of the real
   template and then runs every k in 1..n+1. *)
EXTENDS Writer, Json, SequencesExt
CONSTANTS MaxLen, MaxLenR, MaxLenM, MaxDepth,
          Export      \* TRUE: write cases.ndjson (the catalogue with the model's outcome sets)

\* well-nested programs are generated prefix by prefix, each carried with its number of open calls
NewD(d, o) == IF o \in Calls THEN d + 1 ELSE IF o = "R" THEN d - 1 ELSE d
Ext(q, A, left) == {<<Append(q[1], o), NewD(q[2], o)>> :
                      o \in {a \in A : NewD(q[2], a) >= 0 /\ NewD(q[2], a) <= MaxDepth /\ NewD(q[2], a) <= left}}
RECURSIVE Pre(_, _, _)
\* <<prefix, open calls>> for the prefixes of length n of well-nested programs of length <= L over alphabet A
Pre(n, A, L) == IF n = 0 THEN {<< <<>>, 0 >>} ELSE UNION {Ext(q, A, L - n) : q \in Pre(n - 1, A, L)}
Gen(A, L) == UNION {{q[1] : q \in {r \in Pre(n, A, L) : r[2] = 0}} : n \in 0..L}
Reduced == {"T", "CB", "CC", "R", "DR"}
Minimal == {"T", "CC", "R", "DR"}

Catalogue == {
  [name |-> "text",            kind |-> "text",      m |-> TRUE,  shape |-> <<"T">>],
  [name |-> "text3",           kind |-> "text",      m |-> TRUE,  shape |-> <<"T", "T", "T", "T">>],
  [name |-> "empty",           kind |-> "text",      m |-> TRUE,  shape |-> <<>>],
  [name |-> "show",            kind |-> "show",      m |-> TRUE,  shape |-> <<"T", "S", "T">>],
  [name |-> "show2",           kind |-> "show",      m |-> TRUE,  shape |-> <<"S", "T", "S", "S">>],
  [name |-> "showstmt",        kind |-> "show",      m |-> TRUE,  shape |-> <<"S", "T", "T">>],
  [name |-> "stringercall",    kind |-> "show",      m |-> TRUE,  shape |-> <<"T", "S", "T", "S", "T", "S", "T">>],
  [name |-> "funclit",         kind |-> "show",      m |-> TRUE,  shape |-> <<"T", "S", "T", "S">>],
  [name |-> "raw",             kind |-> "text",      m |-> TRUE,  shape |-> <<"T", "S">>],
  [name |-> "macro",           kind |-> "macro",     m |-> TRUE,  shape |-> <<"T", "CD", "T", "R", "T", "CD", "T", "R", "T">>],
  [name |-> "macroargs",       kind |-> "macro",     m |-> TRUE,  shape |-> <<"T", "CD", "T", "S", "T", "R", "T", "CD", "T", "S", "T", "R">>],
  [name |-> "macrovar",        kind |-> "buffer",    m |-> TRUE,  shape |-> <<"CB", "T", "S", "R", "T", "T", "T">>],
  [name |-> "macroattr",       kind |-> "buffer",    m |-> TRUE,  shape |-> <<"T", "CB", "T", "S", "R", "T">>],
  [name |-> "macrojs",         kind |-> "buffer",    m |-> TRUE,  shape |-> <<"T", "CB", "T", "S", "R", "T">>],
  [name |-> "macrourl",        kind |-> "buffer",    m |-> TRUE,  shape |-> <<"T", "CB", "T", "S", "R", "T", "CB", "T", "S", "R", "T">>],
  [name |-> "nested",          kind |-> "macro",     m |-> TRUE,  shape |-> <<"T", "CD", "T", "CD", "T", "S", "R", "T", "R", "T">>],
  [name |-> "nestedbuf",       kind |-> "buffer",    m |-> TRUE,  shape |-> <<"T", "CB", "T", "CD", "T", "S", "R", "T", "R", "T">>],
  [name |-> "nestedbuf2",      kind |-> "buffer",    m |-> TRUE,  shape |-> <<"T", "CB", "T", "CB", "T", "S", "R", "T", "R", "T", "CD", "T", "CB", "T", "S", "R", "T", "R">>],
  [name |-> "recursive",       kind |-> "buffer",    m |-> TRUE,  shape |-> <<"CB", "T", "CB", "T", "R", "T", "R">>],
  [name |-> "callback",        kind |-> "buffer",    m |-> TRUE,  shape |-> <<"T", "CB", "T", "S", "T", "R", "T">>],
  [name |-> "render",          kind |-> "render",    m |-> TRUE,  shape |-> <<"T", "CD", "T", "T", "S", "T", "R", "T", "CD", "T", "T", "S", "T", "R">>],
  [name |-> "rendertxt",       kind |-> "render",    m |-> TRUE,  shape |-> <<"T", "CD", "T", "S", "R", "T", "CD", "T", "S", "R", "T">>],
  [name |-> "rendernest",      kind |-> "render",    m |-> TRUE,  shape |-> <<"T", "CD", "T", "CD", "T", "S", "R", "T", "R", "T">>],
  [name |-> "mdmacro",         kind |-> "converter", m |-> TRUE,  shape |-> <<"T", "CC", "T", "S", "R", "T">>],
  [name |-> "mdmacro2",        kind |-> "converter", m |-> TRUE,  shape |-> <<"CC", "T", "R", "CC", "T", "R">>],
  [name |-> "mdpartial",       kind |-> "converter", m |-> TRUE,  shape |-> <<"T", "CC", "T", "S", "T", "R", "T">>],
  [name |-> "mdmacrobuf",      kind |-> "converter", m |-> TRUE,  shape |-> <<"T", "CB", "T", "CC", "T", "R", "T", "R", "T">>],
  [name |-> "mdinmacro",       kind |-> "converter", m |-> TRUE,  shape |-> <<"T", "CD", "T", "CC", "T", "R", "T", "R", "T">>],
  [name |-> "mdvalue",         kind |-> "convshow",  m |-> TRUE,  shape |-> <<"T", "V", "T", "V">>],
  [name |-> "mdfilehtml",      kind |-> "render",    m |-> TRUE,  shape |-> <<"T", "S", "T", "CD", "T", "S", "T", "R", "T">>],
  [name |-> "for",             kind |-> "loop",      m |-> TRUE,  shape |-> <<"T", "T", "S", "T", "T", "S", "T">>],
  [name |-> "forbreak",        kind |-> "loop",      m |-> TRUE,  shape |-> <<"T", "T", "T", "T", "T", "T", "T">>],
  [name |-> "formacro",        kind |-> "loop",      m |-> TRUE,  shape |-> <<"CD", "T", "S", "T", "R", "CD", "T", "S", "T", "R">>],
  [name |-> "switch",          kind |-> "show",      m |-> TRUE,  shape |-> <<"T", "S", "T">>],
  [name |-> "recovermain",     kind |-> "recover",   m |-> TRUE,  shape |-> <<"DR", "T", "S", "T", "S", "T">>],
  [name |-> "recovermacro",    kind |-> "recover",   m |-> TRUE,  shape |-> <<"T", "CD", "DR", "T", "S", "T", "R", "T", "CD", "DR", "T", "S", "T", "R", "T">>],
  [name |-> "recovermacrobuf", kind |-> "recover",   m |-> TRUE,  shape |-> <<"T", "CB", "DR", "T", "S", "T", "R", "T", "CD", "DR", "T", "S", "T", "R">>],
  [name |-> "recoverouter",    kind |-> "recover",   m |-> TRUE,  shape |-> <<"T", "CD", "DR", "T", "CD", "T", "S", "T", "R", "T", "R", "T">>],
  [name |-> "recovermd",       kind |-> "recover",   m |-> TRUE,  shape |-> <<"T", "CD", "DR", "T", "CC", "T", "S", "R", "T", "R", "T">>],
  [name |-> "recoverpartial",  kind |-> "recover",   m |-> TRUE,  shape |-> <<"T", "CD", "DR", "T", "S", "T", "R", "T">>],
  [name |-> "recoverdeep",     kind |-> "recover",   m |-> TRUE,  shape |-> <<"DR", "T", "CD", "DN", "T", "S", "R", "T">>],
  \* recover and panic again with the recovered value: not an instruction of the model (m = FALSE: replayed and judged, no model outcome set)
  [name |-> "recoverrepanic",  kind |-> "recover",   m |-> FALSE, shape |-> <<>>],
  [name |-> "defernorecover",  kind |-> "defer",     m |-> TRUE,  shape |-> <<"DN", "T", "S", "T">>],
  [name |-> "defermacro",      kind |-> "defer",     m |-> TRUE,  shape |-> <<"T", "CD", "DN", "T", "S", "T", "R", "T">>],
  [name |-> "defertwo",        kind |-> "defer",     m |-> TRUE,  shape |-> <<"DN", "DR", "DN", "T", "S", "T">>],
  [name |-> "import",          kind |-> "import",    m |-> TRUE,  shape |-> <<"T", "CD", "T", "R", "T", "CD", "T", "S", "CD", "T", "R", "R">>],
  [name |-> "importas",        kind |-> "import",    m |-> TRUE,  shape |-> <<"T", "CD", "T", "S", "R", "T", "CB", "T", "S", "R", "T">>],
  [name |-> "extends",         kind |-> "import",    m |-> TRUE,  shape |-> <<"T", "CD", "T", "R", "T", "CD", "T", "S", "T", "R", "T">>],
  [name |-> "using",           kind |-> "using",     m |-> TRUE,  shape |-> <<"T", "CD", "T", "S", "T", "R", "T">>],
  [name |-> "usingvar",        kind |-> "using",     m |-> TRUE,  shape |-> <<"CB", "T", "S", "R", "T", "T", "T">>],
  [name |-> "usingmacro",      kind |-> "using",     m |-> TRUE,  shape |-> <<"CB", "T", "S", "T", "R", "CD", "T", "T", "R", "T">>],
  [name |-> "usingmacrokw",    kind |-> "using",     m |-> TRUE,  shape |-> <<"T", "CD", "T", "S", "T", "R", "T">>]
}
\* shows of every kind of value in every context (autoescaping): "cx/<context>/<value>", names known to the driver
Contexts == {"html", "html2", "tag", "attrq", "attrsq", "attru", "url", "urlq", "urlstate", "urlu", "srcset", "js", "jsstr",
             "jsattr", "css", "cssstr", "cssattr", "jsonld", "jsfile", "cssfile", "jsonfile", "mdfile", "txtfile"}
Values == {"str", "plain", "empty", "query", "int", "float", "bool", "slice", "ints", "map", "struct", "ptr", "stringer",
           "envstr", "htmlstr", "html", "err", "bytes", "md", "js", "css", "json", "anys"}

CatShapes == {c.shape : c \in Catalogue}
MCShapes == CatShapes \cup Gen(Ops, MaxLen) \cup Gen(Reduced, MaxLenR) \cup Gen(Minimal, MaxLenM)

\* the model's outcomes of a shape: what Run does and whether the template recovered, over all k, sticky or not
Outcomes(shape, cf) ==
  {[ret |-> f.ret, rec |-> IF f.nrec > 0 THEN 1 ELSE 0, fail |-> f.failed] :
     f \in {Final(S0(shape, k, st, cf)) : k \in 1..(NWrites(shape) + 1), st \in Stickiness(shape)}}
CatSeq == SetToSeq(Catalogue)
CxSeq == SetToSeq(Contexts \X Values)
OutsF == [i \in 1..Len(CatSeq) |-> IF CatSeq[i].m THEN SetToSeq(Outcomes(CatSeq[i].shape, TRUE)) ELSE <<>>]
Cases == [i \in 1..Len(CatSeq) |->
            [id |-> i, name |-> CatSeq[i].name, kind |-> CatSeq[i].kind, modelled |-> CatSeq[i].m,
             outsF |-> IF CatSeq[i].m THEN OutsF[i] ELSE <<>>,
             outsO |-> IF ~CatSeq[i].m THEN <<>>
                       ELSE IF \E j \in DOMAIN CatSeq[i].shape : CatSeq[i].shape[j] = "CC"
                            THEN SetToSeq(Outcomes(CatSeq[i].shape, FALSE)) ELSE OutsF[i]]]   \* (the variants differ only at "CC")
         \o [i \in 1..Len(CxSeq) |->
            [id |-> 1000 + i, name |-> "cx/" \o CxSeq[i][1] \o "/" \o CxSeq[i][2], kind |-> "cx", modelled |-> FALSE,
             outsF |-> <<>>, outsO |-> <<>>]]
ASSUME Export => ndJsonSerialize("cases.ndjson", Cases)
=============================================================================

---------------------------- MODULE Trace_Writer ----------------------------
(* Judges event logs of real renders with a failing writer against the REFERENCE part of
   Writer.tla.  obs.ndjson, one event per line, grouped by run (field t), in the order in which
   they happened:
     reset   {t, id, name, kind, k, mode, n, full, modelled, outsF, outsO}
               a run of template `name` starts; the writer will fail at attempt k (k = n+1: never;
               mode "count": the fault-free counting run, k = 0); n and full are the number of
               writes and the output of the counting run of the same template
     write   {t, i, len, via, rec, res, m}
               i-th Write/WriteString call on the writer, len bytes offered, m accepted,
               res "ok"|"fail" (fail = it returned E), rec = number of panics the template had
               recovered when the call was made, via = who called (write|writestring: the renderer;
               conv: the driver's Markdown converter called at a macro's return; convshow: the
               converter called for a shown Markdown value)
     return  {t, kind, detail, rec, acc, post, ndefer}
               Run is over: kind "nil" | "E" (err == E, identity) | "wrappedE" | "other" |
               "hostpanic" (Run panicked into the driver) | "builderror"; acc = the bytes accepted
               up to and including the first failing attempt
   The observable part of the Writer.tla state (att, failed, pend, after, nrec, ret) is driven by
   the events; TemplateRecover is not logged as an event of its own: it is inferred from the
   recover counter sampled at the next event.  Property-level predicates, all from the statement:
     NoWriteAfterFail   no attempt reaches the writer while a failure is pending (not recovered)
     ReturnsE           a failure pending at the end => Run returned exactly E
     NoHostPanic        the writer failed => Run did not panic into the host
     Prefix             what the writer accepted up to the failure is a prefix of the fault-free
                        output ("no byte is written after the failure" presupposes that the bytes
                        before it are the render's; a deterministic template is assumed - every
                        catalogue template is)
   Reading chosen for "returns E": error identity (err == E), as the documentation of Template.Run
   says "Run returns the error returned by out.Write".  After the template's own code recovered,
   nothing is demanded of the return value or of later writes (until a later failure, which is
   again pending until recovered) except that the host does not panic.
   Runs whose writer never failed (k = n+1, the counting run) carry no demand; a template whose
   fault-free render does not return nil is outside the property's domain (counted `undefined`).
   Diagnostic only (stats.driftF / driftO): the outcome is one the implementation-shaped model
   predicts for the template's shape under the fatal / outError variant of the converter branch. *)
EXTENDS Writer, Json
Trace == ndJsonDeserialize("obs.ndjson")
VARIABLES l, bad, cur, lastrec, failvia, rejected, stats
tvars == <<s, l, bad, cur, lastrec, failvia, rejected, stats>>
Ev == Trace[l]
IsEvent(e) == l <= Len(Trace) /\ Ev.ev = e /\ l' = l + 1
NoRun == [t |-> 0, name |-> "", k |-> 0, mode |-> "none", full |-> <<>>, modelled |-> FALSE, outsF |-> <<>>, outsO |-> <<>>]
Stats0 == [runs |-> 0, failing |-> 0, recovered |-> 0, undefined |-> 0, driftF |-> 0, driftO |-> 0, modelled |-> 0]
TInit == /\ l = 1 /\ bad = <<>> /\ cur = NoRun /\ lastrec = 0 /\ failvia = "none" /\ rejected = FALSE /\ stats = Stats0
         /\ s = S0(<<>>, 0, FALSE, FALSE)
IsPrefix(a, b) == Len(a) <= Len(b) /\ \A i \in 1..Len(a) : a[i] = b[i]
Path == CASE failvia = "conv" -> "converter" [] failvia = "convshow" -> "convshow" [] failvia = "none" -> "none" [] OTHER -> "direct"
Sig(clause) == [fam |-> "writer", clause |-> clause, path |-> Path]
Reject(clause) == IF rejected \/ Len(bad) >= 300 THEN bad
                  ELSE Append(bad, [k |-> l, id |-> cur.t, name |-> cur.name, fk |-> cur.k, mode |-> cur.mode, sig |-> Sig(clause)])
\* the inferred TemplateRecover: the template recovered a panic since the last failing attempt
Recovered(x, rec) == IF x.pend /\ rec # lastrec THEN [x EXCEPT !.pend = FALSE, !.nrec = rec] ELSE [x EXCEPT !.nrec = rec]

TReset == /\ IsEvent("reset")
          /\ s' = S0(<<>>, Ev.k, FALSE, FALSE)
          /\ cur' = [t |-> Ev.t, name |-> Ev.name, k |-> Ev.k, mode |-> Ev.mode, full |-> Ev.full,
                     modelled |-> Ev.modelled, outsF |-> Ev.outsF, outsO |-> Ev.outsO]
          /\ lastrec' = 0 /\ failvia' = "none" /\ rejected' = FALSE
          /\ stats' = [stats EXCEPT !.runs = @ + 1] /\ UNCHANGED bad
\* WriteOk / WriteFail of the reference level
TWrite == /\ IsEvent("write")
          /\ LET y == Attempt(Recovered(s, Ev.rec), Ev.res = "ok")
                 viol == y.after > s.after                  \* this attempt was made while a failure was pending
             IN /\ s' = y
                /\ bad' = IF viol THEN Reject("after") ELSE bad
                /\ rejected' = (rejected \/ viol)
          /\ lastrec' = IF Ev.res = "fail" THEN Ev.rec ELSE lastrec
          /\ failvia' = IF Ev.res = "fail" THEN Ev.via ELSE failvia
          /\ UNCHANGED <<cur, stats>>
RetOf(kind) == IF kind \in {"nil", "E", "hostpanic"} THEN kind ELSE "other"
InOuts(outs, y, rec) == \E i \in DOMAIN outs : outs[i].ret = y.ret /\ outs[i].rec = (IF rec > 0 THEN 1 ELSE 0) /\ outs[i].fail = y.failed
TReturn == /\ IsEvent("return")
           /\ LET y == [Recovered(s, Ev.rec) EXCEPT !.ret = RetOf(Ev.kind)]
                  judged == cur.mode # "count" /\ y.failed
                  clause == IF ~NoHostPanic(y) THEN "hostpanic" ELSE IF ~ReturnsE(y) THEN "return"
                            ELSE IF ~IsPrefix(Ev.acc, cur.full) THEN "prefix" ELSE "none"
                  viol == judged /\ clause # "none"
              IN /\ s' = y
                 /\ bad' = IF viol THEN Reject(clause) ELSE bad
                 /\ rejected' = (rejected \/ viol)
                 /\ stats' = [stats EXCEPT !.failing = @ + (IF judged THEN 1 ELSE 0),
                                           !.recovered = @ + (IF judged /\ Ev.rec > 0 THEN 1 ELSE 0),
                                           !.undefined = @ + (IF cur.mode = "count" /\ Ev.kind # "nil" THEN 1 ELSE 0),
                                           !.modelled = @ + (IF cur.modelled /\ cur.mode # "count" THEN 1 ELSE 0),
                                           !.driftF = @ + (IF cur.modelled /\ cur.mode # "count" /\ ~InOuts(cur.outsF, y, Ev.rec) THEN 1 ELSE 0),
                                           !.driftO = @ + (IF cur.modelled /\ cur.mode # "count" /\ ~InOuts(cur.outsO, y, Ev.rec) THEN 1 ELSE 0)]
           /\ UNCHANGED <<cur, lastrec, failvia>>
TNext == TReset \/ TWrite \/ TReturn
Done == l = Len(Trace) + 1 => (ndJsonSerialize("bad.ndjson", bad) /\ ndJsonSerialize("stats.ndjson", <<stats>>))
Consumed == TLCGet("stats").diameter - 1 = Len(Trace)
\* the reference invariants hold of every state of a run that was not rejected (cross-check of the bookkeeping above)
TraceInv == (~rejected /\ cur.mode # "count") => NoWriteAfterFail(s)
=============================================================================

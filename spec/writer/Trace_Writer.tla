---------------------------- MODULE Trace_Writer ----------------------------
(* Judges logs of real renders with a failing writer against the REFERENCE part of Writer.tla.
   obs.ndjson: one record per template,
     {id, name, kind, n, full, ckind, cdetail, modelled, outsF, outsO, runs}
   n, full, ckind = number of Write calls, output and return kind of the fault-free counting run;
   runs = one entry per (failure index k in 1..n+1, writer mode):
     {t, k, mode, w, kind, detail, rec, ndefer, acc, post}
   w    = every Write/WriteString call on the writer, in order: <<len offered, accepted, ok (1) or
          failed with E (0), number of panics the template had recovered when the call was made,
          via (0 Write, 1 WriteString, 2 the Markdown converter at a macro's return, 3 the
          converter for a shown Markdown value)>>
   kind = what Run did: "nil" | "E" (err == E, identity) | "wrappedE" | "other" | "hostpanic"
   rec  = number of panics the template's own code had recovered when Run returned
   acc  = the bytes the writer accepted up to and including the first failing call

   Each run is replayed through the reference-level actions of Writer.tla: every call is a
   WriteOk/WriteFail (Attempt) on the observable state (att, failed, pend, after, nrec, ret);
   TemplateRecover is not logged as an event of its own, it is inferred from the recover counter
   sampled at the next call.  Property-level predicates, all clauses of the statement:
     after      NoWriteAfterFail: no call reaches the writer while a failure is pending (not recovered)
     hostpanic  NoHostPanic: the writer failed => Run did not panic into the host
     return     ReturnsE: a failure pending at the end => Run returned exactly E
     prefix     what the writer accepted up to the failure is a prefix of the fault-free output
                ("no byte is written after the failure" presupposes that the bytes before it are
                the render's; the catalogue templates are deterministic)
   Reading chosen for "returns E": error identity (err == E) - the documentation of Template.Run
   says "Run returns the error returned by out.Write".  After the template's own code recovered
   nothing is demanded of the return value or of later writes (until a later failure, which is
   again pending until recovered) except that the host does not panic.  Runs whose writer never
   failed (k = n+1) carry no demand; a template whose fault-free render does not return nil is
   outside the property's domain (has no runs; counted `undefined`).
   Diagnostic only (driftF / driftO): the run's outcome is one the implementation-shaped model
   predicts for the template's shape under the fatalError / outError variant of the converter branch. *)
EXTENDS Writer, Json
R0 == [att |-> 0, failed |-> FALSE, pend |-> FALSE, after |-> 0, nrec |-> 0, ret |-> "none"]
\* the inferred TemplateRecover: the recover counter moved since the last failing call
Recovered(x, rec, lastrec) == IF x.pend /\ rec # lastrec THEN [x EXCEPT !.pend = FALSE, !.nrec = rec] ELSE [x EXCEPT !.nrec = rec]
RECURSIVE Walk(_, _, _)
Walk(w, i, st) ==
  IF i > Len(w) THEN st
  ELSE LET e == w[i]
           y == Attempt(Recovered(st.x, e[4], st.lastrec), e[3] = 1)         \* WriteOk / WriteFail
       IN Walk(w, i + 1, [x |-> y, lastrec |-> IF e[3] = 0 THEN e[4] ELSE st.lastrec, via |-> IF e[3] = 0 THEN e[5] ELSE st.via])
RetOf(kind) == IF kind \in {"nil", "E", "hostpanic"} THEN kind ELSE "other"
IsPrefix(a, b) == Len(a) <= Len(b) /\ \A i \in 1..Len(a) : a[i] = b[i]
\* the final reference state of a run, and who made the last failing call
EndOf(run) == LET st == Walk(run.w, 1, [x |-> R0, lastrec |-> 0, via |-> 0])
              IN [x |-> [Recovered(st.x, run.rec, st.lastrec) EXCEPT !.ret = RetOf(run.kind)], via |-> st.via]
ClausesAt(r, run, e) ==
  LET y == e.x IN
  IF ~y.failed THEN <<>>
  ELSE SelectSeq(<<"after", "hostpanic", "return", "prefix">>,
         LAMBDA c : CASE c = "after" -> ~NoWriteAfterFail(y)
                      [] c = "hostpanic" -> ~NoHostPanic(y)
                      [] c = "return" -> ~ReturnsE(y) /\ NoHostPanic(y)   \* (a host panic is reported as such, once)
                      [] c = "prefix" -> ~IsPrefix(run.acc, r.full))
Path(via) == CASE via = 2 -> "converter" [] via = 3 -> "convshow" [] OTHER -> "direct"
InOuts(outs, y, rec) ==
   \E i \in DOMAIN outs : outs[i].ret = y.ret /\ outs[i].rec = (IF rec > 0 THEN 1 ELSE 0) /\ outs[i].fail = y.failed
Card(S) == Cardinality(S)
\* one pass over the runs of a template: the violated clauses of each run, the counters (measured, for the
\* evidence file) and the model-conformance diagnostic
\* (E and C are passed as operator arguments: TLC evaluates an argument once, a LET definition at every use)
RecEval3(r, J, E, C) ==
     [ok |-> \A j \in J : C[j] = <<>>,
      bad |-> LET idx == SelectSeq([j \in 1..Len(r.runs) |-> j], LAMBDA j : C[j] # <<>>) IN
              [i \in 1..Len(idx) |-> [t |-> r.runs[idx[i]].t, fk |-> r.runs[idx[i]].k, mode |-> r.runs[idx[i]].mode,
                                      clauses |-> C[idx[i]], path |-> Path(E[idx[i]].via)]],
      tally |-> [runs |-> Len(r.runs),
                 failing |-> Card({j \in J : E[j].x.failed}),
                 recovered |-> Card({j \in J : E[j].x.failed /\ r.runs[j].rec > 0}),
                 undefined |-> IF r.ckind # "nil" THEN 1 ELSE 0,
                 modelled |-> IF r.modelled THEN Len(r.runs) ELSE 0,
                 driftF |-> IF r.modelled THEN Card({j \in J : ~InOuts(r.outsF, E[j].x, r.runs[j].rec)}) ELSE 0,
                 driftO |-> IF r.modelled THEN Card({j \in J : ~InOuts(r.outsO, E[j].x, r.runs[j].rec)}) ELSE 0]]
RecEval2(r, E) == RecEval3(r, DOMAIN r.runs, E, [j \in DOMAIN r.runs |-> ClausesAt(r, r.runs[j], E[j])])
RecEval(r) == RecEval2(r, [j \in DOMAIN r.runs |-> EndOf(r.runs[j])])
RecOk(r) == RecEval(r).ok
Sig(r) == [fam |-> "writer", name |-> r.name]
Tally0 == [runs |-> 0, failing |-> 0, recovered |-> 0, undefined |-> 0, modelled |-> 0, driftF |-> 0, driftO |-> 0]
Add(a, b) == [f \in DOMAIN a |-> a[f] + b[f]]

(* ---- record-walk skeleton (as in spec/lib2/Trace_HTMLEscape.tla; plus the counters) ---- *)
VARIABLES l, nbad, tally
Obs == ndJsonDeserialize("obs.ndjson")
\* every record is evaluated once (TLC evaluates and caches zero-argument constant definitions)
Evals == [i \in 1..Len(Obs) |-> RecEval(Obs[i])]
TInit == l = 1 /\ nbad = 0 /\ tally = Tally0 /\ s = R0
TNext == /\ l <= Len(Obs) /\ l' = l + 1 /\ s' = s
         /\ nbad' = nbad + (IF Evals[l].ok THEN 0 ELSE 1) /\ tally' = Add(tally, Evals[l].tally)
BadIdx == SelectSeq([i \in 1..Len(Obs) |-> i], LAMBDA i : ~Evals[i].ok)
Done == l = Len(Obs) + 1 =>
          /\ ndJsonSerialize("bad.ndjson",
               IF nbad = 0 THEN <<>>
               ELSE [j \in 1..(IF Len(BadIdx) < 400 THEN Len(BadIdx) ELSE 400) |->
                       [k |-> BadIdx[j], id |-> Obs[BadIdx[j]].id, sig |-> Sig(Obs[BadIdx[j]]), nbad |-> nbad,
                        runs |-> Evals[BadIdx[j]].bad]])
          /\ ndJsonSerialize("stats.ndjson", <<tally>>)
Consumed == TLCGet("stats").diameter - 1 = Len(Obs)
=============================================================================

------------------------------ MODULE Gen_Bytes ------------------------------
(* C04: the input space "every byte string of length <= MaxLen over a syntax alphabet", exported
   as cases, and the property-level judgement of what Build / BuildTemplate / Disassemble did with
   each input in each role (Trace_Build). *)
EXTENDS Integers, Sequences, TLC, Json, SequencesExt, Text
CONSTANTS MaxLen, Alphabet
Cases == LET S == SetToSeq(SeqsUpTo(Alphabet, MaxLen)) IN [i \in 1..Len(S) |-> [id |-> i, s |-> S[i]]]
ASSUME ndJsonSerialize("cases.ndjson", Cases)
VARIABLE x
Init == x = 0
Next == FALSE /\ x' = x
=============================================================================

------------------------------ MODULE Gen_Tags ------------------------------
(* C04, second input space: HTML start tags whose attribute values mix literal text and template
   code. Gen_Bytes enumerates EVERY short byte string; the states of the lexer's tag/attribute
   automaton (tag name, attribute name, quoted/unquoted value, script/style type) are only reached
   by strings longer than that bound, so this module enumerates them structurally:

       "<" name " " attr "=" quote piece* quote ">" body          (and its truncations are covered
                                                                    by the driver's seeded cuts)

   for every tag name, attribute, quoting style, every sequence of at most MaxPieces value pieces
   (literals, a show, a statement, a comment, a space, the known MIME types) and every body.
   The tables below are byte strings (the comment is the text). *)
EXTENDS Integers, Sequences, TLC, Json, SequencesExt, Text
CONSTANTS MaxPieces, NPieces, NNames, NAttrs, IdBase
Names == <<
    <<115,99,114,105,112,116>>,   \* script
    <<115,116,121,108,101>>,   \* style
    <<97>>,   \* a
    <<105,109,103>>,   \* img
    <<100,105,118>>   \* div
  >>
Attrs == <<
    <<116,121,112,101>>,   \* type
    <<104,114,101,102>>,   \* href
    <<99,108,97,115,115>>,   \* class
    <<115,114,99>>,   \* src
    <<111,110,99,108,105,99,107>>,   \* onclick
    <<115,116,121,108,101>>,   \* style
    <<115,114,99,115,101,116>>   \* srcset
  >>
Quotes == <<
    <<34>>,   \* "
    <<39>>,   \* '
    <<>>   \* ''
  >>
Pieces == <<
    <<97>>,   \* a
    <<123,123,32,34,97,34,32,125,125>>,   \* {{ "a" }}
    <<109,111,100,117,108,101>>,   \* module
    <<123,37,32,105,102,32,116,114,117,101,32,37,125,98,123,37,32,101,110,100,32,37,125>>,   \* {% if true %}b{% end %}
    <<123,35,32,99,32,35,125>>,   \* {# c #}
    <<32>>,   \* ' '
    <<116,101,120,116,47,106,97,118,97,115,99,114,105,112,116>>,   \* text/javascript
    <<97,112,112,108,105,99,97,116,105,111,110,47,108,100,43,106,115,111,110>>,   \* application/ld+json
    <<116,101,120,116,47,99,115,115>>   \* text/css
  >>
Bodies == <<
    <<>>,   \* ''
    <<123,123,32,49,32,125,125>>,   \* {{ 1 }}
    <<97,123,123,32,34,97,34,32,125,125,60,47,115,99,114,105,112,116,62>>,   \* a{{ "a" }}</script>
    <<97,60,47,115,116,121,108,101,62,123,123,32,49,32,125,125>>   \* a</style>{{ 1 }}
  >>

Tag(n, a, q, ps, bd) == <<60>> \o Names[n] \o <<32>> \o Attrs[a] \o <<61>> \o Quotes[q]
                         \o Flatten([k \in 1..Len(ps) |-> Pieces[ps[k]]]) \o Quotes[q] \o <<62>> \o Bodies[bd]

Shapes == { <<n, a, q, ps, bd>> : n \in 1..NNames, a \in 1..NAttrs, q \in 1..Len(Quotes),
                                  ps \in SeqsUpTo(1..NPieces, MaxPieces), bd \in 1..Len(Bodies) }
Cases == LET S == SetToSeq(Shapes)
         IN [i \in 1..Len(S) |-> [id |-> IdBase + i, s |-> Tag(S[i][1], S[i][2], S[i][3], S[i][4], S[i][5])]]
ASSUME NPieces <= Len(Pieces) /\ NNames <= Len(Names) /\ NAttrs <= Len(Attrs)
ASSUME ndJsonSerialize("cases_tags.ndjson", Cases)
VARIABLE x
Init == x = 0
Next == FALSE /\ x' = x
=============================================================================

--------------------------- MODULE Trace_LexProto ---------------------------
(* Validates the token traffic of real builds against LexProto.  obs.ndjson: one record per lexer
   instance {id, L: [[ev, n], ...], P: [[ev, n], ...]} where L are the lexer goroutine's events
   (emit typ | close e) and P the parser's (recv typ | recv-closed e | stop-enter | stop-leave),
   each in its own program order; the cross-goroutine order is NOT logged.  Both processes'
   enabling conditions are monotone in the other's progress, so if any interleaving explains the
   two logs, the deterministic "lexer first" schedule does; TLC therefore walks that schedule,
   using the specification's own actions, and rejects a trace when neither process can move. *)
EXTENDS LexProto, Json, TLC
Obs == ndJsonDeserialize("obs.ndjson")
VARIABLES tr, li, pi, bad
tvars == <<vars, tr, li, pi, bad>>
R == Obs[tr]
Emits(L) == SelectSeq(L, LAMBDA e : e[1] = "emit")
Recvs(P) == SelectSeq(P, LAMBDA e : e[1] = "recv")
HasEv(S, name) == \E i \in DOMAIN S : S[i][1] = name
LexErrOf(L) == \E i \in DOMAIN L : L[i][1] = "close" /\ L[i][2] = 1
TInit == /\ tr = 1 /\ li = 0 /\ pi = 0 /\ bad = <<>>
         /\ plan = [n |-> 0, lexErr |-> TRUE, toks |-> <<>>] /\ abortAt = 0
         /\ chan = <<>> /\ closed = FALSE /\ closeCount = 0 /\ errSet = FALSE
         /\ lpc = "scan" /\ sent = 0 /\ ppc = "parsing" /\ recvd = 0 /\ errSeen = "none"
\* bind the unlogged "plan" of both processes from their logs, then run the specification's actions
TReset == /\ tr <= Len(Obs) /\ li = 0
          /\ LET E == Emits(R.L) V == Recvs(R.P) IN
             /\ plan' = [n |-> Len(E), lexErr |-> LexErrOf(R.L), toks |-> [i \in 1..Len(E) |-> E[i][2]]]
             /\ abortAt' = IF HasEv(R.P, "recv-closed") \/ (~LexErrOf(R.L) /\ Len(V) = Len(E)) THEN Len(E) + 2
                           ELSE Len(V)
          /\ chan' = <<>> /\ closed' = FALSE /\ closeCount' = 0 /\ errSet' = FALSE
          /\ lpc' = "scan" /\ sent' = 0 /\ ppc' = "parsing" /\ recvd' = 0 /\ errSeen' = "none"
          /\ li' = 1 /\ pi' = 1 /\ UNCHANGED <<tr, bad>>
LEv == R.L[li]
PEv == R.P[pi]
TLexEmit == /\ li >= 1 /\ li <= Len(R.L) /\ LEv[1] = "emit" /\ LexEmit /\ li' = li + 1 /\ UNCHANGED <<tr, pi, bad>>
\* the code sets err (if any) and closes; the hook logs one "close e" event: two spec actions composed
TLexClose == /\ li >= 1 /\ li <= Len(R.L) /\ LEv[1] = "close"
             /\ lpc = "scan" /\ sent = plan.n /\ (LEv[2] = 1) = plan.lexErr
             /\ errSet' = plan.lexErr /\ closed' = TRUE /\ closeCount' = closeCount + 1 /\ lpc' = "done"
             /\ li' = li + 1
             /\ UNCHANGED <<plan, abortAt, chan, sent, ppc, recvd, errSeen, tr, pi, bad>>
TLex == TLexEmit \/ TLexClose
TParRecv == /\ pi >= 1 /\ pi <= Len(R.P) /\ PEv[1] = "recv" /\ chan # <<>> /\ Head(chan) = PEv[2]
            /\ ParRecv /\ pi' = pi + 1 /\ UNCHANGED <<tr, li, bad>>
TParRecvClosed == /\ pi >= 1 /\ pi <= Len(R.P) /\ PEv[1] = "recv-closed" /\ ParRecvClosed
                  /\ (errSeen' = "err") = (PEv[2] = 1)          \* what next() saw is what the lexer published
                  /\ pi' = pi + 1 /\ UNCHANGED <<tr, li, bad>>
\* Stop() entered: the parser is on its way out (EOF seen, own syntax error, or closed channel)
TStopEnter == /\ pi >= 1 /\ pi <= Len(R.P) /\ PEv[1] = "stop-enter"
              /\ \/ ppc = "stopping" /\ UNCHANGED vars
                 \/ ParAbortEarly
              /\ pi' = pi + 1 /\ UNCHANGED <<tr, li, bad>>
\* Stop() returned: composes the unlogged StopDrain steps with StopLeave
TStopLeave == /\ pi >= 1 /\ pi <= Len(R.P) /\ PEv[1] = "stop-leave"
              /\ ppc = "stopping" /\ closed /\ lpc = "done"
              /\ chan' = <<>> /\ ppc' = "done"
              /\ pi' = pi + 1
              /\ UNCHANGED <<plan, abortAt, closed, closeCount, errSet, lpc, sent, recvd, errSeen, tr, li, bad>>
TPar == TParRecv \/ TParRecvClosed \/ TStopEnter \/ TStopLeave
\* unlogged step of Stop's drain loop (needed when the lexer is blocked on the full channel)
TDrain == /\ pi >= 1 /\ pi <= Len(R.P) /\ PEv[1] = "stop-leave" /\ StopDrain /\ UNCHANGED <<tr, li, pi, bad>>
AllConsumed == li = Len(R.L) + 1 /\ pi = Len(R.P) + 1
TAccept == /\ tr <= Len(Obs) /\ li >= 1 /\ AllConsumed /\ Finished
           /\ tr' = tr + 1 /\ li' = 0 /\ pi' = 0 /\ UNCHANGED <<vars, bad>>
Stuck == tr <= Len(Obs) /\ li >= 1 /\ ~ENABLED TLex /\ ~ENABLED TPar /\ ~ENABLED TDrain /\ ~(AllConsumed /\ Finished)
TReject == /\ Stuck
           /\ bad' = IF Len(bad) < 300
                     THEN Append(bad, [k |-> tr, id |-> R.id,
                                       sig |-> [fam |-> "lexproto",
                                                lex |-> IF li <= Len(R.L) THEN LEv[1] ELSE (IF lpc = "done" THEN "end" ELSE "no-close"),
                                                par |-> IF pi <= Len(R.P) THEN PEv[1] ELSE (IF ppc = "done" THEN "end" ELSE "no-stop-leave")]])
                     ELSE bad
           /\ tr' = tr + 1 /\ li' = 0 /\ pi' = 0 /\ UNCHANGED vars
TNext == TReset \/ TLex \/ (~ENABLED TLex /\ TPar) \/ (~ENABLED TLex /\ ~ENABLED TPar /\ TDrain) \/ TAccept \/ TReject
Done == tr = Len(Obs) + 1 => ndJsonSerialize("bad.ndjson", bad)
Consumed == TRUE
\* the specification's invariants are evaluated at every step of every real trace
TraceInv == TypeOK /\ ClosedOnce /\ NoSendAfterClose /\ ParserLeavesAfterClose
=============================================================================

----------------------------- MODULE Trace_Build -----------------------------
(* C04 property-level judgement.  One record per input: {id, s, oc, where}; oc[i] is the outcome
   code of role i (template in each format, program body, whole program, imported / extended /
   rendered file of a two-file template):
     0 built and disassembled    1 *BuildError    2 another error value (e.g. file-system error)
     3 panic recovered by the host   4 the process crashed (panic in the lexer goroutine)
     5 no return within the watchdog   6 goroutines still running after return   7 Disassemble panicked
   The property allows exactly "a result or an error": codes 0, 1, 2. *)
EXTENDS Integers, Sequences, TLC, Json
Allowed == {0, 1, 2}
RecOk(r) == \A i \in DOMAIN r.oc : r.oc[i] \in Allowed
FirstBad(r) == CHOOSE i \in DOMAIN r.oc : r.oc[i] \notin Allowed /\ \A j \in 1..(i - 1) : r.oc[j] \in Allowed
Sig(r) == [fam |-> "build", code |-> r.oc[FirstBad(r)], where |-> r.where, msg |-> r.msg]

VARIABLES l, nbad
Obs == ndJsonDeserialize("obs.ndjson")
Init == l = 1 /\ nbad = 0
Next == l <= Len(Obs) /\ l' = l + 1 /\ nbad' = nbad + (IF RecOk(Obs[l]) THEN 0 ELSE 1)
\* (operators with a parameter: a zero-argument definition would be evaluated eagerly at start-up, judging every
\*  record twice; an operator argument is evaluated once)
BadIdx(n) == SelectSeq([i \in 1..n |-> i], LAMBDA i : ~RecOk(Obs[i]))
WriteBad(B) == ndJsonSerialize("bad.ndjson",
                 [j \in 1..(IF Len(B) < 400 THEN Len(B) ELSE 400) |->
                     [k |-> B[j], id |-> Obs[B[j]].id, sig |-> Sig(Obs[B[j]]), nbad |-> nbad]])
Done == l = Len(Obs) + 1 => WriteBad(IF nbad = 0 THEN <<>> ELSE BadIdx(Len(Obs)))
Consumed == TLCGet("stats").diameter - 1 = Len(Obs)
=============================================================================

----------------------------- MODULE Trace_Build -----------------------------
(* C04 property-level judgement.  One record per input: {id, s, oc, where}; oc[i] is the outcome
   code of role i (template in each format, program body, whole program, imported / extended /
   rendered file of a two-file template):
     0 built and disassembled    1 *BuildError    2 another error value (e.g. file-system error)
     3 panic recovered by the host   4 the process crashed (panic in the lexer goroutine)
     5 no return within the watchdog   6 goroutines still running after return   7 Disassemble panicked
   The property allows exactly "a result or an error": codes 0, 1, 2. *)
EXTENDS Integers, Sequences, TLC, Json
Allowed == {0, 1, 2}
RecOk(r) == \A i \in DOMAIN r.oc : r.oc[i] \in Allowed
FirstBad(r) == CHOOSE i \in DOMAIN r.oc : r.oc[i] \notin Allowed /\ \A j \in 1..(i - 1) : r.oc[j] \in Allowed
Sig(r) == [fam |-> "build", code |-> r.oc[FirstBad(r)], where |-> r.where, msg |-> r.msg]

VARIABLES l, nbad
Obs == ndJsonDeserialize("obs.ndjson")
Init == l = 1 /\ nbad = 0
Next == l <= Len(Obs) /\ l' = l + 1 /\ nbad' = nbad + (IF RecOk(Obs[l]) THEN 0 ELSE 1)
BadIdx == SelectSeq([i \in 1..Len(Obs) |-> i], LAMBDA i : ~RecOk(Obs[i]))
Done == l = Len(Obs) + 1 =>
          ndJsonSerialize("bad.ndjson",
             IF nbad = 0 THEN <<>>
             ELSE [j \in 1..(IF Len(BadIdx) < 400 THEN Len(BadIdx) ELSE 400) |->
                     [k |-> BadIdx[j], id |-> Obs[BadIdx[j]].id, sig |-> Sig(Obs[BadIdx[j]]), nbad |-> nbad]])
Consumed == TLCGet("stats").diameter - 1 = Len(Obs)
=============================================================================

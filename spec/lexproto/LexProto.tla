------------------------------ MODULE LexProto ------------------------------
(* C04.  The token protocol between the lexer goroutine and the parser
   (internal/compiler/lexer.go scan/emit/Stop, parser.go next and the deferred Stop):
   the lexer sends tokens on a channel of capacity Cap and closes it exactly once, after having
   published its error (if any); the parser receives until EOF, a syntax error of its own (abort)
   or the closed channel, and then ALWAYS drains the channel until it is closed (Stop), so the
   lexer goroutine can never stay blocked on a full channel.
   One action per step of either goroutine; TLC explores every interleaving, every token count
   (including more tokens than the channel holds) and every abort point. *)
EXTENDS Integers, Sequences, TLC
CONSTANTS K,          \* maximum number of tokens the lexer produces (choose K > Cap)
          Cap,        \* channel capacity (20 in the code)
          StopOnAbort \* TRUE in the code: the parser's deferred Stop runs on every exit path.  FALSE is
                      \* the sensitivity variant (an error path that forgets Stop): BothTerminate must fail.
VARIABLES plan,     \* [n, lexErr, toks]: tokens the lexer will emit; whether it ends with an error instead of EOF
          abortAt,  \* the parser raises a syntax error after receiving this many tokens (K+1: never)
          chan, closed, closeCount, errSet,
          lpc, sent,          \* lexer: "scan" | "done"
          ppc, recvd, errSeen \* parser: "parsing" | "stopping" | "done"; errSeen: what next() saw after close
vars == <<plan, abortAt, chan, closed, closeCount, errSet, lpc, sent, ppc, recvd, errSeen>>

Tok(i) == plan.toks[i]
\* the last token of a scan that did not fail is the EOF token (its numeric type is whatever the code uses)
EOFTok == IF plan.lexErr \/ plan.n = 0 THEN -1 ELSE plan.toks[plan.n]
PlanToks(n, e) == [i \in 1..n |-> IF i = n /\ ~e THEN 0 ELSE i]

Init == /\ plan \in {[n |-> n, lexErr |-> e, toks |-> PlanToks(n, e)] : n \in 0..K, e \in BOOLEAN} /\ (plan.n = 0 => plan.lexErr)
        /\ abortAt \in 0..(K + 1)
        /\ chan = <<>> /\ closed = FALSE /\ closeCount = 0 /\ errSet = FALSE
        /\ lpc = "scan" /\ sent = 0 /\ ppc = "parsing" /\ recvd = 0 /\ errSeen = "none"

(* ---- lexer goroutine ---- *)
LexEmit == /\ lpc = "scan" /\ sent < plan.n /\ Len(chan) < Cap
           /\ chan' = Append(chan, Tok(sent + 1)) /\ sent' = sent + 1
           /\ UNCHANGED <<plan, abortAt, closed, closeCount, errSet, lpc, ppc, recvd, errSeen>>
LexSetErr == /\ lpc = "scan" /\ sent = plan.n /\ plan.lexErr /\ ~errSet
             /\ errSet' = TRUE
             /\ UNCHANGED <<plan, abortAt, chan, closed, closeCount, lpc, sent, ppc, recvd, errSeen>>
LexClose == /\ lpc = "scan" /\ sent = plan.n /\ (plan.lexErr => errSet)
            /\ closed' = TRUE /\ closeCount' = closeCount + 1 /\ lpc' = "done"
            /\ UNCHANGED <<plan, abortAt, chan, errSet, sent, ppc, recvd, errSeen>>

(* ---- parser ---- *)
ParAbortEarly == /\ ppc = "parsing" /\ abortAt = 0 /\ recvd = 0
                 /\ ppc' = "stopping"
                 /\ UNCHANGED <<plan, abortAt, chan, closed, closeCount, errSet, lpc, sent, recvd, errSeen>>
ParRecv == /\ ppc = "parsing" /\ chan # <<>> /\ ~(abortAt = 0 /\ recvd = 0)
           /\ chan' = Tail(chan) /\ recvd' = recvd + 1
           /\ ppc' = IF Head(chan) = EOFTok THEN "stopping"
                     ELSE IF recvd + 1 = abortAt THEN (IF StopOnAbort THEN "stopping" ELSE "done")
                     ELSE "parsing"
           /\ UNCHANGED <<plan, abortAt, closed, closeCount, errSet, lpc, sent, errSeen>>
\* next() on the closed, empty channel: reads lexer.err (must have been published before the close)
ParRecvClosed == /\ ppc = "parsing" /\ chan = <<>> /\ closed /\ ~(abortAt = 0 /\ recvd = 0)
                 /\ errSeen' = IF errSet THEN "err" ELSE "nil"
                 /\ ppc' = "stopping"
                 /\ UNCHANGED <<plan, abortAt, chan, closed, closeCount, errSet, lpc, sent, recvd>>
\* deferred p.lex.Stop(): for range l.tokens {}
StopDrain == /\ ppc = "stopping" /\ chan # <<>>
             /\ chan' = Tail(chan)
             /\ UNCHANGED <<plan, abortAt, closed, closeCount, errSet, lpc, sent, ppc, recvd, errSeen>>
StopLeave == /\ ppc = "stopping" /\ chan = <<>> /\ closed
             /\ ppc' = "done"
             /\ UNCHANGED <<plan, abortAt, chan, closed, closeCount, errSet, lpc, sent, recvd, errSeen>>

Lexer == LexEmit \/ LexSetErr \/ LexClose
Parser == ParAbortEarly \/ ParRecv \/ ParRecvClosed \/ StopDrain \/ StopLeave
Finished == lpc = "done" /\ ppc = "done"
Next == Lexer \/ Parser \/ (Finished /\ UNCHANGED vars)
Spec == Init /\ [][Next]_vars /\ WF_vars(Lexer) /\ WF_vars(Parser)

(* ---- properties ---- *)
TypeOK == Len(chan) <= Cap /\ sent <= plan.n /\ recvd <= sent
ClosedOnce == closeCount <= 1
\* happens-before: whenever the parser observed the closed channel, a lexer error had been published
ErrPublished == errSeen # "none" => (errSeen = "err") = plan.lexErr
NoSendAfterClose == closed => sent = plan.n
NoStuck == ~Finished => ENABLED (Lexer \/ Parser)           \* no deadlock, at any abort point
BothTerminate == <>Finished                                  \* the lexer goroutine never leaks
ParserLeavesAfterClose == ppc = "done" => closed /\ chan = <<>>
=============================================================================

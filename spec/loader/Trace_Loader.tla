----------------------------- MODULE Trace_Loader -----------------------------
(* Judges the event log of real scriggo.BuildTemplate calls, one record per line of obs.ndjson:
     id, fsk           case id; "plain" (recording fs.FS) or "format" (the same wrapped as a FormatFS)
     files, entry, refs   the graph (echo of the case; paths as element sequences, see Loader.tla)
     opens             [n, ok, rd]: every Open(n) the file system saw, in order; ok = it succeeded;
                       rd = number of Read calls made on the returned handle
     cls, msg          outcome: "nil" | "builderror" (msg = bytes of Error()) | "notexist"
                       (errors.Is(err, fs.ErrNotExist)) | "other" | "hostpanic" | "hang"
     ret, runaway      BuildTemplate returned within the watchdog; the file system cut the build
                       off after an absurd number of Open calls (unbounded recursion)
   Verdict: the property clauses of Loader.tla part 1 (Clause).  Agreement with the
   implementation-shaped model (exact outcome class and exact sequence of opens) is computed too,
   as drift only.                                                                               *)
EXTENDS Loader, Text, Json
ToSet(s) == {s[i] : i \in DOMAIN s}
G(r) == [files |-> ToSet(r.files), entry |-> r.entry, refs |-> r.refs]

\* Error classes.  A *scriggo.BuildError is classified by liberal keywords of its message (the
\* exact wording is not a property clause): "cycle"; "not exist" / "cannot find" / "not found"
\* (an import that is no file falls back to a package lookup, which fails with "cannot find
\* package"); anything else is "other".
KwCycle == <<99, 121, 99, 108, 101>>
KwNotExist == <<110, 111, 116, 32, 101, 120, 105, 115, 116>>
KwCannotFind == <<99, 97, 110, 110, 111, 116, 32, 102, 105, 110, 100>>
KwNotFound == <<110, 111, 116, 32, 102, 111, 117, 110, 100>>
OutClass(r) ==
  CASE r.cls = "nil" -> "ok"
    [] r.cls = "notexist" -> "notexist"
    [] r.cls = "builderror" -> (IF Contains(r.msg, KwCycle) THEN "cycle"
                                ELSE IF Contains(r.msg, KwNotExist) \/ Contains(r.msg, KwCannotFind) \/ Contains(r.msg, KwNotFound) THEN "notexist"
                                ELSE "other")
    [] r.cls = "hostpanic" -> "hostpanic"
    [] OTHER -> "other"
Returned(r) == r.ret /\ ~r.runaway /\ r.cls # "hang"

RecClause(r) == Clause(G(r), r.opens, OutClass(r), Returned(r))
RecOk(r) == RecClause(r) = ""
Sig(r) == [fam |-> "loader", clause |-> RecClause(r), detail |-> Detail(G(r), r.opens, OutClass(r), Returned(r))]

\* drift: the real run differs from what the implementation-shaped model predicts (diagnostic)
Drift(r) == LET m == ImplRun(G(r)) IN
  \/ m.out # OutClass(r)
  \/ Len(m.opens) # Len(r.opens)
  \/ \E j \in 1..Len(m.opens) : m.opens[j].n # r.opens[j].n \/ m.opens[j].ok # r.opens[j].ok

(* ---- record-walk skeleton (as in spec/lib2/Trace_HTMLEscape.tla) + a drift counter ---- *)
VARIABLES l, nbad, ndrift
Obs == ndJsonDeserialize("obs.ndjson")
Init == l = 1 /\ nbad = 0 /\ ndrift = 0
Next == l <= Len(Obs) /\ l' = l + 1 /\ nbad' = nbad + (IF RecOk(Obs[l]) THEN 0 ELSE 1)
        /\ ndrift' = ndrift + (IF Drift(Obs[l]) THEN 1 ELSE 0)
\* (1..(l - 1), not 1..Len(Obs): a state-level definition is not evaluated eagerly at start-up)
BadIdx == SelectSeq([i \in 1..(l - 1) |-> i], LAMBDA i : ~RecOk(Obs[i]))
DriftIdx == SelectSeq([i \in 1..(l - 1) |-> i], LAMBDA i : Drift(Obs[i]))
Done == l = Len(Obs) + 1 =>
          /\ ndJsonSerialize("bad.ndjson",
               IF nbad = 0 THEN <<>>
               ELSE [j \in 1..(IF Len(BadIdx) < 400 THEN Len(BadIdx) ELSE 400) |->
                       [k |-> BadIdx[j], id |-> Obs[BadIdx[j]].id, sig |-> Sig(Obs[BadIdx[j]]), nbad |-> nbad]])
          /\ ndJsonSerialize("drift.ndjson",
               IF ndrift = 0 THEN <<>>
               ELSE [j \in 1..(IF Len(DriftIdx) < 50 THEN Len(DriftIdx) ELSE 50) |->
                       [k |-> DriftIdx[j], id |-> Obs[DriftIdx[j]].id, fsk |-> Obs[DriftIdx[j]].fsk,
                        model |-> ImplRun(G(Obs[DriftIdx[j]])).out, real |-> OutClass(Obs[DriftIdx[j]]), ndrift |-> ndrift]])
Consumed == TLCGet("stats").diameter - 1 = Len(Obs)
=============================================================================

----------------------------- MODULE Trace_Loader -----------------------------
(* Judges the event log of real scriggo.BuildTemplate calls, one record per line of obs.ndjson:
     id, fsk           case id; "plain" (recording fs.FS) or "format" (the same wrapped as a FormatFS)
     files, entry, refs   the graph (echo of the case; paths as element sequences, see Loader.tla)
     opens             [n, ok, rd]: every Open(n) the file system saw, in order; ok = it succeeded;
                       rd = number of Read calls made on the returned handle
     cls, msg          outcome: "nil" | "builderror" (msg = bytes of Error()) | "notexist"
                       (errors.Is(err, fs.ErrNotExist)) | "other" | "hostpanic" | "hang"
     ret, runaway      BuildTemplate returned within the watchdog; the file system cut the build
                       off after an absurd number of Open calls (unbounded recursion)
   Verdict: the property clauses of Loader.tla part 1 (Clause).  Agreement with the
   implementation-shaped model (exact outcome class and exact sequence of opens) is computed too,
   as drift only.                                                                               *)
EXTENDS Loader, Text, Json
ToSet(s) == {s[i] : i \in DOMAIN s}
G(r) == [files |-> ToSet(r.files), entry |-> r.entry, refs |-> r.refs]

\* Error classes.  A *scriggo.BuildError is classified by liberal keywords of its message (the
\* exact wording is not a property clause): "cycle"; "not exist" / "cannot find" / "not found"
\* (an import that is no file falls back to a package lookup, which fails with "cannot find
\* package"); anything else is "other".
KwCycle == <<99, 121, 99, 108, 101>>
KwNotExist == <<110, 111, 116, 32, 101, 120, 105, 115, 116>>
KwCannotFind == <<99, 97, 110, 110, 111, 116, 32, 102, 105, 110, 100>>
KwNotFound == <<110, 111, 116, 32, 102, 111, 117, 110, 100>>
OutClass(r) ==
  CASE r.cls = "nil" -> "ok"
    [] r.cls = "notexist" -> "notexist"
    [] r.cls = "builderror" -> (IF Contains(r.msg, KwCycle) THEN "cycle"
                                ELSE IF Contains(r.msg, KwNotExist) \/ Contains(r.msg, KwCannotFind) \/ Contains(r.msg, KwNotFound) THEN "notexist"
                                ELSE "other")
    [] r.cls = "hostpanic" -> "hostpanic"
    [] OTHER -> "other"
Returned(r) == r.ret /\ ~r.runaway /\ r.cls # "hang"

\* (operator arguments, not LET: TLC re-evaluates a LET-bound value at every use)
RecClause(r) == Clause(G(r), r.opens, OutClass(r), Returned(r))
RecOk(r) == RecClause(r) = ""
SigOf(r, g, oc) == [fam |-> "loader", clause |-> Clause(g, r.opens, oc, Returned(r)), detail |-> Detail(g, r.opens, oc, Returned(r))]
Sig(r) == SigOf(r, G(r), OutClass(r))

\* drift: the real run differs from what the implementation-shaped model predicts (diagnostic;
\* computed for the plain pass only - the FormatFS pass of a case takes the same path)
DriftOf(m, r) ==
  \/ m.out # OutClass(r)
  \/ Len(m.opens) # Len(r.opens)
  \/ \E j \in 1..Len(m.opens) : m.opens[j].n # r.opens[j].n \/ m.opens[j].ok # r.opens[j].ok
Drift(r) == r.fsk = "plain" /\ DriftOf(ImplRun(G(r)), r)

(* ---- record walk: one state per record (as the skeleton of spec/lib2/Trace_HTMLEscape.tla), but
   the indexes of the first 400 bad / 50 drifting records are carried in the state (bounded, so not
   quadratic) instead of being recomputed at the end: a record is judged exactly once. ---- *)
VARIABLES l, nbad, ndrift, badk, driftk
Obs == ndJsonDeserialize("obs.ndjson")
Init == l = 1 /\ nbad = 0 /\ ndrift = 0 /\ badk = <<>> /\ driftk = <<>>
Next == /\ l <= Len(Obs) /\ l' = l + 1
        /\ IF RecOk(Obs[l]) THEN UNCHANGED <<nbad, badk>>
           ELSE nbad' = nbad + 1 /\ badk' = IF Len(badk) < 400 THEN Append(badk, l) ELSE badk
        /\ IF Drift(Obs[l]) THEN ndrift' = ndrift + 1 /\ driftk' = IF Len(driftk) < 50 THEN Append(driftk, l) ELSE driftk
           ELSE UNCHANGED <<ndrift, driftk>>
Done == l = Len(Obs) + 1 =>
          /\ ndJsonSerialize("bad.ndjson",
               [j \in 1..Len(badk) |-> [k |-> badk[j], id |-> Obs[badk[j]].id, sig |-> Sig(Obs[badk[j]]), nbad |-> nbad]])
          /\ ndJsonSerialize("drift.ndjson",
               [j \in 1..Len(driftk) |-> [k |-> driftk[j], id |-> Obs[driftk[j]].id, fsk |-> Obs[driftk[j]].fsk,
                                          model |-> ImplRun(G(Obs[driftk[j]])).out, real |-> OutClass(Obs[driftk[j]]), ndrift |-> ndrift]])
Consumed == TLCGet("stats").diameter - 1 = Len(Obs)
=============================================================================

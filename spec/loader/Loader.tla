------------------------------- MODULE Loader -------------------------------
(* C18.  Template file loading stays inside the file system and terminates.

   Representation.  A path (a file name, a referenced path, an argument of fs.FS.Open) is the
   sequence of its "/"-separated elements, exactly as strings.Split(s, "/") gives them (lossless):
       "d/e/a.html" = <<"d","e","a.html">>     "/a.html" = <<"","a.html">>     "" = <<"">>
       "../a.html"  = <<"..","a.html">>        "a.html/" = <<"a.html","">>     "d//a" = <<"d","","a">>
   A graph g = [files, entry, refs]: files is a set of names, refs a sequence of
   [o |-> owning file, k |-> kind, p |-> referenced path]; the references of one file are the
   subsequence of refs it owns, in order.  Kinds: extends, import, render and "renderd"
   ({{ render "p" default e }}: a missing file is tolerated).

   Part 1 (REFERENCE) states what the property demands, in terms of graphs and of the log of
   Open calls - it is evaluated on the model (MC_Loader) and on the real log (Trace_Loader).
   Part 2 (IMPLEMENTATION-SHAPED) transcribes internal/compiler/parser_template.go +
   path.go:ValidTemplatePath, one action per branch.                                              *)
EXTENDS Integers, Sequences, FiniteSets, TLC

Kinds == {"extends", "import", "render", "renderd"}
ESC == <<"..">>                       \* "the resolution leaves the root" (never a valid name)
ButLast(s) == SubSeq(s, 1, Len(s) - 1)
Dir(n) == IF Len(n) <= 1 THEN <<>> ELSE ButLast(n)          \* directory of a rooted name; <<>> = root
IsAbs(p) == Len(p) >= 2 /\ p[1] = ""                      \* the string starts with "/"

(* ===================================== 1. REFERENCE ====================================== *)

\* io/fs.ValidPath: "." or non-empty elements none of which is "." or ".." (hence no leading or
\* trailing slash, no "//").  A valid path cannot name anything outside the root.
\* (fs.ValidPath also wants valid UTF-8; every generated name is ASCII.)
ValidPath(n) == n = <<".">> \/ (Len(n) >= 1 /\ \A i \in 1..Len(n) : n[i] \notin {"", ".", ".."})

\* Rooted(dir, p): resolve the referenced path against the referencing file's directory, or
\* against the root for an absolute path.  Lexical resolution: an empty or "." element stays,
\* ".." goes up, going up from the root is ESC.  It is deliberately defined for EVERY p, also
\* for paths that today's parser rejects ("d/../a.html", "./a.html"): whether such a path is a
\* syntax error is not a clause of the property, only where it may lead to.
RECURSIVE Walk(_, _, _)
Walk(stack, p, i) ==
  IF i > Len(p) THEN stack
  ELSE IF p[i] \in {"", "."} THEN Walk(stack, p, i + 1)
  ELSE IF p[i] = ".." THEN (IF stack = <<>> THEN ESC ELSE Walk(ButLast(stack), p, i + 1))
  ELSE Walk(Append(stack, p[i]), p, i + 1)
Rooted(dir, p) == IF IsAbs(p) THEN Walk(<<>>, p, 2) ELSE Walk(dir, p, 1)

\* The paths the property certainly speaks about (the documented template path syntax): an
\* optional leading "/", or leading "../" elements, then a valid path other than ".".
RECURSIVE StripUps(_)
StripUps(p) == IF Len(p) >= 2 /\ p[1] = ".." THEN StripUps(Tail(p)) ELSE p
\* (TLC re-evaluates a LET-bound value at every use: anything used more than once is passed as
\* an operator argument instead, here and below)
ValidRest(q) == q # <<".">> /\ ValidPath(q)
ValidTP(p) == ValidRest(IF IsAbs(p) THEN Tail(p) ELSE StripUps(p))

RefIdx(g, f) == SelectSeq([i \in 1..Len(g.refs) |-> i], LAMBDA i : g.refs[i].o = f)
Target(g, i) == Rooted(Dir(g.refs[i].o), g.refs[i].p)
CleanFile(g, f) == \A i \in 1..Len(g.refs) : g.refs[i].o = f => ValidTP(g.refs[i].p)
SameRole(k1, k2) == k1 = k2 \/ {k1, k2} = {"render", "renderd"}

\* successors of the files S through the references of "clean" files; tg[i] = Target(g, i)
SuccT(g, tg, clean, S) == {tg[i] : i \in {j \in 1..Len(g.refs) : g.refs[j].o \in S /\ g.refs[j].o \in clean}} \cap g.files
RECURSIVE ClosureT(_, _, _, _, _)
ClosureStep(g, tg, clean, S, S2, n) == IF S2 = S THEN S ELSE ClosureT(g, tg, clean, S2, n - 1)
ClosureT(g, tg, clean, S, n) ==
  IF n = 0 THEN S ELSE ClosureStep(g, tg, clean, S, S \cup SuccT(g, tg, clean, S), n)

(* Facts(g): what the property's outcome clauses need to know about a graph (computed once).
   reach  files certainly loaded by a build that succeeds: from the entry file, through every
          reference of a file all of whose referenced paths are valid template paths (what
          happens with a file containing an invalid path is left open, so nothing is demanded
          beyond it)
   cyc    a cycle of extends/import/render is reachable from the entry file
   esc    the reachable references that would leave the root.  `render p default e` tolerates a
          missing file, so an escaping renderd is simply absent; an escaping import is not found
          as a file and, no package of that name being supplied by the harness, not found as a
          package either
   other  a cause of failure the property does NOT speak about is possible (extends placement,
          one file used in two roles, invalid paths, statement order): conservative
          over-approximation, only used to decide when the CLASS of the error is demanded to be
          "not found" and when a failure has no cause at all
   miss   the reachable references that resolve, inside the root, to a file that does not exist
          (`render p default e` tolerates that, so a renderd never counts)
   ent    the entry file exists                                                                 *)
FirstOfEntry(g) == IF \E i \in 1..Len(g.refs) : g.refs[i].o = g.entry
                   THEN CHOOSE i \in 1..Len(g.refs) : g.refs[i].o = g.entry /\ \A j \in 1..(i - 1) : g.refs[j].o # g.entry ELSE 0
Facts3(g, tg, clean, reach, live, first) ==
  [reach |-> reach,
   cyc |-> \E f \in reach : f \in ClosureT(g, tg, clean, SuccT(g, tg, clean, {f}), Cardinality(g.files)),
   esc |-> {i \in live : tg[i] = ESC /\ g.refs[i].k # "renderd"},
   miss |-> {i \in live : tg[i] # ESC /\ tg[i] \notin g.files /\ g.refs[i].k # "renderd"},
   ent |-> g.entry \in g.files,
   other |-> \/ \E f \in reach : f \notin clean
             \/ \E i \in live : g.refs[i].k = "extends" /\ i # first
             \/ \E i, j \in live : tg[i] = tg[j] /\ ~SameRole(g.refs[i].k, g.refs[j].k)
             \/ \E i, j \in live : g.refs[i].o = g.refs[j].o /\ i < j /\ g.refs[i].k \in {"render", "renderd"} /\ g.refs[j].k \in {"extends", "import"}]
Facts2(g, tg, clean, reach) ==
  Facts3(g, tg, clean, reach, {i \in 1..Len(g.refs) : g.refs[i].o \in reach /\ g.refs[i].o \in clean}, FirstOfEntry(g))
Facts1(g, tg, clean) ==
  Facts2(g, tg, clean, IF g.entry \in g.files THEN ClosureT(g, tg, clean, {g.entry}, Cardinality(g.files)) ELSE {})
Facts(g) == Facts1(g, [i \in 1..Len(g.refs) |-> Target(g, i)], {f \in g.files : CleanFile(g, f)})
Reach(g) == Facts(g).reach
HasCycle(g) == Facts(g).cyc
EscReached(g) == Facts(g).esc # {}
OtherPossible(g) == Facts(g).other
\* "the set of names that may be opened" (static over-approximation; Provenance below is the
\* log-sensitive version)
MayOpen(g) == {g.entry} \cup ({Rooted(Dir(g.refs[i].o), g.refs[i].p) : i \in 1..Len(g.refs)} \ {ESC})

(* ---- the property clauses, on a log ----
   opens : sequence of [n |-> name passed to Open, ok |-> it succeeded, rd |-> number of Read calls on the handle]
   oc    : outcome class  "ok" | "cycle" | "notexist" | "other" | "hostpanic"
   term  : the build returned (no hang, no runaway recursion)                                  *)
\* the name is the entry file, or what a reference of an already (successfully) opened file resolves to
Provenance(g, opens, i) ==
  \/ opens[i].n = g.entry
  \/ \E j \in 1..(i - 1) : opens[j].ok /\
       \E k \in 1..Len(g.refs) : g.refs[k].o = opens[j].n /\ Rooted(Dir(opens[j].n), g.refs[k].p) = opens[i].n
\* "each file is read at most once per build": two handles of one name that were both read from.
\* Probing a missing file twice is not a read (the implementation does that: measured).
ReadTwice(opens) == {i \in 1..Len(opens) : opens[i].ok /\ opens[i].rd > 0 /\
                        \E j \in 1..(i - 1) : opens[j].n = opens[i].n /\ opens[j].ok /\ opens[j].rd > 0}
IsError(oc) == oc \in {"cycle", "notexist", "other"}

\* name of the first clause that fails, "" if the property holds on this log.
\* Clauses about the Open calls (they hold at every moment of a build) ...
OpenClause(g, opens) ==
  IF \E i \in 1..Len(opens) : ~ValidPath(opens[i].n) THEN "open-valid-path"
  ELSE IF \E i \in 1..Len(opens) : ~Provenance(g, opens, i) THEN "open-provenance"
  ELSE IF ReadTwice(opens) # {} THEN "read-once"
  ELSE ""
\* ... and about the outcome
\* f was loaded: some Open(f) succeeded
Loaded(opens, f) == \E i \in 1..Len(opens) : opens[i].n = f /\ opens[i].ok
NotLoaded(F, opens) == {f \in F.reach : ~Loaded(opens, f)}
OutcomeOf(F, opens, oc) ==
  IF F.cyc /\ ~IsError(oc) THEN "cycle-is-error"
  ELSE IF F.esc # {} /\ ~IsError(oc) THEN "escape-is-error"
  \* the error CLASS is demanded only when leaving the root / a missing file is the one thing
  \* wrong with the graph (otherwise which error comes first is the implementation's business)
  ELSE IF F.esc # {} /\ ~F.cyc /\ ~F.other /\ oc # "notexist" THEN "escape-not-found-class"
  (* "every file opened is named by the path obtained by resolving the referenced path against
     the referencing file's directory", read per reference (the reading under which the clause
     says something about WHICH file a reference loads, not only that every opened name could be
     explained by some reference): a build that succeeded has resolved every reference of every
     file it loaded, so the file Rooted(dir(f), p) exists (unless the reference tolerates a
     missing file) and was opened.  A build that succeeds without having opened the resolved
     target of one of its references has taken that reference to some other file.              *)
  ELSE IF oc = "ok" /\ (F.miss # {} \/ NotLoaded(F, opens) # {}) THEN "ref-target-loaded"
  (* ... and the other direction of the same reading: when every reference of the graph resolves
     inside the root to an existing file, there is no cycle, and none of the causes of failure
     the property is silent about is possible, nothing can fail as "not found" or as a cycle -
     a build that fails all the same has resolved some reference to another name.  (Which error
     it reports is not demanded.)                                                               *)
  ELSE IF IsError(oc) /\ F.ent /\ ~F.cyc /\ F.esc = {} /\ F.miss = {} /\ ~F.other THEN "fails-without-cause"
  ELSE ""
OutcomeClause(g, opens, oc) == OutcomeOf(Facts(g), opens, oc)
OpenThenOutcome(c, g, opens, oc) == IF c # "" THEN c ELSE OutcomeClause(g, opens, oc)
Clause(g, opens, oc, term) ==
  IF ~term THEN "terminates"                                  \* ... rather than recursing / hangs
  ELSE OpenThenOutcome(OpenClause(g, opens), g, opens, oc)
\* detail for the signature: what identifies the root cause
FirstBadOpen(opens, Bad(_)) == opens[CHOOSE i \in 1..Len(opens) : Bad(i) /\ \A j \in 1..(i - 1) : ~Bad(j)].n
MinOf(E) == CHOOSE i \in E : \A j \in E : i <= j
RefSig(g, i) == <<g.refs[i].k>> \o g.refs[i].p
\* the kind and path of the first reference whose resolved target is missing or was not opened
UnloadedSet(g, F, opens) == {i \in 1..Len(g.refs) : g.refs[i].o \in F.reach /\
                               (i \in F.miss \/ (Target(g, i) \in F.reach /\ ~Loaded(opens, Target(g, i))))}
UnloadedSigOf(g, E) == IF E = {} THEN <<"entry">> ELSE RefSig(g, MinOf(E))
UnloadedSig(g, F, opens) == UnloadedSigOf(g, UnloadedSet(g, F, opens))
DetailOf(c, g, opens, oc) ==
  IF c = "open-valid-path" THEN FirstBadOpen(opens, LAMBDA i : ~ValidPath(opens[i].n))
  ELSE IF c = "open-provenance" THEN FirstBadOpen(opens, LAMBDA i : ~Provenance(g, opens, i))
  ELSE IF c = "read-once" THEN opens[MinOf(ReadTwice(opens))].n
  ELSE IF c \in {"escape-is-error", "escape-not-found-class"} THEN RefSig(g, MinOf(Facts(g).esc))
  ELSE IF c \in {"cycle-is-error", "fails-without-cause"} THEN <<oc>>
  ELSE IF c = "ref-target-loaded" THEN UnloadedSig(g, Facts(g), opens)
  ELSE <<>>
Detail(g, opens, oc, term) == DetailOf(Clause(g, opens, oc, term), g, opens, oc)

(* ---- reference expansion: depth first, an active path (cycle detection), a parsed cache ----
   It yields the intended outcome class and the intended sequence of opens for graphs without
   the "other" causes; used to check the implementation-shaped model (MC) and, on real logs, as
   drift information only.                                                                     *)
Missing(s, k) == IF k = "renderd" THEN s ELSE IF k = "import" THEN [s EXCEPT !.pend = TRUE] ELSE [s EXCEPT !.out = "notexist"]
RECURSIVE RefFile(_, _, _, _), RefRefs(_, _, _, _, _)
RefParsed(s2, f) == IF s2.out = "run" THEN [s2 EXCEPT !.parsed = @ \cup {f}] ELSE s2
RefFile(g, f, active, s) ==                \* f has just been opened successfully
  IF ~CleanFile(g, f) THEN [s EXCEPT !.out = "other"]
  ELSE RefParsed(RefRefs(g, f, 1, active \cup {f}, s), f)
RefOne(g, active, s, k, t) ==              \* one reference of kind k that resolves to t
  IF t = ESC THEN Missing(s, k)
  ELSE IF t \in active THEN [s EXCEPT !.out = "cycle"]
  ELSE IF t \in s.parsed THEN s
  ELSE IF t \notin g.files THEN Missing([s EXCEPT !.opens = Append(@, [n |-> t, ok |-> FALSE])], k)
  ELSE RefFile(g, t, active, [s EXCEPT !.opens = Append(@, [n |-> t, ok |-> TRUE])])
RefNext(g, f, i, active, s, r) == RefRefs(g, f, i + 1, active, RefOne(g, active, s, r.k, Rooted(Dir(f), r.p)))
RefRefs(g, f, i, active, s) ==
  IF s.out # "run" \/ i > Len(RefIdx(g, f)) THEN s
  ELSE RefNext(g, f, i, active, s, g.refs[RefIdx(g, f)[i]])
RefResult(s1) == [out |-> IF s1.out # "run" THEN s1.out ELSE IF s1.pend THEN "notexist" ELSE "ok", opens |-> s1.opens]
RefStart(g, s0) == RefResult(IF g.entry \in g.files THEN RefFile(g, g.entry, {}, s0) ELSE [s0 EXCEPT !.out = "notexist"])
Ref(g) == RefStart(g, [parsed |-> {}, pend |-> FALSE, out |-> "run", opens |-> <<[n |-> g.entry, ok |-> g.entry \in g.files]>>])

(* ============================= 2. IMPLEMENTATION-SHAPED MODEL ============================= *)
(* State st (one record, so that the same branches serve as TLC actions and as a function):
     g         the graph
     stack     frames [f, i]: file being expanded and index of the node being expanded in its
               unexpanded list; [fr.f : fr in stack] is pp.paths
     trees     pp.trees: set of [n |-> name, k |-> kind of the node that caused the parse]
     canExtend pp.canExtend
     pend      some import node was left with Tree == nil (ErrNotExist swallowed): the type checker
               then looks for a package of that name and fails (no packages are supplied)
     opens     log of fs.ReadFile calls
     out       "init" | "run" | "ok" | "cycle" | "notexist" | "other"
     steps     number of actions taken                                                          *)

InitSt(g) == [g |-> g, stack |-> <<>>, trees |-> {}, canExtend |-> TRUE, pend |-> FALSE,
              opens |-> <<>>, out |-> "init", steps |-> 0]

\* path.go: ValidTemplatePath, on elements
ImplValidTemplatePath(p) ==
  ValidRest(IF Len(p) >= 2 /\ p[1] = "" THEN Tail(p)          \* path[0] == '/': path = path[1:]
            ELSE StripUps(p))                                  \* for HasPrefix(path, "../"): path = path[3:]
                                                               \* path != "." && fs.ValidPath(path)
\* ParseTemplateSource succeeds on the source the harness writes for file f: every path valid,
\* extends only as the very first statement, imports before the macro that holds the renders
ParseOKL(g, L) ==
  /\ \A j \in 1..Len(L) : ImplValidTemplatePath(g.refs[L[j]].p)
  /\ \A j \in 2..Len(L) : g.refs[L[j]].k # "extends"
  /\ \A j, m \in 1..Len(L) : (j < m /\ g.refs[L[j]].k \in {"render", "renderd"}) => g.refs[L[m]].k \in {"render", "renderd"}
ParseOK(g, f) == ParseOKL(g, RefIdx(g, f))
\* path.Clean of a relative path given by its elements
RECURSIVE CleanEl(_, _, _)
CleanEl(out, p, i) ==
  IF i > Len(p) THEN (IF out = <<>> THEN <<".">> ELSE out)
  ELSE IF p[i] \in {"", "."} THEN CleanEl(out, p, i + 1)
  ELSE IF p[i] = ".." THEN (IF out # <<>> /\ out[Len(out)] # ".." THEN CleanEl(ButLast(out), p, i + 1)
                            ELSE CleanEl(Append(out, ".."), p, i + 1))
  ELSE CleanEl(Append(out, p[i]), p, i + 1)
\* rooted(parent, name).  strings.HasPrefix(r, "..") is modelled as "first element is .." (no
\* generated element other than ".." starts with two dots).
NotAbove(r) == IF r[1] = ".." THEN ESC ELSE r                     \* strings.HasPrefix(r, "..")
ImplRooted(parent, p) ==
  IF IsAbs(p) THEN Tail(p)                                        \* name[1:]
  ELSE NotAbove(CleanEl(<<>>, Dir(parent) \o p, 1))              \* path.Join(path.Dir(parent), name)

Top(st) == st.stack[Len(st.stack)]
Paths(st) == {st.stack[j].f : j \in 1..Len(st.stack)}
Cur(st) == st.g.refs[RefIdx(st.g, Top(st).f)[Top(st).i]]
CurOf(st, fr) == st.g.refs[RefIdx(st.g, fr.f)[fr.i]]
Name(st) == ImplRooted(Top(st).f, Cur(st).p)
Tick(st) == [st EXCEPT !.steps = @ + 1]
Advance(st) == [st EXCEPT !.stack[Len(st.stack)].i = @ + 1]
NoExt(st) == IF Cur(st).k = "extends" THEN st ELSE [st EXCEPT !.canExtend = FALSE]   \* pp.canExtend = false
Fail(st, o) == [st EXCEPT !.out = o]
Logged(st, n, ok) == [st EXCEPT !.opens = Append(@, [n |-> n, ok |-> ok])]
Tolerated(k) == k \in {"import", "renderd"}          \* err != nil && !errors.Is(err, os.ErrNotExist) / special
Swallow(st) == Advance(IF Cur(st).k = "import" THEN [st EXCEPT !.pend = TRUE] ELSE st)
Conflict(tk, nk) ==   \* the switch on parsed.parent.node in parseNodeFile
  \/ tk = "extends" /\ nk \in {"import", "render", "renderd"}
  \/ tk = "import" /\ nk \in {"render", "renderd"}
  \/ tk \in {"render", "renderd"} /\ nk = "import"

(* Br(st): which branch of the code is taken next - the if-chain of ParseTemplate /
   expand / parseNodeFile, in the order of the source.  "Done" when there is an outcome.        *)
BrRead(st, r, name) ==                                            \* readFileAndFormat(pp.fsys, name)
  IF name \notin st.g.files THEN (IF Tolerated(r.k) THEN "ReadMissingTolerated" ELSE "ReadMissingFail")
  ELSE IF ~ParseOK(st.g, name) THEN "ReadSyntax" ELSE "ReadPush"
BrCache(st, r, name, cached) ==                                   \* pp.trees[name] exists?
  IF cached # {} THEN (IF \E t \in cached : Conflict(t.k, r.k) THEN "CacheConflict" ELSE "CacheReuse")
  ELSE BrRead(st, r, name)
BrName(st, r, name) ==
  IF name = ESC THEN (IF Tolerated(r.k) THEN "EscapeTolerated" ELSE "EscapeFail")    \* rooted() returned os.ErrNotExist
  ELSE IF name \in Paths(st) THEN "Cycle"                                             \* slices.Contains(pp.paths, name)
  ELSE BrCache(st, r, name, {t \in st.trees : t.n = name})
BrNode(st, top, r) ==
  IF r.k = "extends" /\ ~st.canExtend THEN "ExtendsForbidden"     \* imported and rendered files can not have extends
  ELSE BrName(st, r, ImplRooted(top.f, r.p))
BrExpand(st, top, L) ==
  IF top.i > Len(L) THEN                                          \* expand: the loop over the unexpanded nodes is over
    (IF Len(st.stack) = 1 THEN "ReturnTop"                        \*   back in ParseTemplate; then the type checker
     ELSE "ReturnChild")                                          \*   back in parseNodeFile: pp.trees[name] = parsed
  ELSE BrNode(st, top, st.g.refs[L[top.i]])
Br(st) ==
  IF st.out = "init" THEN                                         \* ParseTemplate: readFileAndFormat(entry), parseSource
    (IF st.g.entry \notin st.g.files THEN "StartMissing"
     ELSE IF ~ParseOK(st.g, st.g.entry) THEN "StartSyntax" ELSE "Start")
  ELSE IF st.out # "run" THEN "Done"
  ELSE BrExpand(st, Top(st), RefIdx(st.g, Top(st).f))
Labels == {"StartMissing", "StartSyntax", "Start", "ReturnTop", "ReturnChild", "ExtendsForbidden", "EscapeFail",
           "EscapeTolerated", "Cycle", "CacheConflict", "CacheReuse", "ReadMissingFail", "ReadMissingTolerated",
           "ReadSyntax", "ReadPush"}
Pushed(s1, name) == [s1 EXCEPT !.stack = Append(@, [f |-> name, i |-> 1])]
\* the effect of each branch
Eff(b, st) ==
  CASE b = "StartMissing" -> Fail(Logged(st, st.g.entry, FALSE), "notexist")
    [] b = "StartSyntax" -> Fail(Logged(st, st.g.entry, TRUE), "other")
    [] b = "Start" -> [Logged(st, st.g.entry, TRUE) EXCEPT !.out = "run", !.stack = <<[f |-> st.g.entry, i |-> 1]>>]
    [] b = "ReturnTop" -> [st EXCEPT !.stack = <<>>, !.out = IF st.pend THEN "notexist" ELSE "ok"]
    [] b = "ReturnChild" ->
         Advance([st EXCEPT !.stack = ButLast(st.stack), !.trees = @ \cup {[n |-> Top(st).f, k |-> CurOf(st, st.stack[Len(st.stack) - 1]).k]}])
    [] b = "ExtendsForbidden" -> Fail(st, "other")
    [] b = "EscapeFail" -> Fail(NoExt(st), "notexist")
    [] b = "EscapeTolerated" -> Swallow(NoExt(st))
    [] b = "Cycle" -> Fail(NoExt(st), "cycle")
    [] b = "CacheConflict" -> Fail(NoExt(st), "other")
    [] b = "CacheReuse" -> Advance(NoExt(st))
    [] b = "ReadMissingFail" -> Fail(Logged(NoExt(st), Name(st), FALSE), "notexist")
    [] b = "ReadMissingTolerated" -> Swallow(Logged(NoExt(st), Name(st), FALSE))
    [] b = "ReadSyntax" -> Fail(Logged(NoExt(st), Name(st), TRUE), "other")
    [] b = "ReadPush" -> Pushed(Logged(NoExt(st), Name(st), TRUE), Name(st))
StepFn(st) == Tick(Eff(Br(st), st))
Final(st) == st.out \notin {"init", "run"}
RECURSIVE RunFn(_)
RunFn(st) == IF Final(st) \/ st.steps > 200 THEN st ELSE RunFn(StepFn(st))
ImplRun(g) == RunFn(InitSt(g))
\* the model's log in the shape the property clauses take (a successful open is read once)
ModelOpens(st) == [j \in 1..Len(st.opens) |-> [n |-> st.opens[j].n, ok |-> st.opens[j].ok, rd |-> IF st.opens[j].ok THEN 1 ELSE 0]]
=============================================================================

------------------------------ MODULE MC_Loader ------------------------------
(* Model check of the implementation-shaped loader (Loader.tla part 2) against the reference
   (part 1) over every graph of a bounded space, and export of that space as cases.ndjson.

   The space is a union of families [files, entry, kinds, paths, max]: every sequence of at most
   `max` references (owner in files, kind in kinds, path in paths), references grouped by owner
   and, inside a file, in the order the template syntax wants (extends, imports, renders), in
   which every reference belongs to a file reachable from the entry file (a reference of an
   unreachable file changes nothing).  Tier 1: <= 3 files, <= 3 references.  Tier 2: the same
   layouts with richer kinds/paths, 4-file layouts with <= 4 references, 5 references over a
   small alphabet.                                                                               *)
EXTENDS Loader, Json, SequencesExt
CONSTANTS Tier

A == <<"a.html">>  B == <<"b.html">>  DA == <<"d", "a.html">>  DB == <<"d", "b.html">>  DEA == <<"d", "e", "a.html">>
NameSeq == <<A, B, DA, DB, DEA>>
OwnerIdx(n) == CHOOSE i \in 1..Len(NameSeq) : NameSeq[i] = n
KindIdx(k) == CASE k = "extends" -> 1 [] k = "import" -> 2 [] k = "render" -> 3 [] k = "renderd" -> 4
Key(r) == OwnerIdx(r.o) * 10 + KindIdx(r.k)

K3 == {"extends", "import", "render"}
\* paths by form (what they resolve to depends on the directory of the referring file)
PRootMix == {<<"b.html">>, <<"", "a.html">>, <<"d", "a.html">>, <<"..", "a.html">>, <<"..", "..", "b.html">>, <<"d", "..", "a.html">>}
PMidMix  == {<<"a.html">>, <<"e", "a.html">>, <<"..", "a.html">>, <<"..", "..", "a.html">>, <<"", "d", "a.html">>, <<".", "a.html">>}
PDeepMix == {<<"..", "b.html">>, <<"..", "..", "b.html">>, <<"..", "..", "..", "b.html">>, <<"", "d", "e", "a.html">>, <<"a.html">>, <<"", "..", "b.html">>}
PRel  == {<<"a.html">>, <<"b.html">>, <<"d", "a.html">>, <<"d", "b.html">>, <<"e", "a.html">>, <<"d", "e", "a.html">>}
PAbs  == {<<"", "a.html">>, <<"", "b.html">>, <<"", "d", "a.html">>, <<"", "d", "b.html">>, <<"", "d", "e", "a.html">>}
PUp   == {<<"..", "a.html">>, <<"..", "b.html">>, <<"..", "d", "b.html">>, <<"..", "e", "a.html">>, <<"..", "..", "a.html">>,
          <<"..", "..", "b.html">>, <<"..", "..", "d", "a.html">>, <<"..", "..", "..", "a.html">>}
PBad  == {<<"">>, <<".">>, <<"..">>, <<"", "">>, <<".", "a.html">>, <<"a.html", "">>, <<"d", "", "a.html">>, <<"d", "..", "a.html">>,
          <<"", "..", "a.html">>, <<"..", "">>, <<"d", ".", "a.html">>, <<"..", "a.html", "..">>, <<"", ".">>, <<"..", ".", "a.html">>,
          <<"", "", "a.html">>, <<"e", "..", "..", "..", "b.html">>}
PAll  == PRel \cup PAbs \cup PUp \cup PBad
All5 == {A, B, DA, DB, DEA}

Fam(f, e, k, p, m) == [files |-> f, entry |-> e, kinds |-> k, paths |-> p, max |-> m]
Families ==
  IF Tier = 1 THEN
    { Fam({A, B, DA}, A, K3, PRootMix, 3),
      Fam({A, DA, DEA}, DA, {"import", "render", "renderd"}, PMidMix, 3),
      Fam({B, DB, DEA}, DEA, {"extends", "render", "renderd"}, PDeepMix, 3),
      Fam(All5, A, Kinds, PAll, 1), Fam(All5, DA, Kinds, PAll, 1), Fam(All5, DEA, Kinds, PAll, 1),
      Fam({A}, B, {}, {}, 0), Fam({DA}, A, {}, {}, 0) }
  ELSE
    { Fam({A, B, DA}, A, Kinds, PRootMix \cup {<<"", "d", "a.html">>, <<"..", "d", "a.html">>}, 3),
      Fam({A, DA, DEA}, DA, Kinds, PMidMix \cup {<<"", "a.html">>, <<"..", "e", "a.html">>}, 3),
      Fam({B, DB, DEA}, DEA, Kinds, PDeepMix \cup {<<"", "b.html">>, <<"..", "a.html">>}, 3),
      Fam({A, B, DA, DEA}, A, K3, {<<"b.html">>, <<"", "d", "a.html">>, <<"e", "a.html">>, <<"..", "a.html">>}, 4),
      Fam({A, DA, DB, DEA}, DB, {"import", "render", "renderd"}, {<<"a.html">>, <<"", "d", "b.html">>, <<"..", "..", "a.html">>, <<"e", "a.html">>}, 4),
      Fam({A, B, DA, DB}, A, {"render"}, {<<"", "a.html">>, <<"", "b.html">>, <<"", "d", "a.html">>, <<"", "d", "b.html">>}, 5),
      Fam(All5, A, Kinds, PAll, 1), Fam(All5, DA, Kinds, PAll, 1), Fam(All5, DEA, Kinds, PAll, 1),
      Fam(All5, DA, {"render", "import"}, PRel \cup PAbs \cup PUp, 2),
      Fam({A}, B, {}, {}, 0), Fam({DA}, A, {}, {}, 0) }

Alpha(fam) == {[o |-> o, k |-> k, p |-> p] : o \in fam.files, k \in fam.kinds, p \in fam.paths}
\* sequences of exactly n references in canonical order
RECURSIVE Level(_, _)
Level(fam, n) ==
  IF n = 0 THEN {<<>>}
  ELSE UNION {{Append(s, r) : r \in {x \in Alpha(fam) : Len(s) = 0 \/ Key(x) >= Key(s[Len(s)])}} : s \in Level(fam, n - 1)}
GraphsOf(fam) ==
  LET all == UNION {Level(fam, n) : n \in 0..fam.max}
      gs == {[files |-> fam.files, entry |-> fam.entry, refs |-> s] : s \in all}
  IN {g \in gs : \A i \in 1..Len(g.refs) : g.refs[i].o \in Reach(g)}
Graphs == UNION {GraphsOf(fam) : fam \in Families}

VARIABLE st
Init == \E g \in Graphs : st = InitSt(g)
StartMissing == G_StartMissing(st) /\ st' = Tick(E_StartMissing(st))
StartSyntax == G_StartSyntax(st) /\ st' = Tick(E_StartSyntax(st))
Start == G_Start(st) /\ st' = Tick(E_Start(st))
ReturnTop == G_ReturnTop(st) /\ st' = Tick(E_ReturnTop(st))
ReturnChild == G_ReturnChild(st) /\ st' = Tick(E_ReturnChild(st))
ExtendsForbidden == G_ExtendsForbidden(st) /\ st' = Tick(E_ExtendsForbidden(st))
EscapeFail == G_EscapeFail(st) /\ st' = Tick(E_EscapeFail(st))
EscapeTolerated == G_EscapeTolerated(st) /\ st' = Tick(E_EscapeTolerated(st))
Cycle == G_Cycle(st) /\ st' = Tick(E_Cycle(st))
CacheConflict == G_CacheConflict(st) /\ st' = Tick(E_CacheConflict(st))
CacheReuse == G_CacheReuse(st) /\ st' = Tick(E_CacheReuse(st))
ReadMissingFail == G_ReadMissingFail(st) /\ st' = Tick(E_ReadMissingFail(st))
ReadMissingTolerated == G_ReadMissingTolerated(st) /\ st' = Tick(E_ReadMissingTolerated(st))
ReadSyntax == G_ReadSyntax(st) /\ st' = Tick(E_ReadSyntax(st))
ReadPush == G_ReadPush(st) /\ st' = Tick(E_ReadPush(st))
Next == StartMissing \/ StartSyntax \/ Start \/ ReturnTop \/ ReturnChild \/ ExtendsForbidden \/ EscapeFail
        \/ EscapeTolerated \/ Cycle \/ CacheConflict \/ CacheReuse \/ ReadMissingFail \/ ReadMissingTolerated
        \/ ReadSyntax \/ ReadPush
Spec == Init /\ [][Next]_st /\ WF_st(Next)

(* ---- what TLC checks ---- *)
\* termination: expansion depth never exceeds the number of files, the active path has no
\* repetition, the number of steps is bounded by the size of the graph (each step consumes a
\* reference, pushes a file read for the first time, or pops it); and eventually an outcome
DepthBound == Len(st.stack) <= Cardinality(st.g.files) /\ Cardinality(Paths(st)) = Len(st.stack)
StepBound == st.steps <= 2 + Len(st.g.refs) + 2 * Cardinality(st.g.files)
Terminates == <>Final(st)
ExactlyOneBranch == ~Final(st) => Cardinality({b \in 1..15 :
     <<G_StartMissing(st), G_StartSyntax(st), G_Start(st), G_ReturnTop(st), G_ReturnChild(st), G_ExtendsForbidden(st),
       G_EscapeFail(st), G_EscapeTolerated(st), G_Cycle(st), G_CacheConflict(st), G_CacheReuse(st), G_ReadMissingFail(st),
       G_ReadMissingTolerated(st), G_ReadSyntax(st), G_ReadPush(st)>>[b]}) = 1
\* every property clause holds on the model's own log, at every step (opened names valid and
\* explained by a reference of an opened file, none opened twice) and at the end (cycle => error,
\* leaving the root => not-found error)
PropertyOnModel == IF Final(st) THEN Clause(st.g, ModelOpens(st), st.out, TRUE) = "" ELSE OpenClause(st.g, ModelOpens(st)) = ""
OpenedAtMostOnce == \A i, j \in 1..Len(st.opens) : (i # j /\ st.opens[i].ok) => st.opens[i].n # st.opens[j].n
OpensInMayOpen == \A i \in 1..Len(st.opens) : st.opens[i].n \in MayOpen(st.g)
\* reachable cycle <=> (cycle) error, outcome and opens as the reference expansion says
\* whenever none of the causes the property is silent about intervenes
ImplMeetsRef == (Final(st) /\ st.out # "other") => (st.out = Ref(st.g).out /\ st.opens = Ref(st.g).opens)
CycleSound == (Final(st) /\ st.out = "cycle") => HasCycle(st.g)
OkSound == (Final(st) /\ st.out = "ok") => (~HasCycle(st.g) /\ ~EscReached(st.g) /\ \A f \in Reach(st.g) : CleanFile(st.g, f))
OtherJustified == (Final(st) /\ st.out = "other") => OtherPossible(st.g)
RunFnAgrees == st.out = "init" => (LET r == ImplRun(st.g) IN Final(r) /\ r.steps <= 2 + Len(st.g.refs) + 2 * Cardinality(st.g.files))

(* ---- case export ---- *)
Cases == LET G == SetToSeq(Graphs) IN
  [i \in 1..Len(G) |-> [id |-> i, files |-> SetToSeq(G[i].files), entry |-> G[i].entry, refs |-> G[i].refs]]
ASSUME ndJsonSerialize("cases.ndjson", Cases)
=============================================================================

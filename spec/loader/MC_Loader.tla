------------------------------ MODULE MC_Loader ------------------------------
(* Model check of the implementation-shaped loader (Loader.tla part 2) against the reference
   (part 1) over every graph of a bounded space, and export of that space as cases.ndjson.

   The space is a union of families [files, entry, kinds, paths, max]: every sequence of at most
   `max` references (owner in files, kind in kinds, path in paths), references grouped by owner
   and, inside a file, in the order the template syntax wants (extends, imports, renders), in
   which every reference belongs to a file reachable from the entry file (a reference of an
   unreachable file changes nothing).  Tier 1: <= 3 files, <= 3 references.  Tier 2: the same
   layouts with richer kinds/paths, 4-file layouts with <= 4 references, 5 references over a
   small alphabet.                                                                               *)
EXTENDS Loader, Json, SequencesExt
CONSTANTS Tier

A == <<"a.html">>  B == <<"b.html">>  DA == <<"d", "a.html">>  DB == <<"d", "b.html">>  DEA == <<"d", "e", "a.html">>
NameSeq == <<A, B, DA, DB, DEA>>

\* paths by form (what they resolve to depends on the directory of the referring file)
PRootMix == {<<"b.html">>, <<"", "a.html">>, <<"d", "a.html">>, <<"..", "a.html">>, <<"..", "..", "b.html">>, <<"d", "..", "a.html">>}
PMidMix  == {<<"a.html">>, <<"e", "a.html">>, <<"..", "a.html">>, <<"..", "..", "a.html">>, <<"", "d", "a.html">>, <<".", "a.html">>}
PDeepMix == {<<"..", "b.html">>, <<"..", "..", "b.html">>, <<"..", "..", "..", "b.html">>, <<"", "d", "e", "a.html">>, <<"a.html">>, <<"", "..", "b.html">>}
PRel  == {<<"a.html">>, <<"b.html">>, <<"d", "a.html">>, <<"d", "b.html">>, <<"e", "a.html">>, <<"d", "e", "a.html">>}
PAbs  == {<<"", "a.html">>, <<"", "b.html">>, <<"", "d", "a.html">>, <<"", "d", "b.html">>, <<"", "d", "e", "a.html">>}
PUp   == {<<"..", "a.html">>, <<"..", "b.html">>, <<"..", "d", "b.html">>, <<"..", "e", "a.html">>, <<"..", "..", "a.html">>,
          <<"..", "..", "b.html">>, <<"..", "..", "d", "a.html">>, <<"..", "..", "..", "a.html">>}
PBad  == {<<"">>, <<".">>, <<"..">>, <<"", "">>, <<".", "a.html">>, <<"a.html", "">>, <<"d", "", "a.html">>, <<"d", "..", "a.html">>,
          <<"", "..", "a.html">>, <<"..", "">>, <<"d", ".", "a.html">>, <<"..", "a.html", "..">>, <<"", ".">>, <<"..", ".", "a.html">>,
          <<"", "", "a.html">>, <<"e", "..", "..", "..", "b.html">>}
PAll  == PRel \cup PAbs \cup PUp \cup PBad

\* a family: files, kinds, paths as sequences (files in NameSeq order, kinds in statement order)
Fam(f, e, k, p, m) == [files |-> f, entry |-> e, kinds |-> k, paths |-> SetToSeq(p), max |-> m]
K3 == <<"extends", "import", "render">>
K4 == <<"extends", "import", "render", "renderd">>
KI == <<"import", "render", "renderd">>
KE == <<"extends", "render", "renderd">>
All5 == <<A, B, DA, DB, DEA>>
Fams ==
  IF Tier = 1 THEN
    << Fam(<<A, B, DA>>, A, K3, PRootMix, 3),
       Fam(<<A, DA, DEA>>, DA, KI, PMidMix, 3),
       Fam(<<B, DB, DEA>>, DEA, KE, PDeepMix, 3),
       Fam(All5, A, K4, PAll, 1), Fam(All5, DA, K4, PAll, 1), Fam(All5, DEA, K4, PAll, 1),
       Fam(<<A>>, B, K3, {}, 0), Fam(<<DA>>, A, K3, {}, 0) >>
  ELSE
    << Fam(<<A, B, DA>>, A, K4, PRootMix \cup {<<"", "d", "a.html">>, <<"..", "d", "a.html">>}, 3),
       Fam(<<A, DA, DEA>>, DA, K4, PMidMix \cup {<<"", "a.html">>, <<"..", "e", "a.html">>}, 3),
       Fam(<<B, DB, DEA>>, DEA, K4, PDeepMix \cup {<<"", "b.html">>, <<"..", "a.html">>}, 3),
       Fam(<<A, B, DA, DEA>>, A, K3, {<<"b.html">>, <<"", "d", "a.html">>, <<"e", "a.html">>, <<"..", "a.html">>}, 4),
       Fam(<<A, DA, DB, DEA>>, DB, KI, {<<"a.html">>, <<"", "d", "b.html">>, <<"..", "..", "a.html">>, <<"e", "a.html">>}, 4),
       Fam(<<A, B, DA, DB>>, A, <<"render">>, {<<"", "a.html">>, <<"", "b.html">>, <<"", "d", "a.html">>, <<"", "d", "b.html">>}, 5),
       Fam(All5, A, K4, PAll, 1), Fam(All5, DA, K4, PAll, 1), Fam(All5, DEA, K4, PAll, 1),
       Fam(All5, DA, <<"import", "render">>, PRel \cup PAbs \cup PUp, 2),
       Fam(<<A>>, B, K3, {}, 0), Fam(<<DA>>, A, K3, {}, 0) >>

(* A reference list is coded as an integer: the references of a family are numbered 1..N
   owner-major, then kind, then path (so the canonical order of a list is "group numbers do not
   decrease", group = owner x kind); a list d1..dk is the number sum dj * (N+1)^(j-1).  Sets of
   integers are what TLC builds fast; a graph is decoded only when needed.                     *)
NRefs(fam) == Len(fam.files) * Len(fam.kinds) * Len(fam.paths)
RECURSIVE Pow(_, _)
Pow(b, n) == IF n = 0 THEN 1 ELSE b * Pow(b, n - 1)
Digit(fam, c, j) == (c \div Pow(NRefs(fam) + 1, j - 1)) % (NRefs(fam) + 1)
Group(fam, d) == (d - 1) \div Len(fam.paths)
RefAt(fam, d) == [o |-> fam.files[((d - 1) \div (Len(fam.kinds) * Len(fam.paths))) + 1],
                  k |-> fam.kinds[(((d - 1) \div Len(fam.paths)) % Len(fam.kinds)) + 1],
                  p |-> fam.paths[((d - 1) % Len(fam.paths)) + 1]]
RECURSIVE NDigits(_, _, _)
NDigits(fam, c, j) == IF Digit(fam, c, j + 1) = 0 THEN j ELSE NDigits(fam, c, j + 1)
RefsOfCode(fam, c) == [j \in 1..NDigits(fam, c, 0) |-> RefAt(fam, Digit(fam, c, j))]
\* codes of the canonical lists of exactly n references
RECURSIVE Level(_, _)
Level(fam, n) ==
  IF n = 0 THEN {0}
  ELSE {x \in {c + d * Pow(NRefs(fam) + 1, n - 1) : c \in Level(fam, n - 1), d \in 1..NRefs(fam)} :
            n = 1 \/ Group(fam, Digit(fam, x, n)) >= Group(fam, Digit(fam, x, n - 1))}
\* every reference belongs to a file reachable from the entry file (through any reference)
RECURSIVE LiveSet(_, _, _, _)
LiveSet(refs, tg, S, n) == IF n = 0 THEN S ELSE LiveSet(refs, tg, S \cup {tg[j] : j \in {i \in 1..Len(refs) : refs[i].o \in S}}, n - 1)
LiveCode(fam, c) == LET refs == RefsOfCode(fam, c)
                        tg == [j \in 1..Len(refs) |-> Rooted(Dir(refs[j].o), refs[j].p)]
                        S == LiveSet(refs, tg, {fam.entry}, Len(refs))
                    IN \A j \in 1..Len(refs) : refs[j].o \in S
\* (no UNION over big sets: TLC's UNION is quadratic; \cup sorts)
RECURSIVE UpTo(_, _)
UpTo(fam, n) == IF n = 0 THEN Level(fam, 0) ELSE UpTo(fam, n - 1) \cup Level(fam, n)
Codes(fam) == {c \in UpTo(fam, fam.max) : LiveCode(fam, c)}
GraphOf(fi, c) == [files |-> {Fams[fi].files[i] : i \in 1..Len(Fams[fi].files)}, entry |-> Fams[fi].entry, refs |-> RefsOfCode(Fams[fi], c)]

VARIABLES st, picked
vars == <<st, picked>>
EmptyGraph == [files |-> {}, entry |-> A, refs |-> <<>>]
\* one initial state and a Pick action (thousands of initial states make TLC's liveness check quadratic)
Init == picked = FALSE /\ st = InitSt(EmptyGraph)
Pick == ~picked /\ picked' = TRUE /\ \E fi \in 1..Len(Fams) : \E c \in Codes(Fams[fi]) : st' = InitSt(GraphOf(fi, c))
Act(G, E) == picked /\ UNCHANGED picked /\ G /\ st' = Tick(E)
StartMissing == Act(G_StartMissing(st), E_StartMissing(st))
StartSyntax == Act(G_StartSyntax(st), E_StartSyntax(st))
Start == Act(G_Start(st), E_Start(st))
ReturnTop == Act(G_ReturnTop(st), E_ReturnTop(st))
ReturnChild == Act(G_ReturnChild(st), E_ReturnChild(st))
ExtendsForbidden == Act(G_ExtendsForbidden(st), E_ExtendsForbidden(st))
EscapeFail == Act(G_EscapeFail(st), E_EscapeFail(st))
EscapeTolerated == Act(G_EscapeTolerated(st), E_EscapeTolerated(st))
Cycle == Act(G_Cycle(st), E_Cycle(st))
CacheConflict == Act(G_CacheConflict(st), E_CacheConflict(st))
CacheReuse == Act(G_CacheReuse(st), E_CacheReuse(st))
ReadMissingFail == Act(G_ReadMissingFail(st), E_ReadMissingFail(st))
ReadMissingTolerated == Act(G_ReadMissingTolerated(st), E_ReadMissingTolerated(st))
ReadSyntax == Act(G_ReadSyntax(st), E_ReadSyntax(st))
ReadPush == Act(G_ReadPush(st), E_ReadPush(st))
Next == Pick \/ StartMissing \/ StartSyntax \/ Start \/ ReturnTop \/ ReturnChild \/ ExtendsForbidden \/ EscapeFail
        \/ EscapeTolerated \/ Cycle \/ CacheConflict \/ CacheReuse \/ ReadMissingFail \/ ReadMissingTolerated
        \/ ReadSyntax \/ ReadPush
Spec == Init /\ [][Next]_vars /\ WF_vars(Next)

(* ---- what TLC checks ---- *)
\* termination: expansion depth never exceeds the number of files, the active path has no
\* repetition, the number of steps is bounded by the size of the graph (each step consumes a
\* reference, pushes a file read for the first time, or pops it); and eventually an outcome
DepthBound == Len(st.stack) <= Cardinality(st.g.files) /\ Cardinality(Paths(st)) = Len(st.stack)
StepBound == st.steps <= 2 + Len(st.g.refs) + 2 * Cardinality(st.g.files)
Terminates == <>(picked /\ Final(st))
ExactlyOneBranch == (picked /\ ~Final(st)) => Cardinality({b \in 1..15 :
     <<G_StartMissing(st), G_StartSyntax(st), G_Start(st), G_ReturnTop(st), G_ReturnChild(st), G_ExtendsForbidden(st),
       G_EscapeFail(st), G_EscapeTolerated(st), G_Cycle(st), G_CacheConflict(st), G_CacheReuse(st), G_ReadMissingFail(st),
       G_ReadMissingTolerated(st), G_ReadSyntax(st), G_ReadPush(st)>>[b]}) = 1
\* every property clause holds on the model's own log, at every step (opened names valid and
\* explained by a reference of an opened file, none opened twice) and at the end (cycle => error,
\* leaving the root => not-found error)
PropertyOnModel == IF Final(st) THEN Clause(st.g, ModelOpens(st), st.out, TRUE) = "" ELSE OpenClause(st.g, ModelOpens(st)) = ""
OpenedAtMostOnce == \A i, j \in 1..Len(st.opens) : (i # j /\ st.opens[i].ok) => st.opens[i].n # st.opens[j].n
OpensInMayOpen == \A i \in 1..Len(st.opens) : st.opens[i].n \in MayOpen(st.g)
\* reachable cycle <=> (cycle) error, outcome and opens as the reference expansion says
\* whenever none of the causes the property is silent about intervenes
ImplMeetsRef == (Final(st) /\ st.out # "other") => (st.out = Ref(st.g).out /\ st.opens = Ref(st.g).opens)
CycleSound == (Final(st) /\ st.out = "cycle") => HasCycle(st.g)
OkSound == (Final(st) /\ st.out = "ok") => (~HasCycle(st.g) /\ ~EscReached(st.g) /\ \A f \in Reach(st.g) : CleanFile(st.g, f))
OtherJustified == (Final(st) /\ st.out = "other") => OtherPossible(st.g)
RunFnAgrees == st.out = "init" => (LET r == ImplRun(st.g) IN Final(r) /\ r.steps <= 2 + Len(st.g.refs) + 2 * Cardinality(st.g.files))

(* ---- case export ---- *)
\* id = family number * 10^7 + position (the sequence is passed as an argument so that it is built once)
CaseSeqOf(fi, S) == [j \in 1..Len(S) |-> LET g == GraphOf(fi, S[j]) IN
                       [id |-> fi * 10000000 + j, files |-> Fams[fi].files, entry |-> g.entry, refs |-> g.refs]]
Cases == FlattenSeq([fi \in 1..Len(Fams) |-> CaseSeqOf(fi, SetToSeq(Codes(Fams[fi])))])
ASSUME ndJsonSerialize("cases.ndjson", Cases)
=============================================================================

------------------------------ MODULE MC_Loader ------------------------------
(* Model check of the implementation-shaped loader (Loader.tla part 2) against the reference
   (part 1) over every graph of a bounded space, and export of that space as cases.ndjson.

   The space is a union of families [files, entry, kinds, paths, max]: every sequence of at most
   `max` references (owner in files, kind in kinds, path in paths), references grouped by owner
   and, inside a file, in the order the template syntax wants (extends, imports, renders), in
   which every reference belongs to a file reachable from the entry file (a reference of an
   unreachable file changes nothing).  Tier 1: 3 layouts of 3 files (entry at depth 0, 1, 2) with
   <= 3 references over 3 kinds x 4 path forms, and every single reference (4 kinds x all path
   forms, valid and invalid) from depth 0, 1, 2.  Tier 2: the same layouts with 4 kinds x 5 path
   forms, two 4-file layouts with <= 4 references, <= 5 render references among 3 files, all
   pairs of valid path forms from depth 1.
   A second, structured space ("fan" families, see FanCodes): an entry file with two references to
   two different files, each of which has one relative or dot-dot reference of its own.  Tier 1:
   entry b.html, 5 files in 3 directories, render parents in every form that resolves to a file,
   render / render-default children over 5 forms (4800 graphs).  Tier 2: import/render parents and
   import/render/render-default children over 6 forms, an entry file at depth 1, extends parents. *)
EXTENDS Loader, Json, SequencesExt
CONSTANTS Tier

A == <<"a.html">>  B == <<"b.html">>  DA == <<"d", "a.html">>  DB == <<"d", "b.html">>  DEA == <<"d", "e", "a.html">>
NameSeq == <<A, B, DA, DB, DEA>>

\* paths by form (what they resolve to depends on the directory of the referring file)
PRootMix == {<<"b.html">>, <<"", "a.html">>, <<"d", "a.html">>, <<"..", "a.html">>, <<"..", "..", "b.html">>, <<"d", "..", "a.html">>}
PMidMix  == {<<"a.html">>, <<"e", "a.html">>, <<"..", "a.html">>, <<"..", "..", "a.html">>, <<"", "d", "a.html">>, <<".", "a.html">>}
PDeepMix == {<<"..", "b.html">>, <<"..", "..", "b.html">>, <<"..", "..", "..", "b.html">>, <<"", "d", "e", "a.html">>, <<"a.html">>, <<"", "..", "b.html">>}
PRel  == {<<"a.html">>, <<"b.html">>, <<"d", "a.html">>, <<"d", "b.html">>, <<"e", "a.html">>, <<"d", "e", "a.html">>}
PAbs  == {<<"", "a.html">>, <<"", "b.html">>, <<"", "d", "a.html">>, <<"", "d", "b.html">>, <<"", "d", "e", "a.html">>}
PUp   == {<<"..", "a.html">>, <<"..", "b.html">>, <<"..", "d", "b.html">>, <<"..", "e", "a.html">>, <<"..", "..", "a.html">>,
          <<"..", "..", "b.html">>, <<"..", "..", "d", "a.html">>, <<"..", "..", "..", "a.html">>}
PBad  == {<<"">>, <<".">>, <<"..">>, <<"", "">>, <<".", "a.html">>, <<"a.html", "">>, <<"d", "", "a.html">>, <<"d", "..", "a.html">>,
          <<"", "..", "a.html">>, <<"..", "">>, <<"d", ".", "a.html">>, <<"..", "a.html", "..">>, <<"", ".">>, <<"..", ".", "a.html">>,
          <<"", "", "a.html">>, <<"e", "..", "..", "..", "b.html">>}
PAll  == PRel \cup PAbs \cup PUp \cup PBad

\* fan families: the absolute form of every file, relative and dot-dot forms
PFanP == PAbs \cup {<<"a.html">>, <<"b.html">>, <<"d", "a.html">>, <<"d", "b.html">>, <<"d", "e", "a.html">>,
                    <<"e", "a.html">>, <<"..", "a.html">>, <<"..", "b.html">>}
PFanQ == {<<"a.html">>, <<"b.html">>, <<"e", "a.html">>, <<"..", "a.html">>, <<"..", "b.html">>}
PFanT == PFanQ \cup {<<"..", "..", "a.html">>}

\* a family: files, kinds, paths as sequences (files in NameSeq order, kinds in statement order).
\* The references of a family are numbered 1..n owner-major, then kind, then path; the record
\* carries what the generator needs per reference number (tables are built once per family):
\*   b = n + 1 and its powers pw (a reference list is a number in base b), own[d] / tgt[d] = owner
\*   and Rooted target of reference d
RECURSIVE Pow(_, _)
Pow(b, n) == IF n = 0 THEN 1 ELSE b * Pow(b, n - 1)
\* (operator arguments, not LET: TLC re-evaluates a LET-bound value at every use)
\*   shape "seq": every canonical list of <= max references; shape "fan" (kp, kc: kinds of the
\*   parent's and of the children's references, pc: path forms of the children's references; the
\*   parent's are all forms of the path set that resolve to a file): see FanCodes below
Fam3(f, e, k, ps, m, n, own, shape, kp, kc, pc) ==
  [files |-> f, entry |-> e, kinds |-> k, paths |-> ps, max |-> m, n |-> n, b |-> n + 1,
   pw |-> [j \in 1..(m + 2) |-> IF shape = "seq" THEN Pow(n + 1, j - 1) ELSE 0], own |-> own,
   tgt |-> [d \in 1..n |-> Rooted(Dir(own[d]), ps[((d - 1) % Len(ps)) + 1])],
   shape |-> shape, kp |-> kp, kc |-> kc, pc |-> pc]
Fam2(f, e, k, ps, m, n, shape, kp, kc, pc) == Fam3(f, e, k, ps, m, n, [d \in 1..n |-> f[((d - 1) \div (Len(k) * Len(ps))) + 1]], shape, kp, kc, pc)
Fam1(f, e, k, ps, m, shape, kp, kc, pc) == Fam2(f, e, k, ps, m, Len(f) * Len(k) * Len(ps), shape, kp, kc, pc)
Fam(f, e, k, p, m) == Fam1(f, e, k, SetToSeq(p), m, "seq", {}, {}, {})
Fan(f, e, k, pp, kp, kc, pc) == Fam1(f, e, k, SetToSeq(pp \cup pc), 4, "fan", kp, kc, pc)
K3 == <<"extends", "import", "render">>
K4 == <<"extends", "import", "render", "renderd">>
KI == <<"import", "render", "renderd">>
KE == <<"extends", "render", "renderd">>
All5 == <<A, B, DA, DB, DEA>>
Fams ==
  IF Tier = 1 THEN
    << Fam(<<A, B, DA>>, A, K3, {<<"b.html">>, <<"", "a.html">>, <<"d", "a.html">>, <<"..", "a.html">>}, 3),
       Fam(<<A, DA, DEA>>, DA, KI, {<<"e", "a.html">>, <<"..", "a.html">>, <<"..", "..", "a.html">>, <<"", "d", "a.html">>}, 3),
       Fam(<<B, DB, DEA>>, DEA, KE, {<<"..", "b.html">>, <<"..", "..", "b.html">>, <<"..", "..", "..", "b.html">>, <<"", "d", "e", "a.html">>}, 3),
       Fam(All5, A, K4, PAll, 1), Fam(All5, DA, K4, PAll, 1), Fam(All5, DEA, K4, PAll, 1),
       Fam(<<A>>, B, K3, {}, 0), Fam(<<DA>>, A, K3, {}, 0),
       Fan(All5, B, <<"render", "renderd">>, PFanP, {"render"}, {"render", "renderd"}, PFanQ) >>
  ELSE
    << Fam(<<A, B, DA>>, A, K4, PRootMix \ {<<"..", "..", "b.html">>}, 3),
       Fam(<<A, DA, DEA>>, DA, K4, PMidMix \ {<<"a.html">>}, 3),
       Fam(<<B, DB, DEA>>, DEA, K4, PDeepMix \ {<<"a.html">>}, 3),
       Fam(<<A, B, DA, DEA>>, A, <<"import", "render">>, {<<"b.html">>, <<"", "d", "a.html">>, <<"e", "a.html">>, <<"..", "a.html">>}, 4),
       Fam(<<A, DA, DB, DEA>>, DB, <<"extends", "render">>, {<<"a.html">>, <<"..", "..", "a.html">>, <<"e", "a.html">>}, 4),
       Fam(<<A, B, DA>>, A, <<"render">>, {<<"", "a.html">>, <<"", "b.html">>, <<"", "d", "a.html">>}, 5),
       Fam(All5, A, K4, PAll, 1), Fam(All5, DA, K4, PAll, 1), Fam(All5, DEA, K4, PAll, 1),
       Fam(All5, DA, <<"import", "render">>, PRel \cup PAbs \cup PUp, 2),
       Fam(<<A>>, B, K3, {}, 0), Fam(<<DA>>, A, K3, {}, 0),
       Fan(All5, B, KI, PFanP, {"import", "render"}, {"import", "render", "renderd"}, PFanT),
       Fan(All5, DA, <<"render", "renderd">>, PFanP, {"render"}, {"render", "renderd"}, PFanT),
       Fan(<<A, DA, DB, DEA>>, A, K4, PFanP, {"extends", "render"}, {"render", "renderd"}, PFanQ) >>

(* A reference list is coded as an integer: a list d1..dk of reference numbers is the number
   sum dj * b^(j-1); its canonical order is "group numbers do not decrease" (group = owner x
   kind).  Sets of integers are what TLC builds fast; a graph is decoded only when needed.      *)
KindOf(fam, d) == fam.kinds[(((d - 1) \div Len(fam.paths)) % Len(fam.kinds)) + 1]
PathOf(fam, d) == fam.paths[((d - 1) % Len(fam.paths)) + 1]
Digit(fam, c, j) == (c \div fam.pw[j]) % fam.b
Group(fam, d) == (d - 1) \div Len(fam.paths)
RefAt(fam, d) == [o |-> fam.own[d],
                  k |-> fam.kinds[(((d - 1) \div Len(fam.paths)) % Len(fam.kinds)) + 1],
                  p |-> fam.paths[((d - 1) % Len(fam.paths)) + 1]]
RECURSIVE NDigits(_, _, _)
NDigits(fam, c, j) == IF Digit(fam, c, j + 1) = 0 THEN j ELSE NDigits(fam, c, j + 1)
RefsOfCode(fam, c) == IF fam.shape = "fan" THEN [j \in 1..Len(c) |-> RefAt(fam, c[j])]
                      ELSE [j \in 1..NDigits(fam, c, 0) |-> RefAt(fam, Digit(fam, c, j))]
\* codes of the canonical lists of exactly n references
RECURSIVE Level(_, _)
Level(fam, n) ==
  IF n = 0 THEN {0}
  ELSE {x \in {c + d * fam.pw[n] : c \in Level(fam, n - 1), d \in 1..fam.n} :
            n = 1 \/ Group(fam, Digit(fam, x, n)) >= Group(fam, Digit(fam, x, n - 1))}
\* every reference belongs to a file reachable from the entry file (through any reference)
RECURSIVE LiveSet(_, _, _, _)
LiveSet(fam, ds, S, n) == IF n = 0 THEN S ELSE LiveSet(fam, ds, S \cup {fam.tgt[ds[j]] : j \in {i \in 1..Len(ds) : fam.own[ds[i]] \in S}}, n - 1)
AllOwnersIn(fam, ds, S) == \A j \in 1..Len(ds) : fam.own[ds[j]] \in S
LiveDigits(fam, ds) == AllOwnersIn(fam, ds, LiveSet(fam, ds, {fam.entry}, Len(ds)))
LiveCode(fam, c) == LiveDigits(fam, [j \in 1..NDigits(fam, c, 0) |-> Digit(fam, c, j)])
\* (no UNION over big sets: TLC's UNION is quadratic; \cup sorts)
RECURSIVE UpTo(_, _)
UpTo(fam, n) == IF n = 0 THEN Level(fam, 0) ELSE UpTo(fam, n - 1) \cup Level(fam, n)
FileSet(fam) == {fam.files[i] : i \in 1..Len(fam.files)}
(* Fan-out graphs (the second case space): the entry file has two references, in statement order,
   to two DIFFERENT existing files other than itself - each written in any form of the path set
   that resolves there (absolute, relative, dot-dot) - and each of the two files has one
   reference written in a relative or dot-dot form (fam.pc).  Every combination: the two children in the
   same or in different directories, above or below the entry file, their references resolving to
   an existing file, to a missing one, to the sibling, to an ancestor (a cycle), or leaving the
   root.  What a child's reference resolves to depends on the child's own directory only - not on
   the entry file's, not on the directory of the file expanded just before at the same depth.
   A code is the tuple of the four reference numbers (no base-b number: b^4 exceeds 32 bits).   *)
FanParents(fam) == {d \in 1..fam.n : fam.own[d] = fam.entry /\ KindOf(fam, d) \in fam.kp /\ fam.tgt[d] \in FileSet(fam) \ {fam.entry}}
FanKids(fam) == {d \in 1..fam.n : fam.own[d] # fam.entry /\ KindOf(fam, d) \in fam.kc /\ PathOf(fam, d) \in fam.pc}
FanCodesOf(fam, PD, KD) ==
  {t \in PD \X PD \X KD \X KD : /\ fam.tgt[t[1]] # fam.tgt[t[2]] /\ Group(fam, t[1]) <= Group(fam, t[2])
                                   /\ fam.own[t[3]] = fam.tgt[t[1]] /\ fam.own[t[4]] = fam.tgt[t[2]]}
FanCodes(fam) == FanCodesOf(fam, FanParents(fam), FanKids(fam))
Codes(fam) == IF fam.shape = "fan" THEN FanCodes(fam) ELSE {c \in UpTo(fam, fam.max) : LiveCode(fam, c)}
GraphOf(fam, c) == [files |-> FileSet(fam), entry |-> fam.entry, refs |-> RefsOfCode(fam, c)]

(* The model as a TLC state machine: st is the loader's state, pc the label of the branch taken
   next (computed once per state); one action per branch.                                       *)
VARIABLES st, pc
vars == <<st, pc>>
\* (Fams is built with recursive operators, so TLC re-evaluates it at every use: each family is
\* handed on as an operator argument)
InitOf(fam) == \E c \in Codes(fam) : st = InitSt(GraphOf(fam, c)) /\ pc = Br(st)
\* (\E over a singleton binds an evaluated value)
Init == \E fi \in 1..Len(Fams) : \E fam \in {Fams[fi]} : InitOf(fam)
Act(b) == pc = b /\ st' = Tick(Eff(b, st)) /\ pc' = Br(st')
StartMissing == Act("StartMissing")
StartSyntax == Act("StartSyntax")
Start == Act("Start")
ReturnTop == Act("ReturnTop")
ReturnChild == Act("ReturnChild")
ExtendsForbidden == Act("ExtendsForbidden")
EscapeFail == Act("EscapeFail")
EscapeTolerated == Act("EscapeTolerated")
Cycle == Act("Cycle")
CacheConflict == Act("CacheConflict")
CacheReuse == Act("CacheReuse")
ReadMissingFail == Act("ReadMissingFail")
ReadMissingTolerated == Act("ReadMissingTolerated")
ReadSyntax == Act("ReadSyntax")
ReadPush == Act("ReadPush")
Next == StartMissing \/ StartSyntax \/ Start \/ ReturnTop \/ ReturnChild \/ ExtendsForbidden \/ EscapeFail
        \/ EscapeTolerated \/ Cycle \/ CacheConflict \/ CacheReuse \/ ReadMissingFail \/ ReadMissingTolerated
        \/ ReadSyntax \/ ReadPush
Spec == Init /\ [][Next]_vars /\ WF_vars(Next)

(* ---- what TLC checks ---- *)
\* termination: expansion depth never exceeds the number of files, the active path has no
\* repetition, the number of steps is bounded by the size of the graph (each step consumes a
\* reference, pushes a file read for the first time, or pops it); and eventually an outcome
DepthBound == Len(st.stack) <= Cardinality(st.g.files) /\ Cardinality(Paths(st)) = Len(st.stack)
StepBound == st.steps <= 2 + Len(st.g.refs) + 2 * Cardinality(st.g.files)
Terminates == <>(pc = "Done")
PcOk == (pc = "Done") = Final(st)
\* every property clause holds on the model's own log: at every step, opened names are valid,
\* explained by a reference of an opened file, none read twice; at the end, cycle => error,
\* leaving the root => not-found error
PropertyOnModel == IF Final(st) THEN Clause(st.g, ModelOpens(st), st.out, TRUE) = "" ELSE OpenClause(st.g, ModelOpens(st)) = ""
OpenedAtMostOnce == \A i, j \in 1..Len(st.opens) : (i # j /\ st.opens[i].ok) => st.opens[i].n # st.opens[j].n
OpensInMayOpen == \A i \in 1..Len(st.opens) : st.opens[i].n \in MayOpen(st.g)
\* outcome and opens exactly as the reference expansion says whenever none of the causes the
\* property is silent about intervenes
SameAs(r) == st.out = r.out /\ st.opens = r.opens
ImplMeetsRef == (Final(st) /\ st.out # "other") => SameAs(Ref(st.g))
\* reachable cycle <=> cycle error (when nothing else fails first); ok only if nothing is wrong;
\* "other" only where the reference says the property is silent (so that the class demand
\* escape-not-found-class is never made where the implementation reports something else)
SoundFor(F) == /\ st.out = "cycle" => F.cyc
               /\ st.out = "ok" => (~F.cyc /\ F.esc = {} /\ \A f \in F.reach : CleanFile(st.g, f))
               /\ st.out = "other" => F.other
               /\ (F.cyc /\ ~F.other /\ F.esc = {}) => st.out \in {"cycle", "notexist"}
OutcomeSound == Final(st) => SoundFor(Facts(st.g))
\* the functional form of the model (used by the Trace specification) agrees with the actions
RunFnSame == Final(st) => ImplRun(st.g) = st

(* ---- case export ---- *)
\* id = family number * 10^7 + position
CaseOf(id, fam, g) == [id |-> id, files |-> fam.files, entry |-> g.entry, refs |-> g.refs]
CaseSeqOf(fi, fam, S) == [j \in 1..Len(S) |-> CaseOf(fi * 10000000 + j, fam, GraphOf(fam, S[j]))]
CaseSeqFam(fi, fam) == CaseSeqOf(fi, fam, SetToSeq(Codes(fam)))
Cases == FlattenSeq([fi \in 1..Len(Fams) |-> CaseSeqFam(fi, Fams[fi])])
ASSUME ndJsonSerialize("cases.ndjson", Cases)
=============================================================================

------------------------------ MODULE MC_BigInt ------------------------------
(* Self-test of spec/lib/BigInt.tla against TLC's native integers: every pair (a, b) with
   a, b \in -R..R plus values around the limb boundaries 10^4, 10^8 and around 2^7, 2^8, 2^15, 2^16 (a subset of
   them when R < 100), and algebraic identities on numbers of up to 1000 bits (BigIdentities).
   One state per pair (a is chosen in the initial state, b by the single step, so that TLC's workers share the
   pairs); the invariants compare each BigInt operator with the native operator. *)
EXTENDS BigInt, TLC
CONSTANT R
Edge == {127, 128, 129, 255, 256, 257, 9999, 10000, 10001, 19999, 20000, 32767, 32768, 32769, 65535, 65536, 65537,
         99999, 100000, 99989999, 99999999, 100000000, 100000001, 199999999, 1073741823}
EdgeSel == IF R >= 100 THEN Edge ELSE {127, 128, 255, 256, 9999, 10000, 10001, 65536, 99999999, 100000000, 1073741823}
Vals == (-R..R) \cup EdgeSel \cup {-x : x \in EdgeSel}
BigK == IF R >= 100 THEN 7 ELSE 3
VARIABLES a, b, ph
Init == a \in Vals /\ b = 0 /\ ph = 0
Next == ph = 0 /\ ph' = 1 /\ b' \in Vals /\ a' = a

A == FromInt(a)
B == FromInt(b)
Small(x) == x >= -46000 /\ x <= 46000
TruncDiv(x, y) == LET q == (IF x >= 0 THEN x ELSE -x) \div (IF y >= 0 THEN y ELSE -y) IN IF (x < 0) # (y < 0) THEN -q ELSE q
NatWrap(x, w) == x % (2 ^ w)
NatWrapS(x, w) == LET m == x % (2 ^ w) IN IF m >= 2 ^ (w - 1) THEN m - 2 ^ w ELSE m
\* native two's complement bit operation on w-bit patterns, result interpreted signed
NatBits(op, x, y, w) == LET r == SmallBitOp(op, NatWrap(x, w), NatWrap(y, w), w) IN IF r >= 2 ^ (w - 1) THEN r - 2 ^ w ELSE r

WellFormedBody ==
  IsBigInt(A) /\ ToInt(A) = a /\ FromDigits(A.s, ToDigits(A)) = A
WellFormed == ph = 1 => WellFormedBody
AddOkBody ==
  Add(A, B) = FromInt(a + b) /\ Sub(A, B) = FromInt(a - b) /\ IsBigInt(Add(A, B)) /\ IsBigInt(Sub(A, B))
AddOk == ph = 1 => AddOkBody
CmpOkBody ==
  Cmp(A, B) = (IF a < b THEN -1 ELSE IF a > b THEN 1 ELSE 0) /\ (Neg(A) = FromInt(-a))
CmpOk == ph = 1 => CmpOkBody
MulOkBody ==
  (Small(a) /\ Small(b)) => (Mul(A, B) = FromInt(a * b) /\ IsBigInt(Mul(A, B)))
MulOk == ph = 1 => MulOkBody
MulSmallOkBody ==
  (Small(a) /\ Small(b)) => MulSmall(A, b) = FromInt(a * b)
MulSmallOk == ph = 1 => MulSmallOkBody
QuoRemOkBody ==
  b # 0 => LET qr == QuoRem(A, B) IN
                     /\ IsQuoRem(A, B, qr.q, qr.r)
                     /\ qr.q = FromInt(TruncDiv(a, b))
                     /\ qr.r = FromInt(a - TruncDiv(a, b) * b)
                     /\ ~IsQuoRem(A, B, Add(qr.q, One), Sub(qr.r, B))        \* the relation is not satisfied by a neighbour
QuoRemOk == ph = 1 => QuoRemOkBody
DivSmallOkBody ==
  (b > 0 /\ b <= 100000) => LET d == DivSmall(A, b) IN d.q = FromInt(TruncDiv(a, b)) /\ d.r = a - TruncDiv(a, b) * b
DivSmallOk == ph = 1 => DivSmallOkBody
WrapOkBody ==
  /\ WrapTo(A, 8, TRUE) = FromInt(NatWrapS(a, 8)) /\ WrapTo(A, 8, FALSE) = FromInt(NatWrap(a, 8))
          /\ WrapTo(A, 16, TRUE) = FromInt(NatWrapS(a, 16)) /\ WrapTo(A, 16, FALSE) = FromInt(NatWrap(a, 16))
          /\ FitsIn(A, 8, TRUE) = (a >= -128 /\ a <= 127) /\ FitsIn(A, 8, FALSE) = (a >= 0 /\ a <= 255)
          /\ FitsIn(A, 16, TRUE) = (a >= -32768 /\ a <= 32767) /\ FitsIn(A, 16, FALSE) = (a >= 0 /\ a <= 65535)
WrapOk == ph = 1 => WrapOkBody
ShiftOkBody ==
  (b >= 0 /\ b <= 20) =>
             /\ (Small(a) /\ b <= 14 => ShiftLeft(A, b) = FromInt(a * 2 ^ b))
             /\ ShiftRightFloor(A, b) = FromInt(a \div (2 ^ b))          \* TLC's \div rounds toward minus infinity
             /\ DivisibleByPow2(A, b) = (a % (2 ^ b) = 0)
ShiftOk == ph = 1 => ShiftOkBody
BitLenOkBody ==
  (a # 0 => LET k == BitLen(A) m == IF a < 0 THEN -a ELSE a IN 2 ^ (k - 1) <= m /\ (k = 31 \/ m < 2 ^ k))
            /\ (a = 0 => BitLen(A) = 0)
            /\ (a # 0 => LET t == TrailingZeros(A) IN a % (2 ^ t) = 0 /\ a % (2 ^ (t + 1)) # 0)
BitLenOk == ph = 1 => BitLenOkBody
BitOpsOkBody ==
  (a >= -32768 /\ a <= 32767 /\ b >= -32768 /\ b <= 32767) =>
              /\ BitAnd(A, B) = FromInt(NatBits("and", a, b, 17))
              /\ BitOr(A, B) = FromInt(NatBits("or", a, b, 17))
              /\ BitXor(A, B) = FromInt(NatBits("xor", a, b, 17))
              /\ BitAndNot(A, B) = FromInt(NatBits("and", a, -b - 1, 17))
              /\ BitNot(A) = FromInt(-a - 1)
BitOpsOk == ph = 1 => BitOpsOkBody
Pow2OkBody ==
  (b >= 0 /\ b <= 30) => Pow2(b) = FromInt(2 ^ b)
Pow2Ok == ph = 1 => Pow2OkBody
\* larger values, checked by algebraic identities (no native counterpart): 2^k * 2^m = 2^(k+m), (x*y)/y = x, ...
BigIdentitiesBody ==
  (a >= 0 /\ a <= BigK /\ b >= 0 /\ b <= BigK) =>
     LET k == 71 * a + 7 m == 67 * b + 3 P == Pow2(k) Q == Pow2(m) X == Add(P, FromInt(a - 20)) Y == Sub(Q, FromInt(b + 1)) IN
     /\ Mul(P, Q) = Pow2(k + m)
     /\ BitLen(P) = k + 1 /\ TrailingZeros(P) = k
     /\ ShiftRightFloor(Pow2(k + m), m) = P /\ ShiftLeft(P, m) = Pow2(k + m)
     /\ Sub(Add(X, Y), Y) = X
     /\ (Y.s # 0 => LET qr == QuoRem(Add(Mul(X, Y), FromInt(b)), Y) IN IsQuoRem(Add(Mul(X, Y), FromInt(b)), Y, qr.q, qr.r))
     /\ (Y.s # 0 /\ Cmp(Abs(Y), FromInt(b)) > 0 => QuoRem(Add(Mul(Abs(X), Abs(Y)), FromInt(b)), Abs(Y)).q = Abs(X))
     /\ FromDigits(X.s, ToDigits(X)) = X
     /\ FitsIn(Sub(Pow2(63), One), 64, TRUE) /\ ~FitsIn(Pow2(63), 64, TRUE) /\ FitsIn(Neg(Pow2(63)), 64, TRUE)
     /\ WrapTo(Add(Pow2(64), FromInt(a)), 64, FALSE) = FromInt(a) /\ WrapTo(Pow2(63), 64, TRUE) = Neg(Pow2(63))
     /\ BitAnd(Sub(Pow2(k + 1), One), P) = P /\ BitOr(P, Sub(P, One)) = Sub(Pow2(k + 1), One)
     /\ BitXor(Neg(P), Sub(P, One)) = FromInt(-1)
BigIdentities == ph = 1 => BigIdentitiesBody
=============================================================================

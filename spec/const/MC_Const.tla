------------------------------ MODULE MC_Const ------------------------------
(* C02.  Two uses, selected by the constant Mode:

   Mode = "mc"   model check of the implementation-shaped int64 fast path of constant.go (Const.tla part II)
                 against the reference (part I) for EVERY operand pair at width W (W = 8: 65536 pairs per
                 binary operator), one action per branch of the code.
   Mode = "gen"  export of the test space: every depth-1 expression tree over the boundary literal set x
                 every unary/binary operator, shifts and conversions to every basic type, plus (Tier 2)
                 depth-2 trees chosen pseudo-randomly from Seed, plus the programs of three constant
                 declarations k1 = base, k2 = F(k1), k3 = G(k1, k2) (every base x F x G).  Each case carries the expression
                 (structured), its Go source, and what the reference says must be observed (verdict,
                 reference literal, print type, default type) - all computed here by TLC.
                 Shard k of NShards exports the cases with id % NShards = k (parallel TLC processes). *)
EXTENDS Const, TLC, Json, Sequences
CONSTANTS Mode, W, Tier, Seed, Shard, NShards, N2

(* ------------------------------------------------------------------ boundary literals (generated table) *)
P7m1 == [s |-> 1, l |-> <<127>>]
P7 == [s |-> 1, l |-> <<128>>]
P7p1 == [s |-> 1, l |-> <<129>>]
P8m1 == [s |-> 1, l |-> <<255>>]
P8 == [s |-> 1, l |-> <<256>>]
P8p1 == [s |-> 1, l |-> <<257>>]
P15m1 == [s |-> 1, l |-> <<2767, 3>>]
P15 == [s |-> 1, l |-> <<2768, 3>>]
P15p1 == [s |-> 1, l |-> <<2769, 3>>]
P16m1 == [s |-> 1, l |-> <<5535, 6>>]
P16 == [s |-> 1, l |-> <<5536, 6>>]
P16p1 == [s |-> 1, l |-> <<5537, 6>>]
P31m1 == [s |-> 1, l |-> <<3647, 4748, 21>>]
P31 == [s |-> 1, l |-> <<3648, 4748, 21>>]
P31p1 == [s |-> 1, l |-> <<3649, 4748, 21>>]
P32m1 == [s |-> 1, l |-> <<7295, 9496, 42>>]
P32 == [s |-> 1, l |-> <<7296, 9496, 42>>]
P32p1 == [s |-> 1, l |-> <<7297, 9496, 42>>]
P63m1 == [s |-> 1, l |-> <<5807, 5477, 368, 3372, 922>>]
P63 == [s |-> 1, l |-> <<5808, 5477, 368, 3372, 922>>]
P63p1 == [s |-> 1, l |-> <<5809, 5477, 368, 3372, 922>>]
P64m1 == [s |-> 1, l |-> <<1615, 955, 737, 6744, 1844>>]
P64 == [s |-> 1, l |-> <<1616, 955, 737, 6744, 1844>>]
P64p1 == [s |-> 1, l |-> <<1617, 955, 737, 6744, 1844>>]
N7 == [s |-> -1, l |-> <<128>>]
N7m1 == [s |-> -1, l |-> <<129>>]
N15 == [s |-> -1, l |-> <<2768, 3>>]
N15m1 == [s |-> -1, l |-> <<2769, 3>>]
N31 == [s |-> -1, l |-> <<3648, 4748, 21>>]
N31m1 == [s |-> -1, l |-> <<3649, 4748, 21>>]
N63 == [s |-> -1, l |-> <<5808, 5477, 368, 3372, 922>>]
N63m1 == [s |-> -1, l |-> <<5809, 5477, 368, 3372, 922>>]
P62 == [s |-> 1, l |-> <<7904, 2738, 184, 1686, 461>>]
P100 == [s |-> 1, l |-> <<5376, 320, 4967, 9401, 2822, 6002, 7650, 126>>]
P256 == [s |-> 1, l |-> <<9936, 2963, 9131, 4007, 5758, 394, 564, 6564, 9846, 3269, 785, 6879, 5008, 7098, 4235, 6195, 3731, 892, 5792, 11>>]
P511 == [s |-> 1, l |-> <<2048, 304, 8245, 3216, 8497, 9732, 1405, 7694, 4268, 3025, 9324, 9290, 5015, 1384, 4517, 9083, 3714, 4009, 3488, 3677, 150, 882, 2186, 7807, 8861, 9668, 2961, 2910, 3968, 637, 2923, 9910, 124, 9787, 9854, 9712, 3964, 390, 67>>]
N511 == [s |-> -1, l |-> <<2048, 304, 8245, 3216, 8497, 9732, 1405, 7694, 4268, 3025, 9324, 9290, 5015, 1384, 4517, 9083, 3714, 4009, 3488, 3677, 150, 882, 2186, 7807, 8861, 9668, 2961, 2910, 3968, 637, 2923, 9910, 124, 9787, 9854, 9712, 3964, 390, 67>>]
P512m1 == [s |-> 1, l |-> <<4095, 608, 6490, 6433, 6994, 9465, 2811, 5388, 8537, 6050, 8648, 8581, 31, 2769, 9034, 8166, 7429, 8018, 6976, 7354, 300, 1764, 4372, 5614, 7723, 9337, 5923, 5820, 7936, 1274, 5846, 9820, 249, 9574, 9709, 9425, 7929, 780, 134>>]
F53p1 == [s |-> 1, l |-> <<993, 5474, 1992, 9007>>]
F24p1 == [s |-> 1, l |-> <<7217, 1677>>]
F24p3 == [s |-> 1, l |-> <<7219, 1677>>]
P62p1 == [s |-> 1, l |-> <<7905, 2738, 184, 1686, 461>>]
NF53p1 == [s |-> -1, l |-> <<993, 5474, 1992, 9007>>]
MaxF32 == [s |-> 1, l |-> <<5440, 1692, 4845, 4183, 1170, 8598, 8528, 4663, 2823, 340>>]
IntLitsOk ==
  /\ P7m1 = Sub(Pow2(7), One)
  /\ P7 = Pow2(7)
  /\ P7p1 = Add(Pow2(7), One)
  /\ P8m1 = Sub(Pow2(8), One)
  /\ P8 = Pow2(8)
  /\ P8p1 = Add(Pow2(8), One)
  /\ P15m1 = Sub(Pow2(15), One)
  /\ P15 = Pow2(15)
  /\ P15p1 = Add(Pow2(15), One)
  /\ P16m1 = Sub(Pow2(16), One)
  /\ P16 = Pow2(16)
  /\ P16p1 = Add(Pow2(16), One)
  /\ P31m1 = Sub(Pow2(31), One)
  /\ P31 = Pow2(31)
  /\ P31p1 = Add(Pow2(31), One)
  /\ P32m1 = Sub(Pow2(32), One)
  /\ P32 = Pow2(32)
  /\ P32p1 = Add(Pow2(32), One)
  /\ P63m1 = Sub(Pow2(63), One)
  /\ P63 = Pow2(63)
  /\ P63p1 = Add(Pow2(63), One)
  /\ P64m1 = Sub(Pow2(64), One)
  /\ P64 = Pow2(64)
  /\ P64p1 = Add(Pow2(64), One)
  /\ N7 = Neg(Pow2(7))
  /\ N7m1 = Neg(Add(Pow2(7), One))
  /\ N15 = Neg(Pow2(15))
  /\ N15m1 = Neg(Add(Pow2(15), One))
  /\ N31 = Neg(Pow2(31))
  /\ N31m1 = Neg(Add(Pow2(31), One))
  /\ N63 = Neg(Pow2(63))
  /\ N63m1 = Neg(Add(Pow2(63), One))
  /\ P62 = Pow2(62)
  /\ P100 = Pow2(100)
  /\ P256 = Pow2(256)
  /\ P511 = Pow2(511)
  /\ N511 = Neg(Pow2(511))
  /\ P512m1 = Sub(Pow2(512), One)
  /\ F53p1 = Add(Pow2(53), One)
  /\ F24p1 = Add(Pow2(24), One)
  /\ F24p3 = Add(Pow2(24), FromInt(3))
  /\ MaxF32 = Mul(Sub(Pow2(24), One), Pow2(104))
  /\ P62p1 = Add(Pow2(62), One)
  /\ NF53p1 = Neg(Add(Pow2(53), One))
Sm(n) == IF n = 0 THEN Zero
         ELSE LET m == IF n < 0 THEN -n ELSE n IN
              [s |-> IF n < 0 THEN -1 ELSE 1, l |-> IF m < 10000 THEN <<m>> ELSE <<m % 10000, m \div 10000>>]

(* ------------------------------------------------------------------ tree constructors *)
LInt(x) == [k |-> "lit", lk |-> "int", n |-> x, e |-> 0, s |-> <<>>]
LRune(c) == [k |-> "lit", lk |-> "rune", n |-> Sm(c), e |-> 0, s |-> <<>>]
LFloat(n, e) == [k |-> "lit", lk |-> "float", n |-> n, e |-> e, s |-> <<>>]
LImag(n, e) == [k |-> "lit", lk |-> "imag", n |-> n, e |-> e, s |-> <<>>]
LStr(s) == [k |-> "lit", lk |-> "str", n |-> Zero, e |-> 0, s |-> s]
LBool(b) == [k |-> "lit", lk |-> "bool", n |-> IF b THEN Sm(1) ELSE Zero, e |-> 0, s |-> <<>>]
Un(op, a) == [k |-> "un", op |-> op, a |-> a]
K(i, t) == [k |-> "ref", i |-> i, a |-> t]                      \* the identifier k<i>, declared as  const k<i> = <t>
Bin(op, a, b) == [k |-> "bin", op |-> op, a |-> a, b |-> b]
Cv(ty, a) == [k |-> "conv", ty |-> ty, a |-> a]
I(n) == LInt(Sm(n))

(* ------------------------------------------------------------------ leaves *)
\* untyped integer literals: 0, +-1, powers of two around every integer width, 1<<100, 1<<511, 2^512-1
IntsA == <<I(0), I(1), I(-1), I(2), I(3), I(-2),
           LInt(P7m1), LInt(P7), LInt(P7p1), LInt(N7), LInt(N7m1), LInt(P8m1), LInt(P8), LInt(P8p1),
           LInt(P15m1), LInt(P15), LInt(P15p1), LInt(N15), LInt(N15m1), LInt(P16m1), LInt(P16), LInt(P16p1),
           LInt(P31m1), LInt(P31), LInt(P31p1), LInt(N31), LInt(N31m1), LInt(P32m1), LInt(P32), LInt(P32p1),
           LInt(P63m1), LInt(P63), LInt(P63p1), LInt(N63), LInt(N63m1), LInt(P64m1), LInt(P64), LInt(P64p1),
           LInt(P100), LInt(P256), LInt(P511), LInt(N511), LInt(P512m1), LInt(F24p1), LInt(F53p1)>>
\* floats (exact dyadic): 0.0 1.0 0.5 1.5 -1.5 2^-1074 2^-1075 2^1023 2^1024 2^-149 3*2^-150 MaxFloat32 2^128 2^63 2^64 2^53+1 2^24+1 2^24+3, (2^63+1).0
FloatsA == <<LFloat(Zero, 0), LFloat(Sm(1), 0), LFloat(Sm(1), -1), LFloat(Sm(3), -1), LFloat(Sm(-3), -1),
             LFloat(Sm(1), -1074), LFloat(Sm(1), -1075), LFloat(Sm(1), 1023), LFloat(Sm(1), 1024),
             LFloat(Sm(1), -149), LFloat(Sm(3), -150), LFloat(MaxF32, 0), LFloat(Sm(1), 128),
             LFloat(Sm(1), 63), LFloat(Sm(1), 64), LFloat(F53p1, 0), LFloat(F24p1, 0), LFloat(F24p3, 0), LFloat(P63p1, 0),
             LFloat(Sm(7), 0), LFloat(Sm(1), 5000), LFloat(P63p1, 5000)>>
OthersA == <<LRune(97), LRune(48), LImag(Sm(1), 0), LImag(Sm(3), -1), LImag(Zero, 0), LStr(<<115>>), LStr(<<>>), LStr(<<116, 34, 195, 169>>),
             LBool(TRUE), LBool(FALSE)>>
\* typed constants: T(literal)
TypedA == <<Cv("int8", LInt(P7m1)), Cv("int8", LInt(N7)), Cv("int8", I(1)), Cv("int8", I(-1)), Cv("uint8", LInt(P8m1)), Cv("uint8", I(0)), Cv("uint8", I(1)),
            Cv("int16", LInt(P15m1)), Cv("uint16", LInt(P16m1)), Cv("int32", LInt(N31)), Cv("int32", LRune(97)), Cv("uint32", LInt(P32m1)),
            Cv("int64", LInt(P63m1)), Cv("int64", LInt(N63)), Cv("int64", I(-1)), Cv("uint64", LInt(P64m1)), Cv("uint64", LInt(P63)),
            Cv("int", LInt(P63m1)), Cv("int", I(7)), Cv("uint", LInt(P64m1)), Cv("uintptr", I(1)),
            Cv("float32", LFloat(Sm(3), -1)), Cv("float32", LFloat(MaxF32, 0)), Cv("float32", I(7)), Cv("float64", LFloat(Sm(1), -1)), Cv("float64", LFloat(Sm(1), 1023)),
            Cv("float64", I(7)), Cv("float64", LFloat(Sm(1), -1074)),
            Cv("complex64", LImag(Sm(1), 0)), Cv("complex128", LImag(Sm(3), -1)), Cv("complex128", I(2)),
            Cv("bool", LBool(TRUE)), Cv("string", LStr(<<115>>))>>
AllLeaves == IntsA \o FloatsA \o OthersA \o TypedA
\* the leaves used by the unary and conversion grids in Tier 1
CoreLeaves == <<I(0), I(1), I(-1), LInt(P7m1), LInt(N7), LInt(N7m1), LInt(P8m1), LInt(P16m1), LInt(P16),
                LInt(P31m1), LInt(N31m1), LInt(P32m1), LInt(P63m1), LInt(P63), LInt(N63), LInt(N63m1), LInt(P64m1), LInt(P64),
                LInt(P100), LInt(P511), LInt(N511), LInt(P512m1), LInt(F24p1), LInt(F53p1),
                LFloat(Zero, 0), LFloat(Sm(1), -1), LFloat(Sm(-3), -1), LFloat(Sm(1), -1074), LFloat(Sm(1), -1075), LFloat(Sm(1), 1023), LFloat(Sm(1), 1024),
                LFloat(Sm(1), -149), LFloat(MaxF32, 0), LFloat(Sm(1), 128), LFloat(Sm(1), 64), LFloat(F53p1, 0),
                LFloat(P63p1, 0), LFloat(Sm(7), 0),
                LRune(97), LImag(Sm(1), 0), LImag(Zero, 0), LStr(<<115>>), LBool(TRUE),
                Cv("int8", LInt(N7)), Cv("uint8", LInt(P8m1)), Cv("int64", LInt(N63)), Cv("uint64", LInt(P64m1)), 
                Cv("float32", LFloat(MaxF32, 0)), Cv("float64", LFloat(Sm(1), 1023)), Cv("float64", LFloat(Sm(1), -1074)), 
                Cv("complex64", LImag(Sm(1), 0)), Cv("complex128", LImag(Sm(3), -1)), Cv("bool", LBool(TRUE)), Cv("string", LStr(<<115>>))>>
ULeaves == IF Tier = 1 THEN CoreLeaves ELSE AllLeaves
Types == <<"bool", "string", "int", "int8", "int16", "int32", "int64", "uint", "uint8", "uint16", "uint32", "uint64", "uintptr",
           "float32", "float64", "complex64", "complex128">>

\* operand sets of the groups (Tier 1 = quick, Tier 2 = thorough)
IB1 == <<I(0), I(-1), I(3), LInt(P32), LInt(P62), LInt(P63m1), LInt(N63), LInt(P64m1),
         LInt(P511), LInt(P512m1)>>
IB2 == <<I(0), I(1), I(-1), I(2), I(3), I(-2), LInt(P7), LInt(N7m1), LInt(P8m1), LInt(P15m1), LInt(P16), LInt(P31m1), LInt(P31), LInt(N31), LInt(P32m1), LInt(P32p1),
         LInt(P62), LInt(P63m1), LInt(P63), LInt(P63p1), LInt(N63), LInt(N63m1), LInt(P64m1), LInt(P64), LInt(P64p1), LInt(P100), LInt(P256), LInt(P511), LInt(N511), LInt(P512m1)>>
IB == IF Tier = 1 THEN IB1 ELSE IB2
BB1 == <<I(0), I(-1), I(-2), LInt(P8m1), LInt(N7), LInt(N63m1), LInt(P100)>>
BB == IF Tier = 1 THEN BB1 ELSE BB1 \o <<LInt(P63), LInt(N63), LInt(P511), LInt(N511), LRune(97), LFloat(Sm(1), 0)>>
MX1 == <<I(2), LRune(97), LFloat(Sm(3), -1), LFloat(Sm(7), 0), LFloat(Sm(1), 1024), LImag(Sm(1), 0), LFloat(Zero, 0),
         LImag(Sm(3), -1), LStr(<<115>>), LBool(TRUE),
         Cv("int8", LInt(P7m1)), Cv("float32", LFloat(Sm(3), -1)), Cv("float64", I(7)), Cv("complex128", LImag(Sm(3), -1))>>
MX2 == <<I(0), I(-1), I(7), LFloat(Sm(1), -1), LFloat(Sm(1), -1074), LInt(P64p1), LInt(F53p1), LInt(P511), LFloat(Sm(1), 1023), LFloat(F53p1, 0), LFloat(P63p1, 0), LFloat(Sm(1), -149),
         LFloat(Sm(1), 5000), LFloat(P63p1, 5000), LImag(Zero, 0), LStr(<<>>), LBool(FALSE),
         Cv("uint8", LInt(P8m1)), Cv("int64", LInt(N63)), Cv("uint64", LInt(P64m1)), Cv("float32", LFloat(MaxF32, 0)), Cv("float64", LFloat(Sm(1), 1023)),
         Cv("float64", LFloat(Sm(1), -1074)), Cv("complex64", LImag(Sm(1), 0)), Cv("string", LStr(<<115>>)), Cv("bool", LBool(TRUE))>>
MX == IF Tier = 1 THEN MX1 ELSE MX1 \o MX2
MXs == <<I(7), LRune(97), LFloat(Sm(3), -1), LFloat(Sm(7), 0), LImag(Sm(1), 0), LStr(<<115>>), Cv("uint8", LInt(P8m1)), Cv("float64", I(7))>>
\* typed constants of one type (boundary values of that type)
TI8 == <<Cv("int8", LInt(P7m1)), Cv("int8", LInt(N7)), Cv("int8", I(-1)), Cv("int8", I(1)), Cv("int8", I(0))>>
TU8 == <<Cv("uint8", LInt(P8m1)), Cv("uint8", I(0)), Cv("uint8", I(1)), Cv("uint8", I(2))>>
TI64 == <<Cv("int64", LInt(P63m1)), Cv("int64", LInt(N63)), Cv("int64", I(-1)), Cv("int64", I(2))>>
TU64 == <<Cv("uint64", LInt(P64m1)), Cv("uint64", LInt(P63)), Cv("uint64", I(2))>>
TF32 == <<Cv("float32", LFloat(MaxF32, 0)), Cv("float32", LFloat(Sm(3), -1)), Cv("float32", LFloat(F24p1, 0)), Cv("float32", I(7)), Cv("float32", LFloat(Sm(1), -149))>>
TF64 == <<Cv("float64", LFloat(Sm(1), 1023)), Cv("float64", I(7)), Cv("float64", I(2)), Cv("float64", LFloat(Sm(1), -1074))>>
TC == <<Cv("complex128", LImag(Sm(3), -1)), Cv("complex128", I(2)), Cv("complex128", Bin("+", I(1), LImag(Sm(1), 0)))>>
TC64 == <<Cv("complex64", LImag(Sm(1), 0)), Cv("complex64", LFloat(Sm(3), -1)), Cv("complex64", Bin("+", I(1), LImag(Sm(1), 0)))>>
TX == <<Cv("int8", I(1)), Cv("uint8", I(1)), Cv("int32", I(1)), Cv("int", I(1)), Cv("float32", I(1)), Cv("float64", I(1)), Cv("complex128", I(1)), Cv("string", LStr(<<115>>))>>
LB == <<LBool(TRUE), LBool(FALSE), Cv("bool", LBool(TRUE)), I(1), LStr(<<115>>)>>
SL1 == <<I(0), I(1), I(-1), LInt(P63), LInt(P511), LFloat(Sm(1), 0), LFloat(Sm(3), -1), LRune(97), LImag(Zero, 0),
         LStr(<<115>>), Cv("int8", I(1)), Cv("uint8", LInt(P8m1)), Cv("int64", I(-1)), Cv("float64", I(7))>>
SL == IF Tier = 1 THEN SL1 ELSE SL1 \o <<LInt(N63), LFloat(Sm(1), 64), LFloat(Sm(1), 1024), LImag(Sm(1), 0), Cv("int8", I(-1)), Cv("uint64", I(1)), Cv("int", I(7))>>
SC1 == <<I(0), I(1), I(7), I(8), I(63), I(64), I(511), I(512), I(-1), LFloat(Sm(1), 0), LFloat(Sm(3), -1), LRune(48), LBool(TRUE),
         Cv("uint8", I(1)), Cv("int8", I(-1)), Cv("float64", I(1))>>
SC == IF Tier = 1 THEN SC1 ELSE SC1 \o <<I(100), I(510), LInt(P64), LInt(P100), LImag(Zero, 0), LImag(Sm(1), 0), LStr(<<115>>), Cv("uint", I(7)), Cv("int64", I(63))>>

\* integers that need more than 53 bits (inside int64: 2^53+1, -(2^53+1), 2^62+1, 2^63-1; beyond: 2^64+1, -(2^63+1))
\* combined with floating-point / complex constants: mixed-kind operations must stay exact (no pass through float64)
XI1 == <<LInt(F53p1), LInt(NF53p1), LInt(P62p1), LInt(P63m1), LInt(P64p1)>>
XI == IF Tier = 1 THEN XI1 ELSE XI1 \o <<LInt(N63m1), LInt(P63p1), Cv("int64", LInt(P63m1)), Cv("uint64", LInt(P64m1)), Bin("<<", I(1), I(62))>>
XF1 == <<LFloat(Sm(1), 0), LFloat(Sm(1), -1), LFloat(Sm(-3), -1), LFloat(F53p1, 0), LImag(Sm(1), 0), Cv("float64", LFloat(Sm(1), -1))>>
XF == IF Tier = 1 THEN XF1 ELSE XF1 \o <<LFloat(Sm(1), 64), LFloat(Sm(1), -1074), LFloat(P63p1, 0), LFloat(Sm(1), 1024), Cv("float32", LFloat(Sm(3), -1)),
                                          Cv("complex128", LImag(Sm(3), -1)), Cv("float64", LFloat(Sm(1), 63))>>
XOpsS == IF Tier = 1 THEN <<"+", "*", "/", "==", "<">> ELSE <<"+", "-", "*", "/", "==", "!=", "<", ">=">>
ArithOpsS == <<"+", "-", "*", "/", "%">>
BitOpsS == <<"&", "|", "^", "&^">>
MixedOpsA == <<"+", "*", "/", "==", "<">>
MixedOpsB == <<"-", "%", "&", "!=", ">=", "&&">>
TypedOpsS == IF Tier = 1 THEN <<"+", "-", "*", "/", "<">> ELSE <<"+", "-", "*", "/", "%", "^", "&^", "==", "<", ">=">>
CmpOpsS == <<"==", "!=", "<", "<=", ">", ">=">>
LogicOpsS == <<"&&", "||", "==", "!=">>
ShiftOpsS == <<"<<", ">>">>
UnOpsS == <<"+", "-", "^", "!">>

\* a group is a grid ops x A (x B); trees are computed from their index (nothing is materialised)
GUn(ops, A) == [kind |-> "un", ops |-> ops, A |-> A, B |-> <<>>]
GCv(A) == [kind |-> "cv", ops |-> Types, A |-> A, B |-> <<>>]
GBin(ops, A, B) == [kind |-> "bin", ops |-> ops, A |-> A, B |-> B]
Groups == <<GUn(UnOpsS, ULeaves), GCv(ULeaves), GBin(ArithOpsS, IB, IB), GBin(BitOpsS, BB, BB),
            GBin(MixedOpsA, MX, MX), GBin(MixedOpsB, MXs, MXs),
            GBin(TypedOpsS, TI8, TI8), GBin(TypedOpsS, TU8, TU8), GBin(TypedOpsS, TI64, TI64), GBin(TypedOpsS, TU64, TU64),
            GBin(TypedOpsS, TF32, TF32), GBin(TypedOpsS, TF64, TF64), GBin(TypedOpsS, TC, TC),
            GBin(TypedOpsS, IF Tier = 1 THEN <<TC64[3]>> ELSE TC64, TC64),
            GBin(<<"%", "==">>, TX, TX), GBin(LogicOpsS, LB, LB), GBin(ShiftOpsS, SL, SC),
            GBin(XOpsS, XI, XF), GBin(XOpsS, XF, XI)>>
         \o (IF Tier = 1 THEN <<>> ELSE <<GBin(CmpOpsS, MX1, MX1), GBin(<<"-", "%", "&^", "|", "!=", "<=", ">", "||">>, MX1, MX1)>>)
GN(g) == IF g.kind = "bin" THEN Len(g.ops) * Len(g.A) * Len(g.B) ELSE Len(g.ops) * Len(g.A)
GAt(g, i) == LET o == g.ops[((i - 1) % Len(g.ops)) + 1]
                 x == g.A[(((i - 1) \div Len(g.ops)) % Len(g.A)) + 1] IN
             CASE g.kind = "un" -> Un(o, x)
               [] g.kind = "cv" -> Cv(o, x)
               [] OTHER -> Bin(o, x, g.B[((i - 1) \div (Len(g.ops) * Len(g.A))) + 1])
\* (gs is always Groups, bound once by the caller: TLC would rebuild the definition on every reference)
RECURSIVE SumN(_, _)
SumN(gs, gi) == IF gi > Len(gs) THEN 0 ELSE GN(gs[gi]) + SumN(gs, gi + 1)
RECURSIVE FindTree(_, _, _)
FindTree(gs, gi, i) == IF i <= GN(gs[gi]) THEN GAt(gs[gi], i) ELSE FindTree(gs, gi + 1, i - GN(gs[gi]))
Depth1At(gs, i) == FindTree(gs, 1, i)

\* depth-2 trees (Tier 2): a pseudo-random depth-1 tree combined with a pseudo-random leaf / operator / type
AllOpsS == <<"+", "-", "*", "/", "%", "&", "|", "^", "&^", "<<", ">>", "==", "!=", "<", "<=", ">", ">=", "&&", "||">>
Rnd(j, salt, m) == ((j * 7919 + salt * 15485863 + Seed * 104729 + (j % 977) * salt * 31) % 1000003) % m
Depth2(gs, j, n1) ==
  LET t == Depth1At(gs, Rnd(j, 1, n1) + 1)
      lf == gs[1].A[Rnd(j, 2, Len(gs[1].A)) + 1]
      o == AllOpsS[Rnd(j, 3, Len(AllOpsS)) + 1]
      shape == Rnd(j, 4, 8)
  IN CASE shape \in {0, 1, 2} -> Bin(o, t, lf)
       [] shape \in {3, 4} -> Bin(o, lf, t)
       [] shape = 5 -> Un(UnOpsS[Rnd(j, 5, 4) + 1], t)
       [] shape = 6 -> Cv(Types[Rnd(j, 6, Len(Types)) + 1], t)
       [] OTHER -> Bin(o, t, Depth1At(gs, Rnd(j, 7, n1) + 1))
TreeOf(gs, id, n1) == IF id <= n1 THEN Depth1At(gs, id) ELSE Depth2(gs, id - n1, n1)

\* the exported case: everything the driver splices comes from the reference.  A depth-2 case also carries its
\* non-literal operands as `kids` (observed on their own by the driver), so that the judge can attribute a failure of
\* the whole expression to the operand that already fails.
Observe(t) == LET r == Eval(t) IN
              [expr |-> t, src |-> Show(t), reflit |-> RefLit(r), vt |-> PrintType(r), dt |-> IF DynObservable(r) THEN 1 ELSE 0, kids |-> <<>>]
IsDeep(t) == t.k # "lit"
Operands(t) == IF t.k = "bin" THEN <<t.a, t.b>> ELSE IF t.k = "lit" THEN <<>> ELSE <<t.a>>
KidsOf(t) == LET ds == SelectSeq(Operands(t), IsDeep) IN [i \in 1..Len(ds) |-> Observe(ds[i])]
CaseOf(gs, id, n1) ==
  LET t == TreeOf(gs, id, n1) r == Eval(t) IN
  [id |-> id, expr |-> t, src |-> Show(t), rst |-> r.st, rcls |-> r.cls, rty |-> r.ty, rchk |-> IF r.chk THEN 1 ELSE 0,
   reflit |-> RefLit(r), vt |-> PrintType(r), dt |-> IF DynObservable(r) THEN 1 ELSE 0,
   kids |-> IF id <= n1 THEN <<>> ELSE KidsOf(t)]

(* ------------------------------------------------------------------ constant-declaration programs (histories) *)
(* Second case space: programs of three constant declarations
       const k1 = <base>      const k2 = F(k1)      const k3 = G(k1, k2)
   A constant expression may name earlier constants; the Go specification gives an identifier the value of its
   declaration, so every declaration (and every later use of k1, k2) must evaluate exactly as the expression with
   the definitions written out - in particular computing k2 from k1 must leave k1 what it was.  The bases cover the
   representations a constant can have (small / 64-bit-boundary / beyond-int64 integers as literals and as results of
   shifts and unary ^, float64-exact and wider floats, quotients, complex, rune, typed constants); F and G cover every
   unary operator, arithmetic with the name on either side, shifts, mixed kinds, comparisons, conversions and the
   plain alias.  The declarations are placed at package level or inside func main (alternating). *)
PB1 == <<I(7), LInt(P63m1), LInt(N63), LInt(F53p1), LInt(P64), Bin("<<", I(1), I(64)), Bin("<<", I(1), I(3)), LInt(P511),
         LFloat(Sm(3), -1), LFloat(F53p1, 0), LFloat(Sm(1), 1024), LImag(Sm(3), -1),
         Cv("uint64", LInt(P64m1)), Cv("int64", LInt(N63)), Cv("float64", LFloat(Sm(1), -1))>>
PB2 == <<I(0), I(-1), LInt(N511), LInt(N63m1), Bin("-", LInt(P63m1), I(-1)), Un("^", LInt(P64)), Un("^", Cv("uint64", I(0))),
         Bin("/", I(1), LFloat(Sm(4), 0)), LFloat(Sm(1), -1075), Bin("+", I(1), LImag(Sm(1), 0)), LRune(97),
         Cv("float32", LFloat(Sm(3), -1)), Cv("complex128", LImag(Sm(3), -1)), Cv("int8", LInt(N7)), LStr(<<115>>), LBool(TRUE)>>
PB == IF Tier = 1 THEN PB1 ELSE PB1 \o PB2
\* second declaration, x = the identifier k1
PFAt(f, x) ==
  CASE f = 1 -> Un("-", x) [] f = 2 -> Un("^", x) [] f = 3 -> Un("+", x)
    [] f = 4 -> Bin("+", x, I(1)) [] f = 5 -> Bin("-", I(1), x) [] f = 6 -> Bin("*", x, x) [] f = 7 -> Bin("/", x, I(2))
    [] f = 8 -> Bin("<<", x, I(1)) [] f = 9 -> Bin(">>", x, I(1)) [] f = 10 -> Bin("*", x, LFloat(Sm(1), -1))
    [] f = 11 -> Bin("+", x, LImag(Sm(1), 0)) [] f = 12 -> Bin("<", x, I(0))
    [] f = 13 -> Bin("%", x, I(3)) [] f = 14 -> Bin("|", x, I(1)) [] f = 15 -> Bin("&^", I(-1), x) [] f = 16 -> Cv("int64", x)
    [] f = 17 -> Cv("uint64", x) [] f = 18 -> Cv("complex128", x) [] f = 19 -> Bin("==", x, x) [] f = 20 -> Cv("float64", x)
    [] f = 21 -> Bin("-", x, x) [] f = 22 -> Un("!", x) [] f = 23 -> Bin("+", x, x) [] f = 24 -> Un("-", Un("-", x))
PFn == IF Tier = 1 THEN 11 ELSE 24
\* third declaration, x = k1, y = k2
PGAt(g, x, y) ==
  CASE g = 1 -> Bin("+", x, y) [] g = 2 -> Bin("-", x, y) [] g = 3 -> Un("-", x) [] g = 4 -> Bin(">", x, I(0))
    [] g = 5 -> Cv("uint64", Bin("-", x, I(1))) [] g = 6 -> x
    [] g = 7 -> Bin("*", y, I(2)) [] g = 8 -> Bin("<", y, x) [] g = 9 -> Bin("==", x, y) [] g = 10 -> Un("-", y)
    [] g = 11 -> Bin("*", x, LFloat(Sm(1), 0)) [] g = 12 -> Bin("/", y, x)
PGn == IF Tier = 1 THEN 6 ELSE 12
NProgs(pb) == Len(pb) * PFn * PGn
DeclOf(i, t) == LET r == Eval(t) IN
                [name |-> NameOf(i), expr |-> t, src |-> Show(t), rst |-> r.st, reflit |-> RefLit(r), vt |-> PrintType(r),
                 dt |-> IF DynObservable(r) THEN 1 ELSE 0, kids |-> <<>>]
ProgOf(pb, id, j) ==
  LET nb == Len(pb)
      bi == ((j - 1) % nb) + 1
      f == (((j - 1) \div nb) % PFn) + 1
      g == ((j - 1) \div (nb * PFn)) + 1
      k1 == K(1, pb[bi])
      k2 == K(2, PFAt(f, k1))
      ds == <<DeclOf(1, k1.a), DeclOf(2, k2.a), DeclOf(3, PGAt(g, k1, k2))>>
  IN [id |-> id, scope |-> IF (bi + f + g) % 2 = 0 THEN "pkg" ELSE "func", decls |-> ds,
      rst |-> IF ds[1].rst # "ok" THEN ds[1].rst ELSE IF ds[2].rst # "ok" THEN ds[2].rst ELSE ds[3].rst]
\* N2 depth-2 cases follow the N1 depth-1 cases, then the programs; shard k exports the ids with id % NShards = k
CasesOf(gs) ==
  LET n1 == SumN(gs, 1)
      pb == PB
      nall == n1 + N2 + NProgs(pb)
      cnt == (nall - Shard + NShards) \div NShards - (IF Shard = 0 THEN 1 ELSE 0) IN
  [j \in 1..cnt |-> LET id == IF Shard = 0 THEN j * NShards ELSE Shard + (j - 1) * NShards IN
                    IF id <= n1 + N2 THEN CaseOf(gs, id, n1) ELSE ProgOf(pb, id, id - n1 - N2)]
ASSUME Mode = "gen" => (LitPowersOk /\ IntLitsOk /\ ndJsonSerialize("cases.ndjson", CasesOf(Groups)))

(* ------------------------------------------------------------------ Mode "mc": the int64 fast path at width W *)
VARIABLES op, a, b, pc, res
vars == <<op, a, b, pc, res>>
Lo == -(2 ^ (W - 1))
Hi == 2 ^ (W - 1) - 1
BinOpsM == {"+", "-", "*", "/", "%"}
UnOpsM == {"neg", "xors", "xoru"}
None == [big |-> FALSE, err |-> "", v |-> 0]
Init == /\ pc = "start" /\ res = None
        /\ IF Mode = "mc"
           THEN \/ (op \in BinOpsM /\ a \in Lo..Hi /\ b \in Lo..Hi)
                \/ (op \in {"neg", "xors"} /\ a \in Lo..Hi /\ b = 0)
                \/ (op = "xoru" /\ a \in 0..(2 ^ (W - 1) - 1) /\ b \in {W \div 2, W - 1, W})     \* b = width U of the unsigned kind; a < 2^U
           ELSE op = "+" /\ a = 0 /\ b = 0
Set(r) == res' = r /\ pc' = "done" /\ UNCHANGED <<op, a, b>>
\* one action per branch of int64Const.binaryOp / unaryOp; G is the branch condition, R the value the branch computes
ActionNames == {"AddFast", "AddPromote", "SubFast", "SubPromote", "MulZero", "MulFast", "MulPromote", "DivZero", "DivFast", "RemFast",
                "NegMin", "NegFast", "XorSigned", "XorUnsFast", "XorUnsPromote"}
G(act, o, x, y) ==
  LET f == FastBinary(o, x, y, W) u == FastXorUnsigned(x, y, W) IN
  CASE act = "AddFast" -> o = "+" /\ ~f.big
    [] act = "AddPromote" -> o = "+" /\ f.big
    [] act = "SubFast" -> o = "-" /\ ~f.big
    [] act = "SubPromote" -> o = "-" /\ f.big
    [] act = "MulZero" -> o = "*" /\ (x = 0 \/ y = 0)
    [] act = "MulFast" -> o = "*" /\ x # 0 /\ y # 0 /\ ~f.big
    [] act = "MulPromote" -> o = "*" /\ x # 0 /\ y # 0 /\ f.big
    [] act = "DivZero" -> o \in {"/", "%"} /\ y = 0
    [] act = "DivFast" -> o = "/" /\ y # 0
    [] act = "RemFast" -> o = "%" /\ y # 0
    [] act = "NegMin" -> o = "neg" /\ x = Lo
    [] act = "NegFast" -> o = "neg" /\ x # Lo
    [] act = "XorSigned" -> o = "xors"
    [] act = "XorUnsFast" -> o = "xoru" /\ x < 2 ^ y /\ ~u.big
    [] act = "XorUnsPromote" -> o = "xoru" /\ x < 2 ^ y /\ u.big
R(o, x, y) == CASE o \in BinOpsM -> FastBinary(o, x, y, W) [] o = "neg" -> FastNeg(x, W) [] o = "xors" -> FastXorSigned(x)
                [] o = "xoru" -> FastXorUnsigned(x, y, W)
Act(name) == pc = "start" /\ G(name, op, a, b) /\ Set(R(op, a, b))
AddFast == Act("AddFast")
AddPromote == Act("AddPromote")
SubFast == Act("SubFast")
SubPromote == Act("SubPromote")
MulZero == Act("MulZero")
MulFast == Act("MulFast")
MulPromote == Act("MulPromote")
DivZero == Act("DivZero")
DivFast == Act("DivFast")
RemFast == Act("RemFast")
NegMin == Act("NegMin")
NegFast == Act("NegFast")
XorSigned == Act("XorSigned")
XorUnsFast == Act("XorUnsFast")
XorUnsPromote == Act("XorUnsPromote")
Next == AddFast \/ AddPromote \/ SubFast \/ SubPromote \/ MulZero \/ MulFast \/ MulPromote \/ DivZero \/ DivFast \/ RemFast
        \/ NegMin \/ NegFast \/ XorSigned \/ XorUnsFast \/ XorUnsPromote
\* branches that no operand pair of the explored space reaches (TLC's -coverage runs out of memory on these recursive
\* operators, so non-vacuity of every action is computed here directly and printed)
OpOf(act) == CASE act \in {"AddFast", "AddPromote"} -> "+" [] act \in {"SubFast", "SubPromote"} -> "-"
               [] act \in {"MulZero", "MulFast", "MulPromote"} -> "*" [] act = "DivFast" -> "/" [] act \in {"DivZero", "RemFast"} -> "%"
               [] act \in {"NegMin", "NegFast"} -> "neg" [] act = "XorSigned" -> "xors" [] OTHER -> "xoru"
ActionsNeverTaken == {act \in ActionNames :
                        ~\E x \in Lo..Hi : \E y \in (IF OpOf(act) = "xoru" THEN {W \div 2, W - 1, W} ELSE Lo..Hi) :
                            (OpOf(act) # "xoru" \/ x >= 0) /\ G(act, OpOf(act), x, y)}
ASSUME Mode = "mc" => PrintT(<<"actions_never_taken", ActionsNeverTaken>>)

\* the reference on the same operands (untyped integer constants)
RefOf == CASE op \in BinOpsM -> IntBinary(op, "u.int", FromInt(a), FromInt(b))
           [] op = "neg" -> Unary("-", ROk("u.int", VI(FromInt(a))))
           [] op = "xors" -> Unary("^", ROk("u.int", VI(FromInt(a))))
           [] op = "xoru" -> ROk("u.int", VI(Sub(Sub(Pow2(b), One), FromInt(a))))                  \* ^x of a b-bit unsigned type
\* the fast path (with its promotions) computes exactly what the Go specification demands
\* (MinInt / -1 excepted: at width 64 it is the one input on which gc and go/constant themselves wrap - see
\*  Const!IntBinary - and the fast path wraps in the same way; MinIntQuoWraps records that this is what the model does)
ImplMeetsRef == (pc = "done" /\ ~(op = "/" /\ a = Lo /\ b = -1)) =>
                  LET r == RefOf IN
                  IF res.err = "divzero" THEN r.st = "rej" /\ r.cls = "divzero"
                  ELSE r.st = "ok" /\ IntOf(r.v) = FromInt(res.v)
MinIntQuoWraps == (pc = "done" /\ op = "/" /\ a = Lo /\ b = -1) => res.v = Lo
\* diagnostic: promotion happens exactly when the exact result does not fit W bits (no needless big.Int, no missed overflow)
PromotesIffOverflow == (pc = "done" /\ res.err = "" /\ op \in {"+", "-", "*", "neg", "xoru"}) =>
                          (res.big <=> (res.v < Lo \/ res.v > Hi))
=============================================================================

------------------------------ MODULE Trace_Const ------------------------------
(* C02 judge.  One record per case in obs.ndjson, logged by harness/cmd/c02 from the real scriggo:
     id, expr (the structured expression, echoed), src, reflit, vt, dt (echo of what was spliced),
     builds  "ok" | "builderr" = a scriggo.BuildError | "err" | "hostpanic"     of   const c = <src>
     msg     the build error text (bytes)
     chk     "none" | "ran" | "chk-builderr" | "chk-runerr" | "chk-hostpanic"   of the observing program
     eq      what  println(c == <reflit>)  printed ("true"/"false"/"")
     hasv,v  var v <vt> = c; println(v)  re-chunked as a BigInt
     dtobs   dynamic type of  var i interface{} = c
     kids    the same observation fields for the non-leaf operands of a depth-2 expression (each observed as a
             constant of its own); used only to attribute a failure to the operand that already fails

   A PROGRAM record (second case space of MC_Const: histories of constant declarations) has instead
     id, scope ("pkg" | "func"), nobs, decls = one observation per declaration  const k<i> = <src>, with
     name    the declared identifier (echo)
     builds  of the program made of declarations 1..i only (so the first declaration scriggo rejects is known)
     chk, eq, hasv, v, dtobs   observed by ONE observing program containing the longest prefix of declarations that
             builds (nobs of them) followed by println(k<i> == <reflit>) ... for each of them - i.e. every named
             constant is looked at after all declarations have been evaluated.  (If that observing program cannot be
             built or run, this is logged as `chk` of the prefix's last declaration only, and the declarations before
             it are observed by the observing program of the shorter prefix.)

   The reference value/verdict is recomputed here by TLC from `expr` (Const.tla part I).  src/reflit/vt/dt were
   computed by the same reference in MC_Const (checks/c02.py verifies that every observation echoes its exported
   case); Bound re-derives them for the records reported as bad - a bad record that is not bound is a machinery
   failure, not a verdict.

   Property-level clauses (the statement of C02):
     REJECT   reference rejects  <=>  the build of `const c = <expr>` fails with a scriggo.BuildError
     VALUE    reference accepts  =>   c == <reference literal> is true, the printed integer equals the
                                      reference integer, and c's default type is the reference's
   The reason class of a rejection is recorded as drift only (diagnostic).
   Programs: the same two clauses for every declaration in order (an identifier denotes the constant it was declared
   as: Const!Eval of a "ref" node), up to and including the first declaration the reference does not accept; what
   follows a rejected or undecided declaration is not judged.

   Readings chosen (DESIGN Appendix C.5):
   - "the same value" includes the constant's kind: an untyped constant's kind decides its default type and the
     arithmetic of every expression it is used in ((1.0 << 3) / 16 is 0 in Go, 0.5 if the shift result stays a
     float), so the default type observed through interface{} is judged ("type"); it is only observed when the
     reference says the constant is representable in its default type.
   - the observing program (c == literal, var v T = c, type switch) is valid Go whenever the reference accepts the
     expression; if scriggo cannot build or run it the value is unusable ("value-unusable").
   - limits: integer results beyond 512 bits are rejections (gc, go/types and scriggo share the limit); everything
     else that depends on an implementation limit is "any" in Const.tla and skipped here. *)
EXTENDS Const, TLC, Json

Ref(r) == Eval(r.expr)
Bound(r, ref) == /\ r.src = Show(r.expr)
                 /\ r.reflit = RefLit(ref)
                 /\ r.vt = PrintType(ref)
                 /\ r.dt = (IF DynObservable(ref) THEN 1 ELSE 0)
ValueOk(r, ref) ==
  ~ref.chk \/
  /\ (r.reflit # <<>> => (r.chk = "ran" /\ r.eq = "true"))
  /\ (r.vt # "" => (r.chk = "ran" /\ r.hasv = 1 /\ r.v = IntOf(ref.v)))
  /\ (r.dt = 1 => (r.chk = "ran" /\ r.dtobs = DefaultType(ref.ty)))
\* which clause failed: "" = none
Fail2(r, ref) ==
  IF ref.st = "any" THEN ""                                             \* not decided by the reference: skipped
  ELSE IF ref.st = "rej" THEN (IF r.builds = "builderr" THEN "" ELSE IF r.builds = "ok" THEN "accepts-invalid" ELSE "crash")
  ELSE IF r.builds = "builderr" THEN "rejects-valid"
  ELSE IF r.builds # "ok" THEN "crash"
  ELSE IF ~ValueOk(r, ref) THEN
       (IF r.chk # "ran" THEN "value-unusable"
        ELSE IF r.reflit # <<>> /\ r.eq # "true" THEN "value"
        ELSE IF r.vt # "" /\ ~(r.hasv = 1 /\ r.v = IntOf(ref.v)) THEN "value"
        ELSE "type")
  ELSE ""
Fail(r) == Fail2(r, Ref(r))
RecOk(r) == Fail(r) = ""

\* signature: the failed clause, the root operation, the (coarse) reference types of its operands, and whether a
\* float that float64 cannot hold exactly is involved (as a literal of the expression or as the reference value)
OpName(op) == CASE op = "+" -> "add" [] op = "-" -> "sub" [] op = "*" -> "mul" [] op = "/" -> "quo" [] op = "%" -> "rem"
                [] op = "&" -> "and" [] op = "|" -> "or" [] op = "^" -> "xor" [] op = "&^" -> "andnot" [] op = "<<" -> "shl" [] op = ">>" -> "shr"
                [] op = "==" -> "eql" [] op = "!=" -> "neq" [] op = "<" -> "lss" [] op = "<=" -> "leq" [] op = ">" -> "gtr" [] op = ">=" -> "geq"
                [] op = "&&" -> "land" [] op = "||" -> "lor" [] op = "!" -> "not" [] OTHER -> "other"
Coarse(ty) == CASE ty \in SignedTypes -> "sint" [] ty \in UnsignedTypes -> "uint" [] ty \in FloatTypes -> "float"
                [] ty \in ComplexTypes -> "complex" [] OTHER -> ty
KindOf(t) == LET e == Eval(t) IN IF e.st = "ok" THEN Coarse(e.ty) ELSE e.st
\* float64 cannot hold d because of its exponent range (overflow, or bits below 2^-1074) ...
OffRange(d) == d.n.s # 0 /\ (DyMsb(d) > 1023 \/ d.e + TrailingZeros(d.n) < -1074)
\* ... or only because d needs more than 53 bits of mantissa
NeedsRound(d) == d.n.s # 0 /\ ~OffRange(d) /\ LET x == RoundTo(d, "float64") IN x.ovf \/ DyCmp(x.v, d) # 0
RECURSIVE LitOff(_)
LitOff(t) == CASE t.k = "lit" -> t.lk \in {"float", "imag"} /\ OffRange(DyMk(t.n, t.e))
               [] t.k = "bin" -> LitOff(t.a) \/ LitOff(t.b)
               [] OTHER -> LitOff(t.a)
NumVal(ref) == ref.st = "ok" /\ ref.chk /\ ref.v.k = "n"
\* a floating-point / complex part of magnitude >= 2^512 (beyond the size limit of INTEGER constants, which does not apply to it)
Wide(d) == d.n.s # 0 /\ DyMsb(d) >= 512
\* the expression contains a shift whose left operand is an untyped float or complex constant
RECURSIVE HasFloatShift(_)
HasFloatShift(t) == CASE t.k = "lit" -> FALSE
                      [] t.k = "bin" -> (t.op \in {"<<", ">>"} /\ KindOf(t.a) \in {"u.float", "u.complex"}) \/ HasFloatShift(t.a) \/ HasFloatShift(t.b)
                      [] OTHER -> HasFloatShift(t.a)
RefOff(ref) == NumVal(ref) /\ TClass(ref.ty) \in {"float", "complex"} /\ (OffRange(ref.v.re) \/ OffRange(ref.v.im))
\* an operand whose exact value float64 can only hold after rounding
OperandNeedsRound(t) == LET e == Eval(t) IN NumVal(e) /\ (NeedsRound(e.v.re) \/ NeedsRound(e.v.im))
OpKind(t) == IF t.k # "bin" THEN t.k
             ELSE IF t.op \in ArithOps THEN "arith" ELSE IF t.op \in IntOnlyOps THEN "intonly" ELSE IF t.op \in OrdOps THEN "order"
             ELSE IF t.op \in EqOps THEN "eq" ELSE IF t.op \in LogicOps THEN "logic" ELSE "shift"
\* the most general numeric class among the operands ("complex" > "float" > "int"), "other" for bool/string/rejected operands
OperandClass(ka, kb) ==
  LET K == {ka, kb} IN
  IF K \cap {"complex", "u.complex"} # {} THEN "complex"
  ELSE IF K \cap {"float", "u.float"} # {} THEN "float"
  ELSE IF K \subseteq {"sint", "uint", "u.int", "u.rune", "-"} THEN "int" ELSE "other"
Sig1(r) == LET t == r.expr ref == Ref(r)
               ka == IF t.k = "lit" THEN "-" ELSE KindOf(t.a)
               kb == IF t.k = "bin" THEN KindOf(t.b) ELSE "-" IN
           [fam |-> "const", fail |-> Fail2(r, ref), opk |-> OpKind(t), oc |-> OperandClass(ka, kb),
            typed |-> IF {ka, kb} \cap {"sint", "uint", "float", "complex", "bool", "string"} # {} THEN 1 ELSE 0,
            root |-> IF t.k = "lit" THEN "lit" ELSE IF t.k = "ref" THEN "ref" ELSE IF t.k = "conv" THEN "conv" ELSE IF t.k = "un" THEN (IF t.op = "-" THEN "neg" ELSE IF t.op = "+" THEN "pos" ELSE IF t.op = "^" THEN "cpl" ELSE "not") ELSE OpName(t.op),
            to |-> IF t.k = "conv" THEN Coarse(t.ty) ELSE "-",
            ka |-> ka, kb |-> kb,
            na |-> IF t.k = "lit" THEN "-" ELSE t.a.k, nb |-> IF t.k = "bin" THEN t.b.k ELSE "-",
            fsh |-> IF HasFloatShift(t) THEN 1 ELSE 0,
            xf64 |-> IF LitOff(t) \/ RefOff(ref) THEN 1 ELSE 0,
            wide |-> IF NumVal(ref) /\ TClass(ref.ty) \in {"float", "complex"} /\ (Wide(ref.v.re) \/ Wide(ref.v.im)) THEN 1 ELSE 0,
            xprec |-> IF t.k # "lit" /\ (OperandNeedsRound(t.a) \/ (t.k = "bin" /\ OperandNeedsRound(t.b))) THEN 1 ELSE 0]
\* a failing expression one of whose operands already fails on its own is attributed to that operand
RECURSIVE FirstBadKid(_, _)
FirstBadKid(r, i) == IF i > Len(r.kids) THEN 0 ELSE IF Fail(r.kids[i]) # "" THEN i ELSE FirstBadKid(r, i + 1)
RECURSIVE AllBound(_, _)
AllBound(r, i) == IF i > Len(r.kids) THEN TRUE ELSE Bound(r.kids[i], Ref(r.kids[i])) /\ AllBound(r, i + 1)

(* ---- diagnostic: reason class of the build error vs the reference's reason class (drift, never a verdict) ---- *)
RECURSIVE CHasAt(_, _, _, _)
CHasAt(s, p, i, k) == k > Len(p) \/ (s[i + k - 1] = p[k] /\ CHasAt(s, p, i, k + 1))
RECURSIVE CFind(_, _, _)
CFind(s, p, i) == IF i + Len(p) - 1 > Len(s) THEN FALSE ELSE IF CHasAt(s, p, i, 1) THEN TRUE ELSE CFind(s, p, i + 1)
Has(s, p) == CFind(s, p, 1)
MsgClass(m) ==
  IF Has(m, <<100,105,118,105,115,105,111,110,32,98,121,32,122,101,114,111>>) THEN "divzero"                \* "division by zero"
  ELSE IF Has(m, <<115,104,105,102,116,32,99,111,117,110,116>>) THEN "shift"                               \* "shift count"
  ELSE IF Has(m, <<116,114,117,110,99,97,116,101,100>>) THEN "truncated"                                   \* "truncated"
  ELSE IF Has(m, <<111,118,101,114,102,108,111,119>>) THEN "overflow"                                      \* "overflow"
  ELSE "invalid"
Drift2(r, ref) == ref.st = "rej" /\ r.builds = "builderr" /\ MsgClass(r.msg) # ref.cls

(* ---- programs of constant declarations ---- *)
IsProg(r) == "decls" \in DOMAIN r
\* walk the declarations in order: [f |-> failed clause ("" = none), i |-> the declaration it failed at, any |-> 1 if the
\* walk ended at a declaration the reference does not decide]
RECURSIVE PWalk2(_, _)
PWalk1(ds, i, ref) == LET f == Fail2(ds[i], ref) IN
                      IF f # "" THEN [f |-> f, i |-> i, any |-> 0]
                      ELSE IF ref.st # "ok" THEN [f |-> "", i |-> 0, any |-> IF ref.st = "any" THEN 1 ELSE 0]
                      ELSE PWalk2(ds, i + 1)
PWalk2(ds, i) == IF i > Len(ds) THEN [f |-> "", i |-> 0, any |-> 0] ELSE PWalk1(ds, i, Ref(ds[i]))
PWalk(r) == PWalk2(r.decls, 1)
\* the identifiers inside declaration i denote earlier declarations of this very program
RECURSIVE RefsOk(_, _, _)
RefsOk(t, ds, i) == CASE t.k = "lit" -> TRUE
                      [] t.k = "ref" -> t.i >= 1 /\ t.i < i /\ t.a = ds[t.i].expr
                      [] t.k = "bin" -> RefsOk(t.a, ds, i) /\ RefsOk(t.b, ds, i)
                      [] OTHER -> RefsOk(t.a, ds, i)
RECURSIVE ProgBound(_, _)
ProgBound(ds, i) == i > Len(ds) \/ (/\ ds[i].name = NameOf(i) /\ Bound(ds[i], Ref(ds[i])) /\ RefsOk(ds[i].expr, ds, i)
                                     /\ ProgBound(ds, i + 1))
\* the root cause of a failing program: the declaration at which the walk failed; `ctx` tells the two case spaces apart
WithCtx(sg, c) == [x \in DOMAIN sg \cup {"ctx"} |-> IF x = "ctx" THEN c ELSE sg[x]]
Sig(r) == IF IsProg(r) THEN WithCtx(Sig1(r.decls[PWalk(r).i]), "prog")
          ELSE LET i == FirstBadKid(r, 1) IN WithCtx(IF i = 0 THEN Sig1(r) ELSE Sig1(r.kids[i]), "expr")
BoundAll(r) == IF IsProg(r) THEN ProgBound(r.decls, 1) ELSE Bound(r, Ref(r)) /\ AllBound(r, 1)
\* one judgement per record: f = failed clause, any = not decided by the reference, drift = reason-class drift
JudgeExpr(r, ref) == [f |-> Fail2(r, ref), any |-> IF ref.st = "any" THEN 1 ELSE 0, drift |-> IF Drift2(r, ref) THEN 1 ELSE 0]
JudgeProg(w) == [f |-> w.f, any |-> w.any, drift |-> 0]
Judge(r) == IF IsProg(r) THEN JudgeProg(PWalk(r)) ELSE JudgeExpr(r, Ref(r))

(* ---- record walk (skeleton of spec/lib2/Trace_HTMLEscape.tla; bad *indices* are carried because RecOk is
        expensive here - a second pass would double the cost; at most 400 small integers) ---- *)
VARIABLES l, nbad, badidx, nskip, ndrift
Obs == ndJsonDeserialize("obs.ndjson")
Init == l = 1 /\ nbad = 0 /\ badidx = <<>> /\ nskip = 0 /\ ndrift = 0
\* (the judgement is bound by \E so that TLC evaluates it once per record: a LET would be re-evaluated at every use)
Next == /\ l <= Len(Obs) /\ l' = l + 1
        /\ \E j \in {Judge(Obs[l])} :
           /\ nbad' = nbad + (IF j.f = "" THEN 0 ELSE 1)
           /\ badidx' = IF j.f # "" /\ Len(badidx) < 400 THEN Append(badidx, l) ELSE badidx
           /\ nskip' = nskip + j.any
           /\ ndrift' = ndrift + j.drift
Done == l = Len(Obs) + 1 =>
          /\ ndJsonSerialize("bad.ndjson",
               [j \in 1..Len(badidx) |-> [k |-> badidx[j], id |-> Obs[badidx[j]].id, sig |-> Sig(Obs[badidx[j]]), nbad |-> nbad,
                                       bound |-> IF BoundAll(Obs[badidx[j]]) THEN 1 ELSE 0]])
          /\ ndJsonSerialize("stats.ndjson", <<[records |-> Len(Obs), nbad |-> nbad, ref_undefined |-> nskip, reason_class_drift |-> ndrift]>>)
Consumed == TLCGet("stats").diameter - 1 = Len(Obs)
=============================================================================

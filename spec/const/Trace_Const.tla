------------------------------ MODULE Trace_Const ------------------------------
(* C02 judge.  One record per case in obs.ndjson, logged by harness/cmd/c02 from the real scriggo:
     id, expr (the structured expression, echoed), src, reflit, vt, dt (echo of what was spliced),
     builds  "ok" | "builderr" = a scriggo.BuildError | "err" | "hostpanic"     of   const c = <src>
     msg     the build error text (bytes)
     chk     "none" | "ran" | "chk-builderr" | "chk-runerr" | "chk-hostpanic"   of the observing program
     eq      what  println(c == <reflit>)  printed ("true"/"false"/"")
     hasv,v  var v <vt> = c; println(v)  re-chunked as a BigInt
     dtobs   dynamic type of  var i interface{} = c

   The reference value/verdict is recomputed here by TLC from `expr` (Const.tla part I); the echoed
   src/reflit/vt/dt must be what the reference derives from expr (Bound) - otherwise the observation does
   not belong to the judged expression (machinery failure, reported with cause "binding").

   Property-level clauses (the statement of C02):
     REJECT   reference rejects  <=>  the build of `const c = <expr>` fails with a scriggo.BuildError
     VALUE    reference accepts  =>   c == <reference literal> is true, the printed integer equals the
                                      reference integer, and c's default type is the reference's
   The reason class of a rejection is recorded as drift only (diagnostic). *)
EXTENDS Const, TLC, Json

Ref(r) == Eval(r.expr)
Bound(r, ref) == /\ r.src = Show(r.expr)
                 /\ r.reflit = RefLit(ref)
                 /\ r.vt = PrintType(ref)
                 /\ r.dt = (IF DynObservable(ref) THEN 1 ELSE 0)
ValueOk(r, ref) ==
  ~ref.chk \/
  /\ (r.reflit # <<>> => (r.chk = "ran" /\ r.eq = "true"))
  /\ (r.vt # "" => (r.chk = "ran" /\ r.hasv = 1 /\ r.v = IntOf(ref.v)))
  /\ (r.dt = 1 => (r.chk = "ran" /\ r.dtobs = DefaultType(ref.ty)))
\* which clause failed: "" = none
Fail2(r, ref) ==
  IF ref.st = "any" THEN ""                                             \* not decided by the reference: skipped
  ELSE IF ~Bound(r, ref) THEN "binding"
  ELSE IF ref.st = "rej" THEN (IF r.builds = "builderr" THEN "" ELSE IF r.builds = "ok" THEN "accepts-invalid" ELSE "crash")
  ELSE IF r.builds = "builderr" THEN "rejects-valid"
  ELSE IF r.builds # "ok" THEN "crash"
  ELSE IF ~ValueOk(r, ref) THEN
       (IF r.chk # "ran" THEN "value-unusable"
        ELSE IF r.reflit # <<>> /\ r.eq # "true" THEN "value"
        ELSE IF r.vt # "" /\ ~(r.hasv = 1 /\ r.v = IntOf(ref.v)) THEN "value"
        ELSE "type")
  ELSE ""
Fail(r) == Fail2(r, Ref(r))
RecOk(r) == Fail(r) = ""

\* signature: the failed clause + the root operation + the reference types of its operands
TyOf(t) == LET e == Eval(t) IN IF e.st = "ok" THEN e.ty ELSE e.st
Sig(r) == LET t == r.expr IN
          [fam |-> "const", fail |-> Fail(r),
           root |-> IF t.k = "lit" THEN "lit" ELSE IF t.k = "conv" THEN t.ty ELSE t.op,
           ta |-> IF t.k = "lit" THEN "-" ELSE TyOf(t.a),
           tb |-> IF t.k = "bin" THEN TyOf(t.b) ELSE "-"]

(* ---- diagnostic: reason class of the build error vs the reference's reason class (drift, never a verdict) ---- *)
RECURSIVE CHasAt(_, _, _, _)
CHasAt(s, p, i, k) == k > Len(p) \/ (s[i + k - 1] = p[k] /\ CHasAt(s, p, i, k + 1))
RECURSIVE CFind(_, _, _)
CFind(s, p, i) == IF i + Len(p) - 1 > Len(s) THEN FALSE ELSE IF CHasAt(s, p, i, 1) THEN TRUE ELSE CFind(s, p, i + 1)
Has(s, p) == CFind(s, p, 1)
MsgClass(m) ==
  IF Has(m, <<100,105,118,105,115,105,111,110,32,98,121,32,122,101,114,111>>) THEN "divzero"                \* "division by zero"
  ELSE IF Has(m, <<115,104,105,102,116,32,99,111,117,110,116>>) THEN "shift"                               \* "shift count"
  ELSE IF Has(m, <<116,114,117,110,99,97,116,101,100>>) THEN "truncated"                                   \* "truncated"
  ELSE IF Has(m, <<111,118,101,114,102,108,111,119>>) THEN "overflow"                                      \* "overflow"
  ELSE "invalid"
Drift2(r, ref) == ref.st = "rej" /\ r.builds = "builderr" /\ MsgClass(r.msg) # ref.cls

(* ---- record walk (skeleton of spec/lib2/Trace_HTMLEscape.tla; bad *indices* are carried because RecOk is
        expensive here - a second pass would double the cost; at most 400 small integers) ---- *)
VARIABLES l, nbad, badidx, nskip, ndrift
Obs == ndJsonDeserialize("obs.ndjson")
Init == l = 1 /\ nbad = 0 /\ badidx = <<>> /\ nskip = 0 /\ ndrift = 0
Next == /\ l <= Len(Obs) /\ l' = l + 1
        /\ LET ref == Ref(Obs[l]) f == Fail2(Obs[l], ref) st == ref.st IN
           /\ nbad' = nbad + (IF f = "" THEN 0 ELSE 1)
           /\ badidx' = IF f # "" /\ Len(badidx) < 400 THEN Append(badidx, l) ELSE badidx
           /\ nskip' = nskip + (IF st = "any" THEN 1 ELSE 0)
           /\ ndrift' = ndrift + (IF Drift2(Obs[l], ref) THEN 1 ELSE 0)
Done == l = Len(Obs) + 1 =>
          /\ ndJsonSerialize("bad.ndjson",
               [j \in 1..Len(badidx) |-> [k |-> badidx[j], id |-> Obs[badidx[j]].id, sig |-> Sig(Obs[badidx[j]]), nbad |-> nbad]])
          /\ ndJsonSerialize("stats.ndjson", <<[records |-> Len(Obs), nbad |-> nbad, ref_undefined |-> nskip, reason_class_drift |-> ndrift]>>)
Consumed == TLCGet("stats").diameter - 1 = Len(Obs)
=============================================================================

-------------------------------- MODULE Const --------------------------------
(* C02 - compile-time constant arithmetic is exact and matches the Go specification.

   PART I (REFERENCE, what the property demands): Eval(tree) - the value, type and accept/reject
   verdict of a constant expression according to the Go specification (sections "Constants",
   "Constant expressions", "Representability", "Conversions", "Arithmetic operators"), computed
   with exact arithmetic on BigInt / dyadic rationals.  It is written from the Go specification,
   not from scriggo's code.

   PART II (IMPLEMENTATION-SHAPED, diagnostic only): the int64 fast path of
   internal/compiler/constant.go (int64Const.binaryOp / unaryOp) with its overflow predicates that
   promote to big.Int, transcribed width-generically (W bits) - model-checked against the
   reference in MC_Const for every operand pair at W = 8.

   VALUES.  bool | string (byte sequence) | number.  A number is a pair (re, im) of dyadic
   rationals  n * 2^e  (n BigInt, e native; not normalised: n may be even).  Integer-kind values
   have e = 0.  Floating-point values are restricted to dyadic rationals; a division whose exact
   quotient is not dyadic makes the VALUE unknown (chk = FALSE) while accept/reject stays decided.

   WHAT IS *NOT* DECIDED (result "any": the record is skipped and counted, never failed)
   - Go lets an implementation round untyped floating-point constants to a mantissa of >= 256 bits.
     Once an intermediate float needs more than 256 bits (conservatively: |n| >= 10^77) the value
     and everything computed from it are undecided.
   - Shift counts >= 512: implementation limits differ (gc: 1074 for both shifts, scriggo: 512 for
     <<).  x << s with x # 0 is rejected by every implementation (the result needs > 512 bits);
     0 << s and x >> s with s >= 512 are not judged.
   - Integer constants: results needing more than 512 bits are rejected (gc, go/types and scriggo
     share this limit; the Go specification requires at least 256 bits). *)
EXTENDS BigInt, Utf8

(* ------------------------------------------------------------------ literal big integers *)
\* (checked against Pow2 by MC_BigInt / MC_Const ASSUME; literals because TLC re-evaluates zero-arity
\*  definitions that involve RECURSIVE operators on every reference)
LP7 == [s |-> 1, l |-> <<128>>]
LP8 == [s |-> 1, l |-> <<256>>]
LP15 == [s |-> 1, l |-> <<2768, 3>>]
LP16 == [s |-> 1, l |-> <<5536, 6>>]
LP31 == [s |-> 1, l |-> <<3648, 4748, 21>>]
LP32 == [s |-> 1, l |-> <<7296, 9496, 42>>]
LP63 == [s |-> 1, l |-> <<5808, 5477, 368, 3372, 922>>]
LP64 == [s |-> 1, l |-> <<1616, 955, 737, 6744, 1844>>]
LP512 == [s |-> 1, l |-> <<4096, 608, 6490, 6433, 6994, 9465, 2811, 5388, 8537, 6050, 8648, 8581, 31, 2769, 9034, 8166, 7429, 8018, 6976, 7354, 300, 1764, 4372, 5614, 7723, 9337, 5923, 5820, 7936, 1274, 5846, 9820, 249, 9574, 9709, 9425, 7929, 780, 134>>]
LitPowersOk == LP7 = Pow2(7) /\ LP8 = Pow2(8) /\ LP15 = Pow2(15) /\ LP16 = Pow2(16) /\ LP31 = Pow2(31)
               /\ LP32 = Pow2(32) /\ LP63 = Pow2(63) /\ LP64 = Pow2(64) /\ LP512 = Pow2(512)
LPow(k) == CASE k = 7 -> LP7 [] k = 8 -> LP8 [] k = 15 -> LP15 [] k = 16 -> LP16 [] k = 31 -> LP31
             [] k = 32 -> LP32 [] k = 63 -> LP63 [] k = 64 -> LP64 [] OTHER -> Pow2(k)
L512 == [s |-> 1, l |-> <<512>>]
MaxRune == [s |-> 1, l |-> <<4111, 111>>]

(* ------------------------------------------------------------------ types *)
SignedTypes == {"int", "int8", "int16", "int32", "int64"}
UnsignedTypes == {"uint", "uint8", "uint16", "uint32", "uint64", "uintptr"}
IntTypes == SignedTypes \cup UnsignedTypes
FloatTypes == {"float32", "float64"}
ComplexTypes == {"complex64", "complex128"}
BasicTypes == {"bool", "string"} \cup IntTypes \cup FloatTypes \cup ComplexTypes
UntypedKinds == {"u.bool", "u.string", "u.int", "u.rune", "u.float", "u.complex"}
IsUntyped(t) == t \in UntypedKinds
TWidth(t) == CASE t \in {"int8", "uint8"} -> 8 [] t \in {"int16", "uint16"} -> 16 [] t \in {"int32", "uint32"} -> 32
               [] OTHER -> 64                                   \* int, uint, uintptr are 64 bits wide on the host
TClass(t) == CASE t \in {"bool", "u.bool"} -> "bool"
               [] t \in {"string", "u.string"} -> "string"
               [] t \in IntTypes \cup {"u.int", "u.rune"} -> "int"
               [] t \in FloatTypes \cup {"u.float"} -> "float"
               [] t \in ComplexTypes \cup {"u.complex"} -> "complex"
IsNumClass(c) == c \in {"int", "float", "complex"}
URank(t) == CASE t = "u.int" -> 1 [] t = "u.rune" -> 2 [] t = "u.float" -> 3 [] t = "u.complex" -> 4
DefaultType(t) == CASE t = "u.bool" -> "bool" [] t = "u.string" -> "string" [] t = "u.int" -> "int" [] t = "u.rune" -> "int32"
                    [] t = "u.float" -> "float64" [] t = "u.complex" -> "complex128" [] OTHER -> t
\* value range of an integer type
FitsT(x, t) == IF t \in SignedTypes THEN LET h == LPow(TWidth(t) - 1) IN Cmp(x, Neg(h)) >= 0 /\ Cmp(x, h) < 0
               ELSE x.s >= 0 /\ Cmp(x, LPow(TWidth(t))) < 0
\* the implementation limit shared by gc, go/types and scriggo: integer constants of at most 512 bits
Over512(x) == LET d == NumDigits(x) IN d > 155 \/ (d = 155 /\ MagCmp(x.l, LP512.l) >= 0)

(* ------------------------------------------------------------------ dyadic rationals n * 2^e *)
DyZ == [n |-> Zero, e |-> 0]
DyInt(x) == [n |-> x, e |-> 0]
DyMk(n, e) == IF n.s = 0 THEN DyZ ELSE [n |-> n, e |-> e]
DyIsZero(d) == d.n.s = 0
DyNeg(d) == [n |-> Neg(d.n), e |-> d.e]
DyMul(a, b) == IF a.n.s = 0 \/ b.n.s = 0 THEN DyZ ELSE [n |-> Mul(a.n, b.n), e |-> a.e + b.e]
DyAdd(a, b) == IF a.n.s = 0 THEN b ELSE IF b.n.s = 0 THEN a
               ELSE IF a.e = b.e THEN DyMk(Add(a.n, b.n), a.e)
               ELSE IF a.e > b.e THEN DyMk(Add(ShiftLeft(a.n, a.e - b.e), b.n), b.e)
               ELSE DyMk(Add(a.n, ShiftLeft(b.n, b.e - a.e)), a.e)
DySub(a, b) == DyAdd(a, DyNeg(b))
\* upper bound of the position just above the most significant bit / lower bound of the lowest bit
DyTop(d) == d.e + (NumDigits(d.n) * 3322) \div 1000 + 1
\* floor(log2 |d|), d # 0
DyMsb(d) == BitLen(d.n) - 1 + d.e
DyCmp(a, b) == IF a.n.s # b.n.s THEN (IF a.n.s < b.n.s THEN -1 ELSE 1)
               ELSE IF a.n.s = 0 THEN 0
               ELSE IF a.e = b.e THEN Cmp(a.n, b.n)
               ELSE LET ea == DyMsb(a) eb == DyMsb(b) IN
                    IF ea # eb THEN (IF ea > eb THEN a.n.s ELSE -a.n.s)
                    ELSE IF a.e > b.e THEN Cmp(ShiftLeft(a.n, a.e - b.e), b.n) ELSE Cmp(a.n, ShiftLeft(b.n, b.e - a.e))
DyIsInt(d) == d.n.s = 0 \/ d.e >= 0 \/ DivisibleByPow2(d.n, -d.e)
\* |d| >= 2^bits for sure (cheap test that avoids materialising huge integers)
DyHuge(d, bits) == d.n.s # 0 /\ d.e + (NumDigits(d.n) - 1) * 3 >= bits
\* the integer value of an integer-valued d
DyToInt(d) == IF d.n.s = 0 THEN Zero ELSE IF d.e >= 0 THEN ShiftLeft(d.n, d.e) ELSE ShiftRightFloor(d.n, -d.e)
\* adding a and b would need a mantissa far beyond 256 bits: do not even compute it
DySpanTooWide(a, b) == a.n.s # 0 /\ b.n.s # 0 /\
   (IF DyTop(a) > DyTop(b) THEN DyTop(a) ELSE DyTop(b)) - (IF a.e < b.e THEN a.e ELSE b.e) > 600
\* a float constant an implementation must keep exactly (mantissa certainly below 2^256)
DyPrecise(d) == NumDigits(d.n) <= 77
\* strip trailing zero bits of n (only needed before deciding that a mantissa is too wide)
DyNorm(d) == IF d.n.s = 0 THEN DyZ
             ELSE LET t == TrailingZeros(d.n) IN IF t = 0 THEN d ELSE [n |-> ShiftRightFloor(d.n, t), e |-> d.e + t]
DyFit(d) == IF DyPrecise(d) THEN d ELSE DyNorm(d)
\* exact quotient when it is dyadic: [ex |-> TRUE, v |-> a/b] else [ex |-> FALSE, ..]; b # 0
DyDiv(a, b) ==
  IF a.n.s = 0 THEN [ex |-> TRUE, v |-> DyZ]
  ELSE LET t == TrailingZeros(b.n)
           o == Mk(b.n.s, ShiftRightFloor(Abs(b.n), t).l)         \* b.n = o * 2^t, o odd
       IN IF o.l = <<1>> THEN [ex |-> TRUE, v |-> [n |-> IF o.s > 0 THEN a.n ELSE Neg(a.n), e |-> a.e - b.e - t]]
          ELSE LET qr == QuoRem(a.n, o) IN
               IF qr.r.s = 0 /\ IsQuoRem(a.n, o, qr.q, qr.r) THEN [ex |-> TRUE, v |-> [n |-> qr.q, e |-> a.e - b.e - t]]
               ELSE [ex |-> FALSE, v |-> DyZ]

\* IEEE-754 binary formats: precision p, largest exponent emax, exponent of the smallest subnormal
FP(t) == IF t \in {"float32", "complex64"} THEN [p |-> 24, emax |-> 127, emin |-> -149] ELSE [p |-> 53, emax |-> 1023, emin |-> -1074]
\* round-to-nearest-even to the format of t: [ovf |-> overflowed to infinity, v |-> rounded value]
RoundTo(d, t) ==
  IF d.n.s = 0 THEN [ovf |-> FALSE, v |-> DyZ]
  ELSE LET f == FP(t)
           L == BitLen(d.n)
           E == L - 1 + d.e
           q == IF E - f.p + 1 > f.emin THEN E - f.p + 1 ELSE f.emin      \* exponent of the last kept bit
       IN IF E > f.emax THEN [ovf |-> TRUE, v |-> DyZ]
          ELSE IF d.e >= q THEN [ovf |-> FALSE, v |-> d]
          ELSE LET k == q - d.e IN                                        \* k low bits are dropped
               IF L < k THEN [ovf |-> FALSE, v |-> DyZ]                   \* below half of the smallest subnormal
               ELSE LET mag == Abs(d.n)
                        m == ShiftRightFloor(mag, k)
                        rem == Sub(mag, ShiftLeft(m, k))
                        c == Cmp(rem, Pow2(k - 1))
                        m2 == IF c > 0 \/ (c = 0 /\ IsOdd(m)) THEN Add(m, One) ELSE m
                    IN IF m2.s = 0 THEN [ovf |-> FALSE, v |-> DyZ]
                       ELSE IF BitLen(m2) - 1 + q > f.emax THEN [ovf |-> TRUE, v |-> DyZ]
                       ELSE [ovf |-> FALSE, v |-> [n |-> Mk(d.n.s, m2.l), e |-> q]]

(* ------------------------------------------------------------------ values and results *)
VNone == [k |-> "-", b |-> FALSE, s |-> <<>>, re |-> DyZ, im |-> DyZ]
VB(b) == [k |-> "b", b |-> b, s |-> <<>>, re |-> DyZ, im |-> DyZ]
VS(s) == [k |-> "s", b |-> FALSE, s |-> s, re |-> DyZ, im |-> DyZ]
VN(re, im) == [k |-> "n", b |-> FALSE, s |-> <<>>, re |-> re, im |-> im]
VI(x) == VN(DyInt(x), DyZ)
\* st: "ok" accepted | "rej" rejected (cls = reason class) | "any" not decided (cls = why)
\* chk: the value v is known exactly
ROk(ty, v) == [st |-> "ok", cls |-> "", ty |-> ty, v |-> v, chk |-> TRUE]
ROkU(ty) == [st |-> "ok", cls |-> "", ty |-> ty, v |-> VNone, chk |-> FALSE]
RRej(cls) == [st |-> "rej", cls |-> cls, ty |-> "", v |-> VNone, chk |-> FALSE]
RAny(why) == [st |-> "any", cls |-> why, ty |-> "", v |-> VNone, chk |-> FALSE]
\* reason classes named by the property: "overflow", "truncated", "divzero", "shift"; everything else a Go
\* compiler rejects (mismatched types, operator not defined, non-convertible) is "invalid"

(* ------------------------------------------------------------------ representability (Go spec) *)
\* the constant value v (exact) represented in the typed type t
Repr(v, t) ==
  LET c == TClass(t) IN
  CASE c = "bool" -> IF v.k = "b" THEN ROk(t, v) ELSE RRej("invalid")
    [] c = "string" -> IF v.k = "s" THEN ROk(t, v) ELSE RRej("invalid")
    [] c = "int" -> IF v.k # "n" THEN RRej("invalid")
                    ELSE IF ~DyIsZero(v.im) THEN RRej("truncated")
                    ELSE IF DyHuge(v.re, 70) THEN (IF DyIsInt(v.re) THEN RRej("overflow") ELSE RRej("truncated"))
                    ELSE IF ~DyIsInt(v.re) THEN RRej("truncated")
                    ELSE LET x == DyToInt(v.re) IN IF FitsT(x, t) THEN ROk(t, VI(x)) ELSE RRej("overflow")
    [] c = "float" -> IF v.k # "n" THEN RRej("invalid")
                      ELSE IF ~DyIsZero(v.im) THEN RRej("truncated")
                      ELSE LET r == RoundTo(v.re, t) IN IF r.ovf THEN RRej("overflow") ELSE ROk(t, VN(r.v, DyZ))
    [] c = "complex" -> IF v.k # "n" THEN RRej("invalid")
                        ELSE LET r == RoundTo(v.re, t) i == RoundTo(v.im, t) IN
                             IF r.ovf \/ i.ovf THEN RRej("overflow") ELSE ROk(t, VN(r.v, i.v))
\* the value of an integer-class number (e = 0 by construction)
IntOf(v) == v.re.n

\* an exact integer result r of type ty: untyped (512-bit limit) or an integer type (must fit)
IntResult(ty, r) == IF IsUntyped(ty) THEN (IF Over512(r) THEN RRej("overflow") ELSE ROk(ty, VI(r)))
                    ELSE IF FitsT(r, ty) THEN ROk(ty, VI(r)) ELSE RRej("overflow")

(* ------------------------------------------------------------------ literals *)
\* literal node: [k |-> "lit", lk |-> "int"|"rune"|"float"|"imag"|"str"|"bool", n, e, s]; value n * 2^e (imag: times i)
EvalLit(t) ==
  CASE t.lk = "int" -> ROk("u.int", VI(t.n))
    [] t.lk = "rune" -> ROk("u.rune", VI(t.n))
    [] t.lk = "float" -> ROk("u.float", VN(DyMk(t.n, t.e), DyZ))
    [] t.lk = "imag" -> ROk("u.complex", VN(DyZ, DyMk(t.n, t.e)))
    [] t.lk = "str" -> ROk("u.string", VS(t.s))
    [] t.lk = "bool" -> ROk("u.bool", VB(t.n.s # 0))

(* ------------------------------------------------------------------ conversions T(x) *)
\* Go spec, Conversions: a constant x can be converted to T if x is representable by a value of T;
\* additionally an integer constant can be converted to a string type (the UTF-8 of the code point,
\* "�" outside the valid range).  The result is a typed constant.
Conv(T, x) ==
  IF x.st # "ok" THEN x
  ELSE IF ~x.chk THEN RAny("operand-value-unknown")
  ELSE LET sc == TClass(x.ty) tc == TClass(T) IN
       IF tc = "string" /\ sc = "int"
       THEN LET i == IntOf(x.v) IN
            ROk(T, VS(IF i.s >= 0 /\ Cmp(i, MaxRune) <= 0 THEN EncodeRune(ToInt(i)) ELSE EncodeRune(-1)))
       ELSE IF IsNumClass(tc) /\ IsNumClass(sc) THEN Repr(x.v, T)
       ELSE IF tc = sc THEN ROk(T, x.v)
       ELSE RRej("invalid")

(* ------------------------------------------------------------------ unary operators *)
Unary(op, x) ==
  IF x.st # "ok" THEN x
  ELSE IF ~x.chk THEN RAny("operand-value-unknown")
  ELSE LET c == TClass(x.ty) IN
  CASE op = "+" -> IF IsNumClass(c) THEN x ELSE RRej("invalid")
    [] op = "-" -> IF ~IsNumClass(c) THEN RRej("invalid")
                   ELSE LET v == VN(DyNeg(x.v.re), DyNeg(x.v.im)) IN
                        IF IsUntyped(x.ty) THEN ROk(x.ty, v) ELSE Repr(v, x.ty)     \* -int8(-128), -uint8(1) overflow
    [] op = "^" -> IF c # "int" THEN RRej("invalid")
                   ELSE IF x.ty \in UnsignedTypes
                        THEN ROk(x.ty, VI(Sub(Sub(LPow(TWidth(x.ty)), One), IntOf(x.v))))    \* x XOR all-ones mask
                        ELSE IntResult(x.ty, BitNot(IntOf(x.v)))                             \* -1 XOR x (512-bit limit applies)
    [] op = "!" -> IF c = "bool" THEN ROk(x.ty, VB(~x.v.b)) ELSE RRej("invalid")
    [] OTHER -> RAny("unknown-operator")

(* ------------------------------------------------------------------ binary operators (not shifts) *)
ArithOps == {"+", "-", "*", "/"}
IntOnlyOps == {"%", "&", "|", "^", "&^"}
EqOps == {"==", "!="}
OrdOps == {"<", "<=", ">", ">="}
LogicOps == {"&&", "||"}
CmpHolds(op, c) == CASE op = "==" -> c = 0 [] op = "!=" -> c # 0 [] op = "<" -> c < 0 [] op = "<=" -> c <= 0
                     [] op = ">" -> c > 0 [] op = ">=" -> c >= 0
\* bytewise lexicographic order of strings
RECURSIVE StrCmpFrom(_, _, _)
StrCmpFrom(a, b, i) == IF i > Len(a) /\ i > Len(b) THEN 0 ELSE IF i > Len(a) THEN -1 ELSE IF i > Len(b) THEN 1
                       ELSE IF a[i] < b[i] THEN -1 ELSE IF a[i] > b[i] THEN 1 ELSE StrCmpFrom(a, b, i + 1)
UBool(b) == ROk("u.bool", VB(b))

IntBinary(op, ty, a, b) ==
  CASE op \in EqOps \cup OrdOps -> UBool(CmpHolds(op, Cmp(a, b)))
    [] op = "+" -> IntResult(ty, Add(a, b))
    [] op = "-" -> IntResult(ty, Sub(a, b))
    [] op = "*" -> IF a.s # 0 /\ b.s # 0 /\ (NumDigits(a) + NumDigits(b) - 2) * 3 >= 513
                   THEN RRej("overflow")                                  \* |a*b| >= 2^513: no need to multiply
                   ELSE IntResult(ty, Mul(a, b))
    [] op \in {"/", "%"} ->
         IF b.s = 0 THEN RRej("divzero")
         ELSE IF op = "/" /\ a = Neg(LP63) /\ b = Neg(One)
              THEN RAny("minint64-by-minus-one")       \* Go spec: 2^63; gc and go/constant (int64 fast path) wrap to -2^63: not judged
         ELSE LET qr == QuoRem(a, b) IN                                   \* candidate; the Go spec's relation is IsQuoRem
              IF ~IsQuoRem(a, b, qr.q, qr.r) THEN RAny("quorem-candidate-wrong")
              ELSE IntResult(ty, IF op = "/" THEN qr.q ELSE qr.r)
    [] op = "&" -> IntResult(ty, BitAnd(a, b))
    [] op = "|" -> IntResult(ty, BitOr(a, b))
    [] op = "^" -> IntResult(ty, BitXor(a, b))
    [] op = "&^" -> IntResult(ty, BitAndNot(a, b))
    [] OTHER -> RRej("invalid")

\* a float/complex result with exact parts re, im: untyped -> exact (or value undecided when beyond the
\* 256-bit guarantee); typed -> rounded to the type, rejected when it overflows
NumResult(ty, re0, im0) ==
  LET re == DyFit(re0) im == DyFit(im0) IN
  IF ~DyPrecise(re) \/ ~DyPrecise(im)
  THEN (IF IsUntyped(ty) THEN ROkU(ty) ELSE RAny("beyond-256-bit-mantissa"))
  ELSE IF IsUntyped(ty) THEN ROk(ty, VN(re, im))
  ELSE Repr(VN(re, im), ty)
\* quotient of unknown (non-dyadic) value with |q| in (2^(lo), 2^(hi)): accepted unless it may overflow the type
InexactQuo(ty, a, b) ==
  IF IsUntyped(ty) THEN ROkU(ty)
  ELSE IF TClass(ty) = "complex" THEN RAny("non-dyadic-complex-quotient")
  ELSE LET d == DyMsb(a) - DyMsb(b) IN
       IF d + 1 <= FP(ty).emax THEN ROkU(ty) ELSE IF d - 1 > FP(ty).emax THEN RRej("overflow") ELSE RAny("non-dyadic-quotient-near-overflow")
FloatBinary(op, ty, a, b) ==
  CASE op \in EqOps \cup OrdOps -> UBool(CmpHolds(op, DyCmp(a, b)))
    [] op \in {"+", "-"} -> IF DySpanTooWide(a, b) THEN (IF IsUntyped(ty) THEN ROkU(ty) ELSE RAny("beyond-256-bit-mantissa"))
                            ELSE NumResult(ty, IF op = "+" THEN DyAdd(a, b) ELSE DySub(a, b), DyZ)
    [] op = "*" -> NumResult(ty, DyMul(a, b), DyZ)
    [] op = "/" -> IF DyIsZero(b) THEN RRej("divzero")
                   ELSE LET q == DyDiv(a, b) IN IF q.ex THEN NumResult(ty, q.v, DyZ) ELSE InexactQuo(ty, a, b)
    [] OTHER -> RRej("invalid")
ComplexBinary(op, ty, x, y) ==
  LET a == x.re b == x.im c == y.re d == y.im IN
  CASE op \in EqOps -> UBool(CmpHolds(op, IF DyCmp(a, c) = 0 /\ DyCmp(b, d) = 0 THEN 0 ELSE 1))
    [] op \in {"+", "-"} -> IF DySpanTooWide(a, c) \/ DySpanTooWide(b, d) THEN (IF IsUntyped(ty) THEN ROkU(ty) ELSE RAny("beyond-256-bit-mantissa"))
                            ELSE IF op = "+" THEN NumResult(ty, DyAdd(a, c), DyAdd(b, d)) ELSE NumResult(ty, DySub(a, c), DySub(b, d))
    [] op = "*" -> LET ac == DyMul(a, c) bd == DyMul(b, d) ad == DyMul(a, d) bc == DyMul(b, c) IN
                   IF DySpanTooWide(ac, bd) \/ DySpanTooWide(ad, bc) THEN (IF IsUntyped(ty) THEN ROkU(ty) ELSE RAny("beyond-256-bit-mantissa"))
                   ELSE NumResult(ty, DySub(ac, bd), DyAdd(ad, bc))                         \* (ac - bd) + (ad + bc)i
    [] op = "/" -> IF DyIsZero(c) /\ DyIsZero(d) THEN RRej("divzero")
                   ELSE LET cc == DyMul(c, c) dd == DyMul(d, d)
                            ac == DyMul(a, c) bd == DyMul(b, d) ad == DyMul(a, d) bc == DyMul(b, c) IN
                        IF DySpanTooWide(cc, dd) \/ DySpanTooWide(ac, bd) \/ DySpanTooWide(bc, ad)
                        THEN (IF IsUntyped(ty) THEN ROkU(ty) ELSE RAny("beyond-256-bit-mantissa"))
                        ELSE LET den == DyAdd(cc, dd)
                                 qr == DyDiv(DyAdd(ac, bd), den) qi == DyDiv(DySub(bc, ad), den) IN       \* ((ac+bd) + (bc-ad)i) / (cc+dd)
                             IF qr.ex /\ qi.ex THEN NumResult(ty, qr.v, qi.v)
                             ELSE IF IsUntyped(ty) THEN ROkU(ty) ELSE RAny("non-dyadic-complex-quotient")
    [] OTHER -> RRej("invalid")

\* operands x, y already of the common type ty (typed: values representable in ty)
BinaryTyped(op, ty, xv, yv) ==
  LET c == TClass(ty) IN
  CASE c = "bool" -> (CASE op = "&&" -> ROk(ty, VB(xv.b /\ yv.b)) [] op = "||" -> ROk(ty, VB(xv.b \/ yv.b))
                        [] op = "==" -> UBool(xv.b = yv.b) [] op = "!=" -> UBool(xv.b # yv.b) [] OTHER -> RRej("invalid"))
    [] c = "string" -> (CASE op = "+" -> ROk(ty, VS(xv.s \o yv.s))
                          [] op \in EqOps \cup OrdOps -> UBool(CmpHolds(op, StrCmpFrom(xv.s, yv.s, 1)))
                          [] OTHER -> RRej("invalid"))
    [] c = "int" -> IF op \in LogicOps THEN RRej("invalid") ELSE IntBinary(op, ty, IntOf(xv), IntOf(yv))
    [] c \in {"float", "complex"} ->
         IF op \in LogicOps \cup IntOnlyOps \/ (c = "complex" /\ op \in OrdOps) THEN RRej("invalid")
         ELSE LET x == VN(DyFit(xv.re), DyFit(xv.im)) y == VN(DyFit(yv.re), DyFit(yv.im)) IN
              IF op = "/" /\ DyIsZero(y.re) /\ DyIsZero(y.im) THEN RRej("divzero")
              ELSE IF ~(DyPrecise(x.re) /\ DyPrecise(x.im) /\ DyPrecise(y.re) /\ DyPrecise(y.im))
                   THEN (IF IsUntyped(ty) /\ op \in ArithOps THEN ROkU(ty) ELSE RAny("operand-beyond-256-bit-mantissa"))
              ELSE IF c = "float" THEN FloatBinary(op, ty, x.re, y.re) ELSE ComplexBinary(op, ty, x, y)

\* Go spec, Constant expressions: untyped operands of different kinds are converted to the kind that appears
\* later in  integer, rune, floating-point, complex;  an untyped operand combined with a typed one is converted
\* to that type (it must be representable);  two typed operands must have identical types.
Binary(op, x, y) ==
  IF x.st = "rej" THEN x ELSE IF y.st = "rej" THEN y
  ELSE IF x.st = "any" THEN x ELSE IF y.st = "any" THEN y
  ELSE IF ~x.chk \/ ~y.chk THEN RAny("operand-value-unknown")
  ELSE IF IsUntyped(x.ty) /\ IsUntyped(y.ty)
       THEN LET cx == TClass(x.ty) cy == TClass(y.ty) IN
            IF IsNumClass(cx) /\ IsNumClass(cy)
            THEN BinaryTyped(op, IF URank(x.ty) >= URank(y.ty) THEN x.ty ELSE y.ty, x.v, y.v)
            ELSE IF x.ty = y.ty THEN BinaryTyped(op, x.ty, x.v, y.v) ELSE RRej("invalid")
  ELSE IF IsUntyped(x.ty)
       THEN LET cx == Repr(x.v, y.ty) IN IF cx.st # "ok" THEN cx ELSE BinaryTyped(op, y.ty, cx.v, y.v)
  ELSE IF IsUntyped(y.ty)
       THEN LET cy == Repr(y.v, x.ty) IN IF cy.st # "ok" THEN cy ELSE BinaryTyped(op, x.ty, x.v, cy.v)
  ELSE IF x.ty # y.ty THEN RRej("invalid")
  ELSE BinaryTyped(op, x.ty, x.v, y.v)

(* ------------------------------------------------------------------ shifts *)
\* Go spec: the right operand must have integer type or be an untyped constant representable by uint
\* (so: non-negative integer value); if the left operand of a constant shift is an untyped constant the
\* result is an integer constant (it must be integer-valued), otherwise it has the left operand's
\* (integer) type.  x >> s is floor(x / 2^s).
Shift(op, x, y) ==
  IF x.st = "rej" THEN x ELSE IF y.st = "rej" THEN y
  ELSE IF x.st = "any" THEN x ELSE IF y.st = "any" THEN y
  ELSE IF ~x.chk \/ ~y.chk THEN RAny("operand-value-unknown")
  ELSE LET cx == TClass(x.ty) cy == TClass(y.ty) IN
  IF ~IsNumClass(cx) \/ ~IsNumClass(cy) THEN RRej("invalid")
  ELSE IF ~IsUntyped(y.ty) /\ cy # "int"                                             \* typed count must have integer type ...
       THEN (IF DyIsZero(y.v.im) /\ ~DyHuge(y.v.re, 64) /\ DyIsInt(y.v.re) /\ y.v.re.n.s >= 0
             THEN RAny("typed-float-shift-count")      \* ... but gc and go/types accept an integral typed float constant: not judged
             ELSE RRej("invalid"))
  ELSE IF ~IsUntyped(x.ty) /\ cx # "int" THEN RRej("invalid")                       \* typed operand must have integer type
  ELSE IF ~DyIsZero(y.v.im) \/ DyHuge(y.v.re, 64) \/ ~DyIsInt(y.v.re) THEN RRej("shift")
  ELSE IF ~DyIsZero(x.v.im) THEN RRej("truncated")
  ELSE IF DyHuge(x.v.re, 1100) THEN (IF op = "<<" THEN RRej("overflow") ELSE RAny("huge-shift-operand"))
  ELSE IF ~DyIsInt(x.v.re) THEN RRej("truncated")
  ELSE LET s == DyToInt(y.v.re)
           a == DyToInt(x.v.re)
           ty == IF IsUntyped(x.ty) /\ x.ty \notin {"u.int", "u.rune"} THEN "u.int" ELSE x.ty
       IN IF s.s < 0 \/ Cmp(s, LP64) >= 0 THEN RRej("shift")
          ELSE IF Cmp(s, L512) >= 0
               THEN (IF op = "<<" /\ a.s # 0 THEN RRej("overflow") ELSE RAny("shift-count-limit"))
          ELSE IF op = "<<" THEN (IF Over512(a) THEN RRej("overflow") ELSE IntResult(ty, ShiftLeft(a, ToInt(s))))
          ELSE IF Over512(a) THEN RAny("shift-operand-beyond-512-bits") ELSE IntResult(ty, ShiftRightFloor(a, ToInt(s)))

(* ------------------------------------------------------------------ expression trees *)
\* node: literal | [k |-> "un", op, a] | [k |-> "bin", op, a, b] | [k |-> "conv", ty, a]
\*       | [k |-> "ref", i, a]  the identifier of the i-th constant declaration `const k<i> = <a>` of a program
\*         (a = the declaration's expression, carried in the node).  Go spec, Constant declarations / Constant
\*         expressions: an identifier denoting a constant IS that constant - the value and the (un)typedness of the
\*         expression it was declared with, whatever else the program computes from it before or after.
RECURSIVE Eval(_)
Eval(t) == CASE t.k = "lit" -> EvalLit(t)
             [] t.k = "ref" -> Eval(t.a)
             [] t.k = "un" -> Unary(t.op, Eval(t.a))
             [] t.k = "conv" -> IF t.ty \in BasicTypes THEN Conv(t.ty, Eval(t.a)) ELSE RAny("unknown-type")
             [] t.k = "bin" -> IF t.op \in {"<<", ">>"} THEN Shift(t.op, Eval(t.a), Eval(t.b)) ELSE Binary(t.op, Eval(t.a), Eval(t.b))
             [] OTHER -> RAny("unknown-node")

(* ------------------------------------------------------------------ source text (the concretiser) *)
\* Text is a byte sequence.  Show(tree) is the Go source of the expression; the driver only splices it.
Dec(ds) == [i \in 1..Len(ds) |-> ds[i] + 48]
DecBytes(x) == (IF x.s < 0 THEN <<45>> ELSE <<>>) \o Dec(ToDigits(x))
NatBytes(k) == IF k < 0 THEN <<45>> \o Dec(ToDigits(FromInt(-k))) ELSE Dec(ToDigits(FromInt(k)))
HexDigit(v) == IF v < 10 THEN 48 + v ELSE 87 + v
RECURSIVE HexR(_, _)
HexR(mag, acc) == IF mag = <<>> THEN acc ELSE LET qr == MagDivSmall(mag, 16) IN HexR(qr[1], <<HexDigit(qr[2])>> \o acc)
HexMag(x) == IF x.s = 0 THEN <<48>> ELSE HexR(x.l, <<>>)
\* hexadecimal floating-point literal of n * 2^e (exact in every Go implementation): [-]0x<hex n>p<e>
HexFloat(d) == (IF d.n.s < 0 THEN <<45>> ELSE <<>>) \o <<48, 120>> \o HexMag(d.n) \o <<112>> \o NatBytes(d.e)
StrByte(c) == IF c >= 32 /\ c <= 126 /\ c # 34 /\ c # 92 THEN <<c>> ELSE <<92, 120, HexDigit(c \div 16), HexDigit(c % 16)>>
RECURSIVE StrBody(_, _)
StrBody(s, i) == IF i > Len(s) THEN <<>> ELSE StrByte(s[i]) \o StrBody(s, i + 1)
StrLit(s) == <<34>> \o StrBody(s, 1) \o <<34>>
Paren(b) == <<40>> \o b \o <<41>>
TypeName(t) ==
  CASE t = "bool" -> <<98,111,111,108>> [] t = "string" -> <<115,116,114,105,110,103>>
    [] t = "int" -> <<105,110,116>> [] t = "int8" -> <<105,110,116,56>> [] t = "int16" -> <<105,110,116,49,54>>
    [] t = "int32" -> <<105,110,116,51,50>> [] t = "int64" -> <<105,110,116,54,52>>
    [] t = "uint" -> <<117,105,110,116>> [] t = "uint8" -> <<117,105,110,116,56>> [] t = "uint16" -> <<117,105,110,116,49,54>>
    [] t = "uint32" -> <<117,105,110,116,51,50>> [] t = "uint64" -> <<117,105,110,116,54,52>>
    [] t = "uintptr" -> <<117,105,110,116,112,116,114>>
    [] t = "float32" -> <<102,108,111,97,116,51,50>> [] t = "float64" -> <<102,108,111,97,116,54,52>>
    [] t = "complex64" -> <<99,111,109,112,108,101,120,54,52>> [] t = "complex128" -> <<99,111,109,112,108,101,120,49,50,56>>
OpText(op) ==
  CASE op = "+" -> <<43>> [] op = "-" -> <<45>> [] op = "*" -> <<42>> [] op = "/" -> <<47>> [] op = "%" -> <<37>>
    [] op = "&" -> <<38>> [] op = "|" -> <<124>> [] op = "^" -> <<94>> [] op = "&^" -> <<38,94>>
    [] op = "<<" -> <<60,60>> [] op = ">>" -> <<62,62>>
    [] op = "==" -> <<61,61>> [] op = "!=" -> <<33,61>> [] op = "<" -> <<60>> [] op = "<=" -> <<60,61>>
    [] op = ">" -> <<62>> [] op = ">=" -> <<62,61>> [] op = "&&" -> <<38,38>> [] op = "||" -> <<124,124>> [] op = "!" -> <<33>>
ShowLit(t) ==
  CASE t.lk = "int" -> IF t.n.s < 0 THEN Paren(DecBytes(t.n)) ELSE DecBytes(t.n)
    [] t.lk = "rune" -> <<39, ToInt(t.n), 39>>                                   \* printable ASCII only
    [] t.lk = "float" -> IF t.n.s < 0 THEN Paren(HexFloat([n |-> t.n, e |-> t.e])) ELSE HexFloat([n |-> t.n, e |-> t.e])
    [] t.lk = "imag" -> IF t.e = 0 /\ t.n.s >= 0 THEN DecBytes(t.n) \o <<105>>
                        ELSE IF t.n.s < 0 THEN Paren(HexFloat([n |-> t.n, e |-> t.e]) \o <<105>>) ELSE HexFloat([n |-> t.n, e |-> t.e]) \o <<105>>
    [] t.lk = "str" -> StrLit(t.s)
    [] t.lk = "bool" -> IF t.n.s # 0 THEN <<116,114,117,101>> ELSE <<102,97,108,115,101>>
NameOf(i) == <<107>> \o NatBytes(i)                                            \* k1, k2, ...
RECURSIVE Show(_)
Operand(t) == IF t.k \in {"lit", "conv", "ref"} THEN Show(t) ELSE Paren(Show(t))
Show(t) == CASE t.k = "lit" -> ShowLit(t)
             [] t.k = "ref" -> NameOf(t.i)
             [] t.k = "un" -> OpText(t.op) \o Operand(t.a)
             [] t.k = "conv" -> TypeName(t.ty) \o Paren(Show(t.a))
             [] t.k = "bin" -> Operand(t.a) \o <<32>> \o OpText(t.op) \o <<32>> \o Operand(t.b)

(* ------------------------------------------------------------------ what is observed for an accepted constant *)
\* the reference literal spliced into  println(c == <reflit>)  - computed from the reference value
NumLit(ty, d) == IF TClass(ty) = "int" THEN DecBytes(d.n) ELSE HexFloat(d)
RefLit(r) ==
  IF r.st # "ok" \/ ~r.chk THEN <<>>
  ELSE CASE r.v.k = "b" -> IF r.v.b THEN <<116,114,117,101>> ELSE <<102,97,108,115,101>>
         [] r.v.k = "s" -> StrLit(r.v.s)
         [] r.v.k = "n" -> IF TClass(r.ty) = "complex"
                           THEN Paren(HexFloat(r.v.re) \o <<32, 43, 32>> \o HexFloat(r.v.im) \o <<105>>)
                           ELSE NumLit(r.ty, r.v.re)
\* integer type through which an integer-kind value is also printed ("" = none)
PrintType(r) ==
  IF r.st # "ok" \/ ~r.chk \/ TClass(r.ty) # "int" THEN ""
  ELSE IF r.ty = "u.rune" /\ FitsT(IntOf(r.v), "int32") THEN "int32"
  ELSE IF IsUntyped(r.ty) THEN (IF FitsT(IntOf(r.v), "int64") THEN "int64" ELSE IF FitsT(IntOf(r.v), "uint64") THEN "uint64" ELSE "")
  ELSE r.ty
\* the constant can be assigned to interface{} (representable in its default type), so its default type is observable
DynObservable(r) ==
  r.st = "ok" /\ r.chk /\
  (CASE r.ty = "u.int" -> FitsT(IntOf(r.v), "int") [] r.ty = "u.rune" -> FitsT(IntOf(r.v), "int32")
     [] r.ty \in {"u.float", "u.complex"} -> Repr(r.v, DefaultType(r.ty)).st = "ok"
     [] OTHER -> TRUE)

(* ================================================================== PART II: implementation-shaped *)
(* int64Const of constant.go at width W: the fast path computes in W-bit two's complement and promotes to
   big.Int ("big") when one of its overflow predicates fires.  Values are native integers here (W <= 16). *)
WrapS(x, W) == ((x + 2 ^ (W - 1)) % (2 ^ W)) - 2 ^ (W - 1)
MinOf(W) == -(2 ^ (W - 1))
TruncDivN(x, y) == LET q == (IF x >= 0 THEN x ELSE -x) \div (IF y >= 0 THEN y ELSE -y) IN IF (x < 0) # (y < 0) THEN -q ELSE q
\* result record: [big |-> promoted?, err |-> "" | "divzero", v |-> value]
FastBinary(op, n1, n2, W) ==
  CASE op = "+" -> LET n == WrapS(n1 + n2, W) IN
                   IF (n < n1) # (n2 < 0) THEN [big |-> TRUE, err |-> "", v |-> n1 + n2] ELSE [big |-> FALSE, err |-> "", v |-> n]
    [] op = "-" -> LET n == WrapS(n1 - n2, W) IN
                   IF (n < n1) # (n2 > 0) THEN [big |-> TRUE, err |-> "", v |-> n1 - n2] ELSE [big |-> FALSE, err |-> "", v |-> n]
    [] op = "*" -> IF n1 = 0 \/ n2 = 0 THEN [big |-> FALSE, err |-> "", v |-> 0]
                   ELSE LET n == WrapS(n1 * n2, W) IN
                        IF ((n < 0) # ((n1 < 0) # (n2 < 0))) \/ WrapS(TruncDivN(n, n2), W) # n1
                        THEN [big |-> TRUE, err |-> "", v |-> n1 * n2] ELSE [big |-> FALSE, err |-> "", v |-> n]
    [] op = "/" -> IF n2 = 0 THEN [big |-> FALSE, err |-> "divzero", v |-> 0]
                   ELSE [big |-> FALSE, err |-> "", v |-> WrapS(TruncDivN(n1, n2), W)]      \* Go: MinInt / -1 wraps
    [] op = "%" -> IF n2 = 0 THEN [big |-> FALSE, err |-> "divzero", v |-> 0]
                   ELSE [big |-> FALSE, err |-> "", v |-> n1 - TruncDivN(n1, n2) * n2]
FastNeg(n1, W) == IF n1 = MinOf(W) THEN [big |-> TRUE, err |-> "", v |-> -n1] ELSE [big |-> FALSE, err |-> "", v |-> -n1]
\* ^c1 for a signed kind and for an unsigned kind of width U <= W... (maxUnsigned(kind) ^ uint64(c1); c > maxInt -> big)
FastXorSigned(n1) == [big |-> FALSE, err |-> "", v |-> -n1 - 1]
FastXorUnsigned(n1, U, W) ==
  LET c == (2 ^ U - 1) - n1 IN                       \* n1 in 0..2^U-1: mask XOR n1 = mask - n1
  IF c > 2 ^ (W - 1) - 1 THEN [big |-> TRUE, err |-> "", v |-> c] ELSE [big |-> FALSE, err |-> "", v |-> c]
=============================================================================

"""Regenerates MANIFEST.json from the META dict of every checks/cXX.py (./check --manifest)."""
import importlib, json, sys
from pathlib import Path
ROOT = Path(__file__).resolve().parent

BASELINE_OFF = ("cd /repo && GOFLAGS=-mod=mod GOPROXY=off go build ./... && "
                "GOFLAGS=-mod=mod GOPROXY=off go test -vet=off -count=1 -timeout 25m ./... && "
                "cd /repo/test && GOFLAGS=-mod=mod GOPROXY=off go test -vet=off -count=1 -timeout 25m ./...")

NOT_YET = "no check registered yet in this round (see DESIGN.md section 7 for the planned specification)"


def main():
    props = [json.loads(l) for l in (ROOT / "properties.jsonl").read_text().splitlines() if l.strip()]
    checks, na, engines = [], [], {}
    integrated = set((ROOT / "integrated.txt").read_text().split())
    for p in props:
        pid = p["id"]
        f = ROOT / "checks" / (pid.lower() + ".py")
        if not f.exists() or pid not in integrated:
            na.append({"property_id": pid, "reason": NOT_YET})
            continue
        m = importlib.import_module("checks." + pid.lower())
        M = m.META
        if M.get("not_applicable"):
            na.append({"property_id": pid, "reason": M["not_applicable"]})
            continue
        c = {
            "property_id": pid,
            "quick_cmd": f"./check {pid} --tier quick",
            "thorough_cmd": f"./check {pid} --tier thorough",
            "evidence_file": f"/verif/evidence/{pid}.json",
            "replay_cmd_template": f"./check {pid} --replay {{path}}",
            "engine": M["engine"],
            "level_claimed": {"category": M["level"], "text": M["level_text"], "design_ref": M.get("design_ref", "")},
            "level_note": M["level_note"],
            "technique": M["technique"],
        }
        checks.append(c)
        for e in M["engine"].split("+"):
            engines.setdefault(e.strip(), []).append(pid)
    hooks_file = ROOT / "hooks.json"
    hooks = json.loads(hooks_file.read_text()) if hooks_file.exists() else {}
    man = {
        "version": 1,
        "setup_cmd": "./check --setup",
        "hooks": {
            "guard": "verif",
            "enable": "go build -tags verif (the harness module /verif/harness replaces github.com/open2b/scriggo => /repo and is always built with -tags verif)",
            "baseline_off_cmd": BASELINE_OFF,
            "source_commits": hooks.get("source_commits", []),
            "add_only": True,
        },
        "engines": [{"name": e, "path": "spec/", "serves_properties": sorted(set(v)),
                     "kind_free_text": "TLA+ specification (reference + implementation-shaped model), TLC model checking, TLC-judged trace/observation validation of the real code"}
                    for e, v in sorted(engines.items())] + [
            {"name": "TmplSem", "path": "spec/tmplsem/", "serves_properties": [],
             "kind_free_text": "extension of the specification beyond the listed properties: TLA+ reference interpreter of the template language's control constructs (if/for/range/switch/break/continue, macros, using, default, truthiness), TLC-enumerated template trees replayed into the real renderer; run with ./check X01 (never prints VIOLATION: mismatches are DIAGNOSTIC lines in evidence-extra/X01.json; it found three defects that were fixed: 3cb1889, e552f8c, 9274ce4)"}],
        "checks": checks,
        "not_applicable": na,
        "notes": "All verdicts are computed by TLC evaluating the property-level predicates of the TLA+ specifications on observations of the real code (DESIGN.md section 2). Exit 2 = machinery failure, never a verdict.",
    }
    (ROOT / "MANIFEST.json").write_text(json.dumps(man, indent=1) + "\n")
    print(f"MANIFEST.json: {len(checks)} checks, {len(na)} not_applicable")
    return 0

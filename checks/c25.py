"""C25 - builtin functions honour their documentation and never panic instead of erroring (DESIGN section 7 C25)."""
import json, re
import rig

FAMS = ["builtins"]

META = {
    "title": "Builtins",
    "engine": "Builtins",
    "technique": "TLA+ reference per builtin derived from its doc comment (byte/rune sequence definitions, BigInt for 64-bit integers) + outcome policy (documented error => never a panic; documented panic => exactly there; otherwise total); implementation-shaped models of QueryEscape/Abbreviate/ToKebab/lookupJSONSpace checked against the reference by TLC; TLC exports the per-function input spaces; a Go dispatch table calls the real builtins under recover() and logs; the TLA+ Trace spec judges every observation",
    "level": "model_checking",
    "level_text": "TLC model-checks the transcribed QueryEscape, Abbreviate and ToKebab against their references, and the mutual consistency of the reference definitions (split/join, replace, trim, index, base64, min/max, formatInt/parseInt round trips), on every exported case of those functions; and the transcribed lookupJSONSpace table - with the size found in the source and with the proposed 256 - and trimJSONSpace loop against 'only JSON white space' for every byte string up to length 1 (2 once the source has 256 entries, thorough tier) over all 256 byte values. The exported cases (57 entry points of the dispatch table; small alphabets exhaustive to length 3-4, every single byte and, in the thorough tier, every byte pair as MarshalJSONIndent prefix and QueryEscape input) plus seeded random byte strings (valid and invalid UTF-8, all byte values) are run through the real functions and every result, error or host panic is judged by the TLA+ reference.",
    "level_note": "PARTIAL. Not covered (no TLA+ model of the wrapped library exists and writing one is not sensible): agreement of the regexp wrappers with package regexp beyond literal expressions, of the time wrappers (ParseTime, Time methods, Date beyond in-range UTC fields, UnixTime, Now) with package time, the digest VALUES of Md5/Sha1/Sha256/HmacSHA1/HmacSHA256 (only their hex/base64 form), MarshalYAML/UnmarshalYAML results (only error-vs-panic and the nil/non-pointer errors), Sprintf verbs and Sprint of non-strings, Pow and every floating-point value (ParseFloat only on integer literals, FormatFloat only 'f' with precision 0 on integers), the non-ASCII behaviour of Capitalize/CapitalizeAll/ToLower/ToUpper/ToKebab (Unicode case tables), Sort's natural order, HtmlEscape (C24), FormData beyond reading back one escaped query value, Unsafeconv. Those calls are still run and judged for 'never a host panic where an error or a value is documented'. Trusted: TLC, the Json community module, spec/lib (Text, Utf8, BigInt), the Go driver's dispatch table (concretises arguments, calls, renders; no expected values). int is 64-bit on the platform of the run.",
    "design_ref": "7/C25",
}

# Defect demonstrated by this check on the unchanged /repo (see the report): lookupJSONSpace is [255]uint8, so byte 0xFF
# in prefix or indent indexes outside it and MarshalJSONIndent panics instead of returning its documented error.
PROPOSED_KNOWN = []   # both defects found by this check were fixed in /repo (known-findings.json, kind "fixed")


def table_size():
    """The size of lookupJSONSpace as written in the source under test (binds the table model to the code)."""
    try:
        src = (rig.REPO / "builtin" / "builtin.go").read_text()
        m = re.search(r"lookupJSONSpace\s*=\s*\[(\d+)\]uint8", src)
        return int(m.group(1)) if m else None
    except Exception:
        return None


def table_model(ctx):
    """Diagnostic model check of lookupJSONSpace/onlyJSONWhitespace/trimJSONSpace as transcribed (never a verdict), for
    the table size found in the source and for the proposed [256]uint8, in one TLC run (-continue: all counterexamples)."""
    size = table_size()
    tlen = ctx.pick(1, 2) if size == 256 else 1
    wd = ctx.stage("mc_table", FAMS)
    invs = ["TableOnlyWS", "TableTrim"]
    rig.write_cfg(wd / "MC_Builtins.cfg", constants={"Deep": False, "Part": "table", "TableSize": size or 256, "TableLen": tlen}, invariants=invs)
    r = ctx.tlc(wd, "MC_Builtins", workers=4, timeout=600, extra=["-continue"])
    if not r.ok and not r.invariant_violated:
        raise rig.Infra(f"table model run failed: {wd}/MC_Builtins.out\n" + rig.tail(r.out, 25))
    cx = sorted(set(r.printed))
    def of(model, sz):
        return [c for c in cx if c.startswith('<<"%s model", %d,' % (model, sz))]
    out = {"table_size_in_source": size, "max_len": tlen, "states": r.distinct, "wall_s": round(r.wall, 1),
           "format": "<<model, table size, input bytes, model result>>"}
    for sz in sorted({size or 256, 256}):
        out["size_%d" % sz] = {
            "onlyJSONWhitespace_agrees_with_reference": not of("onlyJSONWhitespace", sz),
            "onlyJSONWhitespace_counterexamples": of("onlyJSONWhitespace", sz)[:4],
            "trimJSONSpace_never_runs_off": not of("trimJSONSpace", sz),
            "trimJSONSpace_counterexamples": of("trimJSONSpace", sz)[:6],
        }
    return out


def run(ctx, replay_ids=None):
    if replay_ids is None:
        ctx.cov["model_table"] = table_model(ctx)
        mt = ctx.cov["model_table"]
        asw = mt.get("size_%d" % (mt["table_size_in_source"] or 256), {})
        if not asw.get("onlyJSONWhitespace_agrees_with_reference", True) or not asw.get("trimJSONSpace_never_runs_off", True):
            ctx.cov["model_counterexample_table"] = ("the transcribed white-space table / trimJSONSpace loop leaves the reference for the inputs "
                                                     "listed in model_table (diagnostic; the verdict is decided on the real code)")
    # the case export is a TLC run of its own (see the comment at CasesIn in MC_Builtins.tla); rig.functional's model-check
    # run then walks over the exported file, which it also hands to the driver
    wd = ctx.stage("mc", FAMS)
    rig.write_cfg(wd / "MC_Builtins_export.cfg", constants={"Deep": not ctx.quick, "Part": "export", "TableSize": 256, "TableLen": 0})
    r = ctx.tlc(wd, "MC_Builtins", cfg="MC_Builtins_export.cfg", workers=2, timeout=900, must_pass=True)
    ctx.cov["export_wall_s"] = round(r.wall, 1)
    rc = rig.functional(
        ctx, fams=FAMS, mc_module="MC_Builtins",
        mc_consts={"Deep": not ctx.quick, "Part": "main", "TableSize": 256, "TableLen": 0},
        mc_invs=["ImplMeetsRef", "RefConsistent"],
        sub="c25", trace_module="Trace_Builtins", trace_consts={"KeepPerSig": 3},
        extra=ctx.pick(8000, 40000),
        case_from_obs=lambda o: {"id": o["id"], "fn": o["fn"], "args": o["args"]},
        corrupt=corrupt,
        nontrivial=nontrivial,
        sample=show,
        rule="per-function input spaces exported by TLC (small alphabets exhaustive to length 3-4; every single byte; thorough: every byte pair as QueryEscape input and as MarshalJSONIndent prefix) plus seeded random byte strings; non-trivial = the call returned a value that differs from its first argument, an error, or panicked",
        replay_ids=replay_ids,
        mc_timeout=1500,
    )
    # statistics written by the Trace spec (per shard)
    tot = {"ref_undefined": 0, "abbreviate_fits_but_abbreviated": 0, "model_drift": 0, "rejected_by_signature": {}}
    for d in sorted(ctx.work.glob("trace_[0-9]*")):
        f = d / "stats.ndjson"
        if f.exists():
            st = rig.read_ndjson(f)[0]
            tot["ref_undefined"] += st["ref_undefined"]
            tot["abbreviate_fits_but_abbreviated"] += st["abbreviate_fits_but_abbreviated"]
            tot["model_drift"] += st.get("model_drift", 0)
            for s in st["sigs"]:
                key = s["sig"]["fn"] + ":" + s["sig"]["cause"] + ":" + s["sig"]["detail"]
                tot["rejected_by_signature"][key] = tot["rejected_by_signature"].get(key, 0) + s["count"]
    ctx.cov.update(tot)
    ctx.cov["ref_undefined_note"] = "records whose VALUE the reference does not decide (non-ASCII case mapping, unmodelled wrappers, inputs outside the documented domain); they are still judged for the panic policy"
    ctx.cov["abbreviate_note"] = ("diagnostic, not a verdict: Abbreviate(s, n) calls where s (without trailing white space) has at most n runes but more "
                                  "than n bytes and was abbreviated anyway - the doc comment does not literally forbid it")
    ctx.cov["model_drift_note"] = "observations of QueryEscape / Abbreviate / ToKebab (ASCII) whose real result differs from the transcribed algorithm's (diagnostic)"
    ctx.cov["functions"] = functions(ctx)
    ctx.cov["bounds"] = {"deep": not ctx.quick, "alphabets": "see spec/builtins/MC_Builtins.tla",
                         "lengths": "strings <= 3 (quick) / <= 4 (thorough) over 3-17 symbol alphabets; all 256 single bytes; thorough: all 65536 byte pairs for QueryEscape and MarshalJSONIndent prefix",
                         "random_extra": ctx.pick(8000, 40000)}
    ctx.cov["not_covered"] = META["level_note"].split("Those calls")[0].replace("PARTIAL. ", "")
    ctx.assumptions.append("int is 64 bits wide on the machine running the check (ParseInt range, Abs special case)")
    return rc


def functions(ctx):
    n = {}
    try:
        with open(ctx.work / "obs.ndjson") as f:
            for line in f:
                m = re.search(r'"fn":"([^"]+)"', line)
                if m:
                    n[m.group(1)] = n.get(m.group(1), 0) + 1
    except OSError:
        pass
    return n


def nontrivial(o):
    if o["k"] != "ok":
        return True
    a0 = o["args"][0] if o["args"] else None
    return o["v"] != a0


def show(o):
    def r(x):
        if isinstance(x, list) and all(isinstance(i, int) for i in x):
            return rig.b2s(x)
        if isinstance(x, list):
            return [r(i) for i in x]
        return x
    return {"fn": o["fn"], "args": [r(a) for a in o["args"]], "outcome": o["k"], "result": r(o["v"]), "msg": rig.b2s(o["msg"])}


def corrupt(o):
    """Falsify one logged fact, keeping its type: the judge must reject it.  Where the reference decides the value, the
    value is changed; otherwise the record claims a host panic (never acceptable for a total or error-returning function)."""
    if o["k"] == "hostpanic":
        return None
    if o["k"] == "ok" and decided_hint(o) and changed(o):
        return o
    if o["fn"] in DOC_PANIC:
        return None
    o["k"], o["v"] = "hostpanic", []
    return o


def changed(o):
    v = o["v"]
    if isinstance(v, bool):
        o["v"] = not v
    elif isinstance(v, int):
        o["v"] = v + 1
    elif isinstance(v, list) and v and all(isinstance(i, int) for i in v):
        v[len(v) // 2] ^= 1
    elif isinstance(v, list) and v:
        v.append(list(v[0]))
    else:
        return False
    return True


DOC_PANIC = {"FormatFloat", "FormatInt", "IndentJSON", "RegExp", "Regexp.Match", "Regexp.Find", "Regexp.Split", "Reverse", "Sort"}


def decided_hint(o):
    """Only to choose a corruption the judge is obliged to notice (a changed value is only noticed where the reference decides
    the value; otherwise the corruption is a claimed host panic).  Conservative: FALSE when unsure."""
    fn, a = o["fn"], o["args"]
    if fn in DOC_PANIC or fn in ("Date", "ParseFloat", "ParseDuration", "ParseInt", "MarshalJSON", "MarshalJSONIndent", "UnmarshalJSON",
                                 "Md5", "Sha1", "Sha256", "HmacSHA1", "HmacSHA256", "Abbreviate", "ToKebab", "Hex"):
        return False
    if fn in ("ToLower", "ToUpper", "Capitalize", "CapitalizeAll"):
        return all(b < 128 for b in a[0])
    return True


def replay(ctx, path):
    """Re-run the single stored case (complete in case.json, so seeded random cases replay under any seed)."""
    c = json.loads((path / "case.json").read_text())
    cases = ctx.work / "replay_cases.ndjson"
    rig.write_ndjson(cases, [c])
    obs = ctx.work / "replay_obs.ndjson"
    ctx.drive("c25", cases, obs)
    recs = rig.read_ndjson(obs)
    bads, _ = rig.trace_judge(ctx, "trace_replay", FAMS, "Trace_Builtins", obs, consts={"KeepPerSig": 3})
    for b in bads:
        b["obs"] = recs[b["k"] - 1]
        b["what"] = show(b["obs"])

    def rw(rdir, b):
        (rdir / "case.json").write_text(json.dumps({"id": b["obs"]["id"], "fn": b["obs"]["fn"], "args": b["obs"]["args"]}))
        (rdir / "obs.json").write_text(json.dumps(b["obs"]))
    return ctx.report(bads, replay_writer=rw)

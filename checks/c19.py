"""C19 - code can reach only the host functionality the embedder supplies (DESIGN 7/C19)."""
import rig

META = {
    "engine": "Confine",
    "technique": "TLA+ state machine of import/name resolution and native invocation (Confine.tla) model-checked over all configurations x programs; every case built and run on the real code as a Go program and as a template, with each supplied host function a distinct logging function and the callNative hook reporting every host function the VM invokes; observations judged by a TLC Trace spec",
    "level": "model_checking",
    "level_text": "TLC checks OnlySupplied / ErrorIffUnresolved / RunsOnlyIfResolved on the model for every importer content (subsets of 2 packages), globals, AllowGoStmt and every program of 1-2 reference sites (direct call, function value, closure/macro, defer, go) over 3 package paths (one fictitious) x 3 function names, and exports all of them; the real Build/BuildTemplate + Run of each is judged: build fails exactly when an import or name is not supplied or a go statement is not allowed, and the set of host functions invoked (by code pointer, from the hook) is a subset of the supplied ones, none unknown.",
    "level_note": "Trusted: TLC, the concretiser (string templates), the callNative hook (reports fn.value.Pointer()), reflect code pointers to identify supplied functions. Methods of supplied values reached through Stringer/error during Show are not separately classified. Standard-library packages are represented by the embedder-supplied stand-ins p1/p2: nothing else is linked into the importer.",
    "design_ref": "7/C19",
}


def run(ctx, replay_ids=None):
    # histories (the embedder mutates its declaration maps in place and builds again) are model-checked on a reduced
    # universe - one package, functions A B C - because the product with the full configuration space is too large
    wh = ctx.stage("mc_hist", ["confine"])
    rig.write_cfg(wh / "MC_Confine.cfg", spec="Spec",
                  constants={"MaxBuilds": 2, "Pkgs": {"p1"}, "Fns": {"A", "B", "C"}, "Decl": "<-MCDeclHist"},
                  invariants=["OnlySupplied", "ErrorIffUnresolved", "RunsOnlyIfResolved"])
    rh = ctx.tlc(wh, "MC_Confine", workers=8, timeout=900, must_pass=True)
    ctx.cov["history_model_states"] = rh.distinct
    return rig.functional(
        ctx, fams=["confine"], mc_module="MC_Confine",
        mc_consts={"MaxBuilds": 1, "Pkgs": "<-MCPkgs", "Fns": "<-MCFns", "Decl": "<-MCDecl"},
        mc_invs=["OnlySupplied", "ErrorIffUnresolved", "RunsOnlyIfResolved"],
        sub="c19", trace_module="Trace_Confine",
        case_from_obs=lambda o: {"id": o["id"], "importer": o["importer"], "globals": o["globals"], "allowgo": o["allowgo"], "prog": o["prog"], "hist": o["hist"]},
        corrupt=corrupt,
        nontrivial=lambda o: o["build"] == "ok" and o["hookcalls"] > 0,
        sample=lambda o: {"form": o["form"], "step": o["step"], "importer": o["importer"], "allowgo": o["allowgo"], "src": o["src"], "build": o["build"], "calls": o["calls"]},
        rule="every configuration (importer subset, globals, AllowGoStmt) x program of 1-2 reference sites exported by TLC, as Go program and as template; non-trivial = builds and invokes at least one host function",
        replay_ids=replay_ids, mc_workers=8,
    )


def corrupt(o):
    if o["build"] == "ok":
        o["unknown"] = 1            # a host function that was not supplied got invoked
    else:
        o["build"] = "ok"           # an unresolvable reference was accepted
    return o


def replay(ctx, path):
    import json
    c = json.loads((path / "case.json").read_text())
    return run(ctx, replay_ids={c["id"]})

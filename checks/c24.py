"""C24 - HTMLEscape escapes exactly the five HTML-significant characters (DESIGN section 7 C24)."""
import rig

META = {
    "title": "HTMLEscape",
    "engine": "HTMLEscape",
    "technique": "TLA+ reference + implementation-shaped two-pass model checked exhaustively by TLC; every string of the space replayed into scriggo.HTMLEscape/builtin.HtmlEscape; outputs judged by TLC Trace spec",
    "level": "model_checking",
    "level_text": "TLC model-checks the two-pass algorithm (transcribed loop by loop) against the reference 'exactly the five replaced, decodes back' for every string over the 7-symbol alphabet up to length 6 (quick) / 7 (thorough); the same strings (length <=5 / <=7), every run c1^n c2^m (n <= 70 / 140, m <= 2: the lengths where an implementation may size a buffer or switch strategy) plus seeded random byte strings are run through the real functions and each output is judged by the TLA+ reference.",
    "level_note": "Trusted: TLC, the Json community module, the 40-line Go driver that only calls the functions and logs. Exhaustive to length 7, not 10 (282M strings is beyond TLC here); the algorithm's control state depends only on the index of the first special and whether the running growth exceeds 4, which length 7 exhausts.",
    "design_ref": "7/C24",
}


def run(ctx, replay_ids=None):
    return rig.functional(
        ctx, fams=["lib2"], mc_module="MC_HTMLEscape",
        mc_consts={"MaxLen": ctx.pick(6, 7), "GenLen": ctx.pick(5, 7), "MaxRun": ctx.pick(70, 140)},
        mc_invs=["ImplMeetsRef", "NoZeroByte", "LenExact"],
        sub="c24", trace_module="Trace_HTMLEscape",
        extra=ctx.pick(2000, 50000),
        case_from_obs=lambda o: {"id": o["id"], "s": o["s"]},
        corrupt=corrupt,
        nontrivial=lambda o: o["out"] != o["s"],
        sample=lambda o: {"fn": o["fn"], "s": rig.b2s(o["s"]), "out": rig.b2s(o["out"])},
        rule="all strings over {< > & \" ' a ;} up to GenLen and all runs c1^n c2^m with n <= MaxRun, m <= 2 (exhaustive, exported by TLC) x 2 entry points, plus seeded random byte strings; non-trivial = output differs from input",
        replay_ids=replay_ids,
    )


def corrupt(o):
    # flip one byte of the output
    if o["out"]:
        o["out"][len(o["out"]) // 2] ^= 1
    else:
        o["out"] = [120]
    return o


def replay(ctx, path):
    import json
    c = json.loads((path / "case.json").read_text())
    return run(ctx, replay_ids={c["id"]})

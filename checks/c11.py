"""C11 - cancelling the run context stops any execution promptly (DESIGN 7/C11)."""
import json, shutil, rig
from rig import Infra

META = {
    "engine": "Cancel",
    "technique": "TLA+ spec of the cancellation mechanism (VM loop-head test, done case of blocking instructions, watcher goroutine, runFunc return) model-checked by TLC with liveness under weak fairness over all small shapes and all interleavings of Cancel; catalogue of concrete programs x cancellation points exported by TLC and replayed with the -tags verif hooks as cancellation triggers (cancel exactly when a VM parks); hook event logs + Run's return validated by a TLC trace spec",
    "level": "model_checking",
    "level_text": "Cancel.tla is checked exhaustively (safety invariants + Cancelled ~> Returned) for every shape of <=3 VMs over 8 phase scripts and every moment of cancellation; the variant without the done case must violate liveness (non-vacuity). 32 catalogue programs/templates (loops, calls, recursion, defer/recover, every blocking channel instruction incl. nil channels and select forms, goroutine combinations, terminating programs) are run on the real VM at each applicable cancellation point (before Run, at start, while running, at the block hook synchronously and 300us later, after return, never) and each event log is validated against the spec: return kind consistent with cancellation and program termination, prompt return (<=5 s bound vs typical microseconds), vm-stop only if cancelled, no goroutine left.",
    "level_note": "Trusted: TLC, the hook placement (events after the state change; the driver logs 'cancel' before calling cancel()), one tracer mutex giving the event order, wall-clock only for the generous promptness bound. The loop-head test is atomic with the instruction in the model, not in the code (documented abstraction; the trace spec tolerates it).",
    "design_ref": "7/C11",
}
FAMS = ["cancel"]
INVS = ["OwnOnlyIfFinished", "CtxErrOnlyIfCancelled", "DoneOnlyIfCancelled", "NonTerminatingReturnsCtxErr", "WatcherNotLeaked"]


def run(ctx, only_ids=None):
    wd = ctx.stage("mc", FAMS)
    rig.write_cfg(wd / "MC_Cancel.cfg", spec="Spec", constants={"Shapes": "@MCShapes_", "HasDoneCase": True},
                  invariants=INVS, properties=["CancelLeadsToReturn"])
    fixcfg(wd / "MC_Cancel.cfg")
    r = ctx.tlc(wd, "MC_Cancel", workers=8, timeout=1200, must_pass=True)
    ctx.cov.update(states=r.distinct, transitions=r.generated, mc_wall_s=round(r.wall, 1),
                   mc_properties=INVS + ["CancelLeadsToReturn (liveness, WF)"])
    wd2 = ctx.stage("mc_nodone", FAMS)
    rig.write_cfg(wd2 / "MC_Cancel.cfg", spec="Spec", constants={"Shapes": "@MCShapes_", "HasDoneCase": False},
                  invariants=INVS, properties=["CancelLeadsToReturn"])
    fixcfg(wd2 / "MC_Cancel.cfg")
    r2 = ctx.tlc(wd2, "MC_Cancel", workers=8, timeout=1200)
    ctx.cov["nonvacuity_variant_without_done_case_violates_liveness"] = bool(r2.property_violated)
    if not r2.property_violated:
        raise Infra("Cancel liveness is vacuous: the variant without the done case was accepted")
    cases = wd / "cases.ndjson"
    allc = rig.read_ndjson(cases)
    if only_ids is not None:
        allc = [c for c in allc if c["id"] in only_ids]
    # repeat each case (timing varies between repetitions; every repetition is judged)
    reps = ctx.pick(2, 8)
    rc = []
    for k in range(reps):
        for c in allc:
            d = dict(c)
            d["id"] = c["id"] + 1000 * k
            rc.append(d)
    ctx.rng.shuffle(rc)
    rig.write_ndjson(ctx.work / "cases_rep.ndjson", rc)
    obs = ctx.work / "obs.ndjson"
    ctx.drive("c11", ctx.work / "cases_rep.ndjson", obs, timeout=3000)
    events = rig.read_ndjson(obs)
    traces = {}
    for e in events:
        traces.setdefault(e["t"], []).append(e)
    bads = judge(ctx, "trace", obs)
    cancelled_mid = [t for t in traces.values() if any(e["ev"] == "cancel" for e in t) and any(e["ev"] == "return" and e["kind"] == "ctxerr" for e in t)]
    ctx.cov.update(evaluations=len(traces), traces_validated_against_impl=len(traces), events=len(events),
                   distinct_nontrivial=len({(t[0]["name"], t[0]["point"]) for t in cancelled_mid}),
                   rule="catalogue program x applicable cancellation point (exported by TLC) x repetitions; non-trivial = the context was cancelled and Run returned the context's error; distinct by (program, point)",
                   exhaustive=True, repetitions=reps,
                   samples=[compact(traces[k]) for k in list(traces)[:: max(1, len(traces) // 3)][:3]])
    confirmed = []
    if bads:
        byid = {c["id"]: c for c in rc}
        ids = sorted({b["id"] for b in bads})
        again = []
        for i in ids:
            for k in range(3):          # a timing-dependent rejection must reproduce
                d = dict(byid[i]); d["id"] = i + 100000 * (k + 1)
                again.append(d)
        rig.write_ndjson(ctx.work / "confirm_cases.ndjson", again)
        co = ctx.work / "confirm_obs.ndjson"
        ctx.drive("c11", ctx.work / "confirm_cases.ndjson", co, timeout=3000)
        b2 = judge(ctx, "trace_confirm", co)
        keys = {json.dumps(b["sig"], sort_keys=True) for b in b2}
        confirmed = [b for b in bads if json.dumps(b["sig"], sort_keys=True) in keys]
        ctx.cov["unreproduced"] = len(bads) - len(confirmed)
        for b in confirmed:
            b["what"] = compact(traces[b["id"]])
            b["case"] = byid[b["id"]]
    st = selftest(traces)
    p = ctx.work / "selftest_obs.ndjson"
    rig.write_ndjson(p, [e for t in st for e in t])
    b3 = judge(ctx, "trace_selftest", p)
    rej = {b["id"] for b in b3}
    ctx.cov["sensitivity_selftest"] = {"corrupted": len(st), "rejected": len(rej)}
    if len(rej) < len(st):
        raise Infra("sensitivity self-test: corrupted traces accepted")

    def rw(rdir, b):
        (rdir / "case.json").write_text(json.dumps(b.get("case")))
    return ctx.report(confirmed, replay_writer=rw)


def fixcfg(p):
    s = p.read_text().replace("Shapes = MCShapes_", "Shapes <- MCShapes")
    p.write_text(s)


def judge(ctx, step, obs):
    wd = ctx.stage(step, FAMS)
    shutil.copy(obs, wd / "obs.ndjson")
    rig.write_cfg(wd / "Trace_Cancel.cfg", init="TInit", next_="TNext",
                  constants={"Shapes": set(), "HasDoneCase": True}, invariants=["Done", "TraceInv"], postcondition="Consumed")
    r = ctx.tlc(wd, "Trace_Cancel", workers=1, timeout=1500)
    if not r.ok or not (wd / "bad.ndjson").exists():
        raise Infra(f"Trace_Cancel failed: {wd}/Trace_Cancel.out\n" + rig.tail(r.out, 25))
    return rig.read_ndjson(wd / "bad.ndjson")


def compact(t):
    out = []
    for e in t:
        if e["ev"] == "rt":
            out.append(f"vm{e['vm']}:{e['rt']}")
        elif e["ev"] == "reset":
            out.append(f"[{e['name']}@{e['point']}]")
        elif e["ev"] == "return":
            out.append(f"return:{e['kind']}({e['delay']}ms){':' + e['detail'] if e.get('detail') else ''}")
        elif e["ev"] == "end":
            out.append(f"end(leaked={e['leaked']})")
        else:
            out.append(e["ev"])
    return " ".join(out)[:600]


def selftest(traces):
    out = []
    good = [t for t in traces.values() if any(e["ev"] == "return" and e["kind"] == "ctxerr" for e in t) and not t[0]["term"]]
    if not good:
        return out
    t = good[len(good) // 2]
    a = json.loads(json.dumps(t))
    for e in a:
        e["t"] = 900001
        if e["ev"] == "return":
            e["kind"] = "own"              # a non-terminating program "finished"
    out.append(a)
    b = [dict(e, t=900002) for e in json.loads(json.dumps(t)) if e["ev"] != "cancel"]   # stopped without cancellation
    out.append(b)
    c = json.loads(json.dumps(t))
    for e in c:
        e["t"] = 900003
        if e["ev"] == "return":
            e["delay"] = e["bound"] + 1    # too late
    out.append(c)
    d = json.loads(json.dumps(t))
    for e in d:
        e["t"] = 900004
        if e["ev"] == "end":
            e["leaked"] = 1
    out.append(d)
    return out


def replay(ctx, path):
    c = json.loads((path / "case.json").read_text())
    return run(ctx, only_ids={c["id"] % 1000})

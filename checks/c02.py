"""C02 - compile-time constant arithmetic is exact and matches the Go specification (DESIGN section 7 C02)."""
import json, os, shutil
from concurrent.futures import ThreadPoolExecutor
from pathlib import Path
import rig
from rig import Infra

META = {
    "title": "Constant arithmetic",
    "engine": "Const",
    "technique": "TLA+ reference of the Go specification's constant rules (exact BigInt / dyadic-rational arithmetic, representability, conversions, shifts) evaluated by TLC; TLC exports every depth-1 expression tree over a boundary literal set (incl. a grid of integers needing more than 53 bits x float/complex constants; plus seeded depth-2 trees) and a second case space of declaration programs `const k1 = base; const k2 = F(k1); const k3 = G(k1, k2)` (every base x F x G: identifiers denote their constants, whatever was computed from them) with the reference verdict, reference literal and Go source; the driver splices them into programs built and run by the real scriggo; a TLC Trace spec recomputes the reference and judges. The int64 fast path of constant.go is transcribed branch by branch and model-checked against the reference for all operand pairs at width 8 (thorough; width 6 in quick).",
    "level": "model_checking",
    "level_text": "Reference: Const.tla part I (Go spec: untyped kinds and default types, untyped->typed conversion, representability with overflow/truncation, IEEE round-to-even for typed floats, integer vs rational division, shifts, comparison, concatenation, unary + - ^ !) on BigInt (spec/lib/BigInt.tla, itself model-checked against TLC's native integers by MC_BigInt). Implementation-shaped: int64Const.binaryOp/unaryOp overflow predicates at width 8 (quick: 6), every operand pair, one TLC action per branch, checked against the reference (MC_Const Mode=mc). Replay: all depth-1 trees of the grids (quick 4765, thorough 23222 + 3000 seeded depth-2 with their operands observed separately) -> `const c = <expr>` built by scriggo; accept/reject, `c == <reference literal>`, the printed integer and the default type are judged by TLC (Trace_Const). Declaration programs (quick 990 = 15 bases x 11 F x 6 G, thorough 8928 = 31 x 24 x 12; at package level or inside main): every prefix of declarations is built (the first rejected declaration must be the reference's), and every named constant is observed after all declarations by the same three observations; Const!Eval gives an identifier the value of its declaration.",
    "level_note": "Trusted: TLC, Json module, the Go driver (string templates + digit re-chunking, no arithmetic, no oracle on the passing path). go/types+go/constant are consulted only for records the Trace spec already rejected (oracle guard) - a record on which go/types agrees with scriggo is reported as oracle_disputed, not as a violation. Not decided (skipped, counted as ref_undefined): floats needing more than 256 mantissa bits, non-dyadic quotients' values (accept/reject still judged), shift counts >= 512 on zero / right shifts. Not covered: non-dyadic decimal literals (0.1) and their rounding, real/imag/complex builtins, iota, typed constants of named types, expression trees deeper than 2, declaration histories longer than 3, constants imported from other packages or declared in grouped const (...) blocks.",
    "design_ref": "7/C02",
}

FAMS = ["const"]
PAR = 8          # parallel TLC processes for Gen and for the judge

# Defects of scriggo demonstrated by this check and still present in /repo (signatures are computed by
# Trace_Const.Sig).  The 22 signatures found on the original tree are all resolved by the `fix:` commits of
# branch c02fix (see known-findings.json, kind "fixed").  Found by the declaration programs (2026-09-22):
_WIDE = ("untyped complex constant whose real or imaginary part is held as an integer (e.g. const k = 1<<511; k + 1i): "
         "+ - * apply the 512-bit limit of INTEGER constants to the part, the ignored overflow error leaves a nil "
         "big.Int in the result (complexConst.binaryOp, internal/compiler/constant.go) - ")
PROPOSED_KNOWN = []   # integrated into known-findings.json


def _consts(ctx, mode, shard=0, nshards=1):
    return {"Mode": mode, "W": ctx.pick(6, 8), "Tier": ctx.pick(1, 2), "Seed": ctx.seed % 10007, "Shard": shard,
            "NShards": nshards, "N2": ctx.pick(0, 3000)}


class one_cpu_jvm:
    """Most TLC runs here are single-threaded evaluations started in parallel: keep each JVM from starting one
    JIT/GC thread per core (measured: 13 s -> 3-6 s of CPU per TLC start on this 16-core machine).  Re-entrant."""
    _depth, _old = 0, None
    _lock = __import__("threading").Lock()

    def __enter__(self):
        with one_cpu_jvm._lock:
            if one_cpu_jvm._depth == 0:
                one_cpu_jvm._old = os.environ.get("JAVA_TOOL_OPTIONS")
                os.environ["JAVA_TOOL_OPTIONS"] = "-XX:CICompilerCount=2 -XX:ParallelGCThreads=2"
            one_cpu_jvm._depth += 1

    def __exit__(self, *a):
        with one_cpu_jvm._lock:
            one_cpu_jvm._depth -= 1
            if one_cpu_jvm._depth == 0:
                if one_cpu_jvm._old is None:
                    os.environ.pop("JAVA_TOOL_OPTIONS", None)
                else:
                    os.environ["JAVA_TOOL_OPTIONS"] = one_cpu_jvm._old


def _gen_shard(ctx, k, n):
    wd = ctx.stage(f"gen_{k}", FAMS)
    rig.write_cfg(wd / "MC_Const.cfg", constants=_consts(ctx, "gen", k, n))
    r = ctx.tlc(wd, "MC_Const", workers=1, timeout=1500, heap="3g")
    if not r.ok or not (wd / "cases.ndjson").exists():
        raise Infra(f"Gen shard {k} failed: {wd}/MC_Const.out\n" + rig.tail(r.out, 25))
    return rig.read_ndjson(wd / "cases.ndjson")


def _judge_shard(ctx, step, recs):
    wd = ctx.stage(step, FAMS)
    rig.write_ndjson(wd / "obs.ndjson", recs)
    for f in ("bad.ndjson", "stats.ndjson"):
        if (wd / f).exists():
            (wd / f).unlink()
    rig.write_cfg(wd / "Trace_Const.cfg", invariants=["Done"], postcondition="Consumed")
    r = ctx.tlc(wd, "Trace_Const", workers=1, timeout=1500, heap="3g")
    if not r.ok or not (wd / "bad.ndjson").exists() or not (wd / "stats.ndjson").exists():
        raise Infra(f"Trace_Const did not complete cleanly: {wd}/Trace_Const.out\n" + rig.tail(r.out, 30))
    bad = rig.read_ndjson(wd / "bad.ndjson")
    for x in bad:
        x["obs"] = recs[x["k"] - 1]
    return bad, rig.read_ndjson(wd / "stats.ndjson")[0]


def judge(ctx, step, recs, par=PAR):
    """Judge observation records with Trace_Const in `par` parallel TLC processes."""
    if not recs:
        return [], {"records": 0, "nbad": 0, "ref_undefined": 0, "reason_class_drift": 0}
    par = max(1, min(par, (len(recs) + 199) // 200))
    parts = [recs[i::par] for i in range(par)]
    with one_cpu_jvm(), ThreadPoolExecutor(par) as ex:
        res = list(ex.map(lambda a: _judge_shard(ctx, f"{step}_{a[0]}", a[1]), enumerate(parts)))
    bads, stats = [], {"records": 0, "nbad": 0, "ref_undefined": 0, "reason_class_drift": 0}
    for b, s in res:
        bads += b
        for k in stats:
            stats[k] += s[k]
    return bads, stats


ECHO = ("expr", "src", "reflit", "vt", "dt")


def is_prog(o):
    """a record of the second case space: a history of constant declarations"""
    return "decls" in o


def case_from_obs(o):
    if is_prog(o):
        return {"id": o["id"], "scope": o["scope"],
                "decls": [{"name": d["name"], **{k: d[k] for k in ECHO}, "kids": []} for d in o["decls"]]}
    return {"id": o.get("id", 0), **{k: o[k] for k in ECHO}, "kids": [case_from_obs(k) for k in o["kids"]]}


def echoes(o, c):
    if is_prog(o) or is_prog(c):
        return (is_prog(o) and is_prog(c) and o["scope"] == c["scope"] and len(o["decls"]) == len(c["decls"])
                and all(a["name"] == b["name"] and all(a[k] == b[k] for k in ECHO) for a, b in zip(o["decls"], c["decls"])))
    return (all(o[k] == c[k] for k in ECHO) and len(o["kids"]) == len(c["kids"])
            and all(echoes(a, b) for a, b in zip(o["kids"], c["kids"])))


def prog_text(o):
    return "; ".join("const %s = %s" % (rig.b2s(d["name"]), rig.b2s(d["src"])) for d in o["decls"])


def show(o):
    if is_prog(o):
        return {"program": prog_text(o), "scope": o["scope"], "nobs": o.get("nobs"), "decls": [show(d) for d in o["decls"]]}
    return {"src": rig.b2s(o["src"]), "builds": o["builds"], "msg": rig.b2s(o["msg"])[:160], "chk": o["chk"],
            "chkmsg": rig.b2s(o["chkmsg"])[:160], "reflit": rig.b2s(o["reflit"])[:80], "eq": o["eq"],
            "vt": o["vt"], "v": o["v"] if o["hasv"] else None, "dtobs": o["dtobs"]}


def same_outcome(a, b):
    """scriggo observation vs oracle observation of the same programs"""
    if is_prog(a) or is_prog(b):
        return (is_prog(a) and is_prog(b) and len(a["decls"]) == len(b["decls"])
                and all(same_outcome(x, y) for x, y in zip(a["decls"], b["decls"])))
    return (a["builds"] == b["builds"] and a["eq"] == b["eq"] and a["hasv"] == b["hasv"]
            and a["v"] == b["v"] and a["dtobs"] == b["dtobs"]
            and (a["builds"] != "ok" or (a["chk"] == "ran") == (b["chk"] == "ran"))
            and all(same_outcome(x, y) for x, y in zip(a["kids"], b["kids"])))


def _mcbig(ctx):
    """BigInt self-test against TLC's native integers"""
    invs = ["WellFormed", "AddOk", "CmpOk", "MulOk", "MulSmallOk", "QuoRemOk", "DivSmallOk", "WrapOk", "ShiftOk",
            "BitLenOk", "BitOpsOk", "Pow2Ok", "BigIdentities"]
    wd = ctx.stage("mcbig", FAMS)
    R = ctx.pick(4, 300)
    rig.write_cfg(wd / "MC_BigInt.cfg", constants={"R": R}, invariants=invs)
    rb = ctx.tlc(wd, "MC_BigInt", workers=ctx.pick(4, rig.NCPU), timeout=1500, must_pass=True)
    return {"pairs": rb.distinct, "wall_s": round(rb.wall, 1), "invariants": invs, "R": R}


MC_INVS = ["ImplMeetsRef", "MinIntQuoWraps", "PromotesIffOverflow"]


def _mc(ctx):
    """model check of the implementation-shaped int64 fast path against the reference, all operand pairs at width W"""
    wd = ctx.stage("mc", FAMS)
    c = _consts(ctx, "mc")
    rig.write_cfg(wd / "MC_Const.cfg", constants=c, invariants=MC_INVS)
    # (no -coverage: TLC's cost model runs out of memory on the recursive BigInt operators; MC_Const computes and
    #  prints the set of actions that no operand pair enables)
    r = ctx.tlc(wd, "MC_Const", workers=ctx.pick(4, rig.NCPU), timeout=1500, extra=["-continue"])
    if not r.ok and not r.invariant_violated:
        raise Infra(f"MC_Const failed: {wd}/MC_Const.out\n" + rig.tail(r.out, 30))
    return r, wd, c["W"]


def run(ctx, replay_case=None):
    # 0-2. concurrently: BigInt self-test; model check of the fast path; Gen of the test space (parallel shards)
    # (a replay re-runs the stored case itself: driver + judge; Trace_Const re-derives src/reflit/vt/dt from expr)
    model_findings = []
    replay_ids = None if replay_case is None else {replay_case["id"]}
    shards = [[replay_case]] if replay_case is not None else None
    with one_cpu_jvm(), ThreadPoolExecutor(PAR + 2) as ex:
        fb = ex.submit(_mcbig, ctx) if replay_ids is None else None
        fm = ex.submit(_mc, ctx) if replay_ids is None else None
        if shards is None:
            shards = list(ex.map(lambda k: _gen_shard(ctx, k, PAR), range(PAR)))
        if fb:
            ctx.cov["bigint_selftest"] = fb.result()
        if fm:
            r, wd, W = fm.result()
            ctx.cov.update(states=r.distinct, transitions=r.generated, mc_wall_s=round(r.wall, 1), mc_invariants=MC_INVS,
                           bounds="fast path: width %d, all operand pairs, ops + - * / %% neg ^signed ^unsigned; cases: Tier %d"
                                  % (W, ctx.pick(1, 2)))
            if r.invariant_violated:
                model_findings = sorted(set(r.invariant_violated))
                k = r.out.find("Error: Invariant")
                ctx.cov["model_counterexample"] = {"invariants": model_findings, "tlc_out": str(wd / "MC_Const.out"),
                                                   "first": r.out[k:k + 700]}
            m = __import__("re").search(r'<<"actions_never_taken", \{(.*?)\}>>', r.out)
            if not m:
                raise Infra("MC_Const did not print actions_never_taken")
            ctx.cov["actions_never_taken"] = __import__("re").findall(r'"(\w+)"', m.group(1))
    cases = sorted((c for s in shards for c in s), key=lambda c: c["id"])
    ctx.cov["cases_exported"] = len(cases)
    cfile = ctx.work / "cases.ndjson"
    rig.write_ndjson(cfile, cases)
    # 3. replay into the real scriggo
    obs = ctx.work / "obs.ndjson"
    ctx.drive("c02", cfile, obs)
    allobs = rig.read_ndjson(obs)
    byid = {c["id"]: c for c in cases}
    if len(allobs) != len(cases):
        raise Infra("driver returned %d observations for %d cases" % (len(allobs), len(cases)))
    for o in allobs:
        c = byid[o["id"]]
        if not echoes(o, c):
            raise Infra("observation %d does not echo its case" % o["id"])
    nontrivial = lambda o: (any(nontrivial(d) for d in o["decls"]) if is_prog(o)
                            else o["builds"] == "builderr" or o["chk"] == "ran")
    srckey = lambda o: prog_text(o) + "@" + o["scope"] if is_prog(o) else json.dumps(o["src"])
    ctx.cov.update(evaluations=len(allobs), traces_validated_against_impl=len(allobs),
                   distinct_nontrivial=len({srckey(o) for o in allobs if nontrivial(o)}),
                   rule="every depth-1 tree over the boundary literal set x unary/binary operators, shifts, conversions to the 17 basic types, the mixed wide-integer x float grid (exported by TLC, exhaustive over the stated grids) + seeded depth-2 trees in thorough + every program const k1 = base; const k2 = F(k1); const k3 = G(k1, k2) of the base x F x G grid; non-trivial = a build was rejected with a BuildError or the observing program ran",
                   exhaustive=True, expression_cases=sum(1 for o in allobs if not is_prog(o)),
                   program_cases=sum(1 for o in allobs if is_prog(o)),
                   declarations_observed=sum(len(o["decls"]) for o in allobs if is_prog(o)),
                   reference_verdicts={k: sum(1 for c in cases if c.get("rst") == k) for k in ("ok", "rej", "any")},
                   samples=[show(o) for o in rig.pick_samples(allobs, 4, ctx.seed)])
    # 4. judge (TLC, parallel shards); concurrently the sensitivity self-test: corrupted observations must be
    #    rejected by the same Trace spec
    with ThreadPoolExecutor(2) as ex2:
        fst = None
        if replay_ids is None:
            st = selftest(allobs, ctx.seed)
            fst = ex2.submit(judge, ctx, "trace_selftest", st, 1)
        bads, stats = judge(ctx, "trace", allobs)
        if fst:
            b3, _ = fst.result()
            ctx.cov["sensitivity_selftest"] = {"corrupted": len(st), "rejected": len({b["id"] for b in b3})}
            if len({b["id"] for b in b3}) < len(st):
                raise Infra("sensitivity self-test failed: %d corrupted observations, %d rejected" % (len(st), len(b3)))
    ctx.cov["judged_bad_first_pass"] = stats["nbad"]
    ctx.cov["ref_undefined"] = stats["ref_undefined"]
    ctx.cov["reason_class_drift"] = stats["reason_class_drift"]
    if stats["records"] != len(allobs):
        raise Infra("Trace_Const consumed %d of %d records" % (stats["records"], len(allobs)))
    if any(b["bound"] != 1 for b in bads):
        raise Infra("observation not bound to its expression (src/reflit/vt/dt differ from the reference's): ids %s"
                    % [b["id"] for b in bads if b["bound"] != 1][:5])
    # 5. reproduction guard (fresh process) + oracle guard (go/types + go/constant, only on rejected records)
    confirmed, disputed = [], []
    if bads:
        ccases = [case_from_obs(b["obs"]) for b in bads]
        cc = ctx.work / "confirm_cases.ndjson"
        rig.write_ndjson(cc, ccases)
        co = ctx.work / "confirm_obs.ndjson"
        ctx.drive("c02", cc, co)
        b2, _ = judge(ctx, "trace_confirm", rig.read_ndjson(co), par=4)
        again = {(b["id"], json.dumps(b["sig"], sort_keys=True)) for b in b2}
        rep = [b for b in bads if (b["id"], json.dumps(b["sig"], sort_keys=True)) in again]
        ctx.cov["unreproduced"] = len(bads) - len(rep)
        oo = ctx.work / "oracle_obs.ndjson"
        ctx.drive("c02", cc, oo, args=["-oracle"])
        orc = {o["id"]: o for o in rig.read_ndjson(oo)}
        for b in rep:
            if b["id"] in orc and same_outcome(b["obs"], orc[b["id"]]):
                disputed.append({"id": b["id"], "sig": b["sig"], "case": show(b["obs"])})
            else:
                b["what"] = show(b["obs"])
                b["oracle"] = show(orc[b["id"]]) if b["id"] in orc else None
                confirmed.append(b)
        ctx.cov["oracle_disputed"] = len(disputed)
        if disputed:
            ctx.cov["oracle_disputed_samples"] = disputed[:5]
    # 6. verdict
    def rw(rdir, b):
        o = b["obs"]
        (rdir / "case.json").write_text(json.dumps(case_from_obs(o)))
        (rdir / "obs.json").write_text(json.dumps(o))
        src = rdir / "source"
        src.mkdir(exist_ok=True)
        if is_prog(o):
            ds = ["const %s = %s\n" % (rig.b2s(d["name"]), rig.b2s(d["src"])) for d in o["decls"]]
            (src / "main.go").write_text("package main\n\n" + ("func main() {\n\t" + "\t".join(ds) + "}\n" if o["scope"] == "func"
                                                               else "".join(ds) + "\nfunc main() {}\n"))
        else:
            (src / "main.go").write_text("package main\n\nconst c = " + rig.b2s(o["src"]) + "\n\nfunc main() {}\n")
    rc = ctx.report(confirmed, replay_writer=rw)
    if model_findings:
        ctx.cov["model_drift"] = "implementation-shaped fast-path model violates " + ",".join(model_findings) + \
            " (diagnostic; the verdict above is from the real code)"
    return rc


def selftest(allobs, seed):
    """three corruptions: accepted->rejected, rejected->accepted, wrong printed value"""
    out = []
    progs = [o for o in allobs if is_prog(o)]
    allobs = [o for o in allobs if not is_prog(o)]
    acc = [o for o in allobs if o["builds"] == "ok" and o["hasv"] == 1 and o["eq"] == "true"]
    rej = [o for o in allobs if o["builds"] == "builderr"]
    for i, o in enumerate(rig.pick_samples(acc, 2, seed + 7)):
        o = json.loads(json.dumps(o))
        if i == 0:
            o["builds"], o["chk"], o["eq"], o["hasv"] = "builderr", "none", "", 0
        else:
            v = o["v"]
            o["v"] = {"s": 1, "l": [(v["l"][0] + 1) % 10000 or 1] + v["l"][1:]} if v["l"] else {"s": 1, "l": [1]}
        out.append(o)
    for o in rig.pick_samples(rej, 1, seed + 11):
        o = json.loads(json.dumps(o))
        o["builds"], o["msg"] = "ok", []
        out.append(o)
    acc2 = [o for o in allobs if o["builds"] == "ok" and o["eq"] == "true"]
    for o in rig.pick_samples(acc2, 1, seed + 13):
        o = json.loads(json.dumps(o))
        o["eq"] = "false"
        out.append(o)
    # a program whose first constant no longer has its value when it is looked at after the later declarations, and
    # one whose last declaration is accepted although... (rejected although the reference accepts it)
    good = [o for o in progs if all(d["builds"] == "ok" and d["chk"] == "ran" for d in o["decls"]) and o["decls"][0]["eq"] == "true"]
    for i, o in enumerate(rig.pick_samples(good, 2, seed + 17)):
        o = json.loads(json.dumps(o))
        if i == 0:
            o["decls"][0]["eq"] = "false"
        else:
            d = o["decls"][-1]
            d["builds"], d["chk"], d["eq"], d["hasv"], d["dtobs"] = "builderr", "none", "", 0, ""
            o["nobs"] = len(o["decls"]) - 1
        out.append(o)
    for i, o in enumerate(out):
        o["id"] = 9000000 + i
    return out


def replay(ctx, path):
    c = json.loads((Path(path) / "case.json").read_text())
    return run(ctx, replay_case=c)

"""C20 - exceeding an implementation limit is an error, never wrong code (DESIGN section 7 C20)."""
import json, os, re, shutil, subprocess, tempfile
from pathlib import Path
import rig
from rig import Infra

META = {
    "title": "Implementation limits",
    "engine": "Limits",
    "technique": "TLA+ model of the per-function resource counters and of the operand encodings (int8 registers, int8->uint8 table indexes, 2+14-bit value index, 16/24-bit addresses) checked exhaustively by TLC; TLC exports a sweep plan per resource; a Go driver writes a program/template needing n units, locates the real threshold by galloping+bisection, builds and runs every program with the real scriggo; a TLC Trace spec recomputes each program's checksum and judges 'limit-exceeded BuildError or correct output, nothing else'",
    "level": "model_checking",
    "level_text": "TLC explores every index below every limit (4 x 16384 value indexes of OpLoad, 6 x 256 table indexes, 4 x 127 registers: 67608 states) and checks that what the compiler encodes is what the VM decodes (two's complement casts transcribed), that Alloc refuses exactly at the limit and never beyond what the operand can hold, plus the 16-bit (all 65536 values in the thorough tier, byte-edge product in quick) and 24-bit (byte-edge product, every address below 2^17 in thorough) address round trips; negative controls (the no-limit-test and no-uint8-cast shapes the call-site paths had before they were fixed; 128 registers) must violate Faithful. For 38 program-level resources (39 in the thorough tier), including variants whose last entries around the limit come from the separately treated allocation paths (nil, zero values of non-comparable types, composite zero values, function values/literals, map-key selectors) and resources consumed by package-level initialisers ($initvars) of the main package, an imported package and an imported template file, programs and templates with n units, for n around the spec's capacity and around the threshold actually found by galloping+bisection, are built and run by the real code and each outcome is judged by the TLA+ reference (checksum recomputed by TLC).",
    "level_note": "Trusted: TLC, the Json module, the Go driver (writes programs, classifies errors by public types and the word 'exceeded', cancels a run after 40 s three times in a row; no expected values). The judge is not tied to limit values: a lowered or raised limit passes; only a third outcome (wrong output, panic, host panic, other error, hang) fails. On the violation path only, wrong-checksum programs are also run under gc (oracle guard). Not covered: the 2^24 instruction limit of jump targets (needs >3M statements; builder.go only refuses above 2^32), package-level variable indexes beyond 508 (registers run out first), float-valued checksums, limits inside macros/imported packages, Disassemble (panics on function index >= 128, outside the property).",
    "design_ref": "7/C20",
}

# Genuine defects demonstrated by this check on the unchanged tree (reported to the integrator).
PROPOSED_KNOWN = []   # the five defects found by this check were fixed in /repo (known-findings.json, kind "fixed")

FAMS = ["limits"]
MODEL = {"MaxRegisters": 127, "MaxTable8": 256, "MaxValues14": 16384}
INVS = ["Faithful", "RefusesAtLimit", "NeverBeyondCapacity"]


def mc(ctx, step, paths, span, deep, model=None, workers=4):
    wd = ctx.stage(step, FAMS)
    consts = dict(model or MODEL, ModelPaths=paths, Span=span, Deep=deep)
    rig.write_cfg(wd / "MC_Limits.cfg", constants=consts, invariants=INVS, constraint="Bounded")
    r = ctx.tlc(wd, "MC_Limits", workers=workers, timeout=600, coverage=(not ctx.quick and paths == "builder" and model is None))
    return wd, r


def case_of(o):
    """single-program case re-running one observation"""
    return {"id": o["rid"], "rid": o["rid"], "res": o["res"], "cap": o["cap"], "points": [o["n"]], "locate": False,
            "span": 0, "lo": o["n"], "hi": o["n"], "base": o["base"], "step": o["step"], "mod": o["mod"],
            "kind": o["kind"], "w": o["w"], "m": o["m"]}


def judge(ctx, step, obs_path):
    bads, tr = rig.trace_judge(ctx, step, FAMS, "Trace_Limits", obs_path)
    undef = 0
    for line in tr.printed:
        m = re.match(r'<<"ref_undefined", (\d+)>>', line)
        if m:
            undef = int(m.group(1))
    return bads, undef


def gc_guard(ctx, srcdir, o):
    """Oracle guard (violation path only): what does gc print for this program? None = not applicable."""
    src = Path(srcdir) / f"{o['id']}_main.go"
    if not src.exists() or o["res"] == "nfuncs":
        return None
    d = Path(tempfile.mkdtemp(prefix="c20gc_", dir=ctx.work))
    shutil.copy(src, d / "main.go")
    try:
        p = subprocess.run(["go", "run", "main.go"], cwd=d, env=dict(rig.goenv(), GOFLAGS=""), stdout=subprocess.PIPE,
                           stderr=subprocess.PIPE, text=True, timeout=300)
    except Exception:
        return None
    if p.returncode != 0:
        return None
    out = p.stderr.strip()          # the print builtin writes to standard error under gc
    return int(out) if out.isdigit() else None


def thresholds(allobs):
    out = {}
    for o in allobs:
        t = out.setdefault(o["res"], {"cap_in_spec": o["cap"], "largest_n_built": None, "smallest_n_refused": None, "programs": 0})
        t["programs"] += 1
        if o["builds"] == "ok" and (t["largest_n_built"] is None or o["n"] > t["largest_n_built"]):
            t["largest_n_built"] = o["n"]
        if o["builds"] == "limiterror" and (t["smallest_n_refused"] is None or o["n"] < t["smallest_n_refused"]):
            t["smallest_n_refused"] = o["n"]
            t["refusal"] = re.sub(r"^[^ ]* ", "", o["msg"])
    return out


def run(ctx, only=None):
    span, deep = ctx.pick(1, 3), ctx.pick(False, True)
    if only is None:
        # 1. exhaustive model check of the builder.go paths and the encodings + export of the plan
        wd, r = mc(ctx, "mc", "builder", span, deep)
        ctx.cov.update(states=r.distinct, transitions=r.generated, mc_wall_s=round(r.wall, 1), mc_invariants=INVS,
                       bounds=f"registers<={MODEL['MaxRegisters']}, 8-bit tables<={MODEL['MaxTable8']}, value indexes<={MODEL['MaxValues14']}; Span={span}; Deep={deep}")
        for line in r.printed:
            m = re.match(r'<<"addresses_checked", (\d+)>>', line)
            if m:
                ctx.cov["address_round_trips_checked"] = int(m.group(1))
        if not r.ok:
            if r.invariant_violated:
                ctx.cov["model_drift"] = "builder-path model violates " + ",".join(r.invariant_violated) + " (diagnostic only)"
            else:
                raise Infra(f"MC_Limits failed: {wd}/MC_Limits.out\n" + rig.tail(r.out, 30))
        if not ctx.quick:
            ctx.cov["actions_never_taken"] = r.coverage_zero()
        cases = wd / "cases.ndjson"
        if not cases.exists():
            raise Infra("no cases.ndjson exported by MC_Limits")
        # 1b. negative control: the two defective shapes (no limit test / no uint8 cast) that the call-site
        # allocation paths had before they were fixed must violate Faithful in the model
        wd2, r2 = mc(ctx, "mc_callsites", "callsites", span, False, workers=1)
        fu = re.findall(r'<<"first_unfaithful", "(\w+)", "(\w+)", (\d+)>>', r2.out)
        ctx.cov["model_negative_control_shapes"] = {"violated": r2.invariant_violated,
                                                    "first_count_read_back_wrong": {f"{x}/{y}": int(z) for x, y, z in fu}}
        if "Faithful" not in r2.invariant_violated:
            raise Infra(f"negative control: defective allocation shapes do not violate Faithful: {wd2}/MC_Limits.out")
        # 1c. negative control of the model: one register more than int8 holds must break Faithful
        if not ctx.quick:
            _, r3 = mc(ctx, "mc_negctl", "negctl", span, False, model=dict(MODEL, MaxRegisters=128, MaxValues14=300))
            ctx.cov["model_negative_control"] = {"MaxRegisters": 128, "violated": r3.invariant_violated}
            if "Faithful" not in r3.invariant_violated:
                raise Infra("negative control: model with 128 registers does not violate Faithful")
    else:
        cases = ctx.work / "cases.ndjson"      # a replay case is self-contained: no model run
        rig.write_ndjson(cases, [only])
    # 2. replay into the real code
    srcdir = ctx.work / "src"
    obs = ctx.work / "obs.ndjson"
    ctx.drive("c20", cases, obs, timeout=ctx.pick(300, 800))
    allobs = rig.read_ndjson(obs)
    ctx.cov.update(evaluations=len(allobs), traces_validated_against_impl=len(allobs),
                   distinct_nontrivial=len({(o["res"], o["n"]) for o in allobs if o["n"] > 1}),
                   rule="per resource: n in {1, cap/2} u [cap-Span, cap+Span] from the TLC plan, plus every probe of the threshold search and [T-Span+1, T+Span] around the threshold found; non-trivial = n > 1",
                   exhaustive=False, resources=len({o["res"] for o in allobs}),
                   outcomes={k: sum(1 for o in allobs if (o["builds"], o["run"]) == k2) for k, k2 in
                             [("built_and_ran", ("ok", "ok")), ("limit_error", ("limiterror", "none"))]},
                   thresholds_found=thresholds(allobs),
                   samples=[{k: o[k] for k in ("res", "n", "builds", "run", "printed", "msg")} for o in rig.pick_samples(allobs, 4, ctx.seed)])
    ctx.cov["outcomes"]["other"] = len(allobs) - sum(ctx.cov["outcomes"].values())
    # 3. judge
    bads, undef = judge(ctx, "trace", obs)
    ctx.cov["ref_undefined"] = undef
    ctx.cov["judged_bad_first_pass"] = len(bads)
    for b in bads:
        b["obs"] = allobs[b["k"] - 1]
    # 4. reproduction guard (fresh process, single-program cases) + gc oracle guard
    confirmed = []
    if bads:
        seen, cc = set(), []
        for b in bads:
            if b["id"] not in seen:
                seen.add(b["id"])
                cc.append(case_of(b["obs"]))
        p = ctx.work / "confirm_cases.ndjson"
        rig.write_ndjson(p, cc)
        co = ctx.work / "confirm_obs.ndjson"
        srcdir.mkdir(exist_ok=True)
        ctx.drive("c20", p, co, timeout=600, env={"C20_SRC_DIR": str(srcdir)})
        b2, _ = judge(ctx, "trace_confirm", co)
        again = {(b["id"], json.dumps(b["sig"], sort_keys=True)) for b in b2}
        confirmed = [b for b in bads if (b["id"], json.dumps(b["sig"], sort_keys=True)) in again]
        ctx.cov["unreproduced"] = len(bads) - len(confirmed)
        disputed, gc_done, keep = 0, set(), []
        for b in confirmed:
            o = b["obs"]
            sk = json.dumps(b["sig"], sort_keys=True)
            if b["sig"]["outcome"] == "wrongsum" and sk not in gc_done and len(gc_done) < 6:
                gc_done.add(sk)
                g = gc_guard(ctx, srcdir, o)
                b["gc_prints"] = g
                if g is not None and g == o["printed"]:
                    disputed += 1          # gc agrees with scriggo: the spec's checksum is wrong, not the code
                    continue
            b["what"] = {k: o[k] for k in ("res", "n", "cap", "builds", "run", "printed", "msg")}
            if b.get("gc_prints") is not None:
                b["what"]["gc_prints"] = b["gc_prints"]
            keep.append(b)
        ctx.cov["oracle_disputed"] = disputed
        if disputed:
            raise Infra("oracle guard: gc prints the same as scriggo for a program the spec rejects - fix the spec's checksum")
        confirmed = keep
    # 5. sensitivity self-test: corrupted observations must be rejected
    good = [o for o in allobs if o["builds"] == "ok" and o["run"] == "ok" and o["n"] > 1]
    st = []
    for o, f in zip(rig.pick_samples(good, 3, ctx.seed + 7), (c_sum, c_panic, c_other)):
        st.append(f(json.loads(json.dumps(o))))
    lim = [o for o in allobs if o["builds"] == "limiterror"]
    if lim:
        st.append(c_other(json.loads(json.dumps(lim[0]))))
    if st:
        p = ctx.work / "selftest_obs.ndjson"
        rig.write_ndjson(p, st)
        b3, _ = judge(ctx, "trace_selftest", p)
        ctx.cov["sensitivity_selftest"] = {"corrupted": len(st), "rejected": len(b3)}
        if len(b3) < len(st):
            raise Infra(f"sensitivity self-test failed: {len(st)} corrupted observations, only {len(b3)} rejected")

    def rw(rdir, b):
        (rdir / "case.json").write_text(json.dumps(case_of(b["obs"])))
        (rdir / "obs.json").write_text(json.dumps(b["obs"]))
        for f in srcdir.glob(f"{b['obs']['id']}_*"):
            shutil.copy(f, rdir / f.name.split("_", 1)[1])
    return ctx.report(confirmed, replay_writer=rw)


def c_sum(o):
    o["printed"] = (o["printed"] + 1) % o["m"]
    return o


def c_panic(o):
    o["run"], o["printed"], o["msg"] = "panic", -1, "corrupted"
    return o


def c_other(o):
    o["builds"], o["run"], o["printed"], o["msg"] = "otherbuilderror", "none", -1, "corrupted"
    return o


def replay(ctx, path):
    c = json.loads((path / "case.json").read_text())
    return run(ctx, only=c)

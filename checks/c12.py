"""C12 - Run reports Stop, Fatal and unrecovered panics exactly as documented (DESIGN 7/C12, 7/C01 item 2, Appendix D).

Pipeline: TLC model-checks PanicFlow (reference + transcribed VM calls-stack machine) while the environment
builds programs -> every terminal behaviour is a closed program (case) -> the Go driver concretises each
program in several source shapes and runs it through scriggo.Build/Run and BuildTemplate/Run -> the
Trace spec recomputes the reference observable from the program and judges every run.
"""
import json, os, re, shutil, subprocess, collections
from concurrent.futures import ThreadPoolExecutor
from pathlib import Path
import rig
from rig import Infra

META = {
    "title": "PanicFlow",
    "engine": "PanicFlow",
    "technique": "TLA+ reference semantics of defer/panic/recover + Stop/Fatal on one goroutine, and a branch-by-branch "
                 "transcription of the VM's calls-stack status machine (OpDefer/OpRecover/OpReturn/nextCall/callNative/"
                 "convertPanic); TLC builds every program of the bounded space while running it, model-checks both "
                 "machines, exports every terminal behaviour as a closed program; a Go driver concretises each program "
                 "as Go functions / closures / native callbacks / template blocks / imported macros and runs it through "
                 "the public API under a host recover; a TLC Trace spec recomputes the reference observable from the "
                 "program and judges prints, recover results, outcome (Stop error identity, Fatal value, PanicError), "
                 "panic chain with recovered flags, path and line",
    "level": "model_checking",
    "level_text": "TLC explores every program over the statement alphabet (print, call, defer, panic, recover, defer recover(), "
                  "Stop, Fatal, directly deferred println/panic/Stop/Fatal) within the bounds recorded in evidence, checks the "
                  "invariants of the reference (Stop/Fatal are final, the panic list covers the panicking frames, replaying the built "
                  "program reproduces the observable) and of the transcribed VM machine, and records for every program whether the VM "
                  "machine agrees with the reference. Every program (plus seeded random larger ones) is executed by the real code in "
                  "3-5 source shapes and each run is judged by TLC against the reference.",
    "level_note": "Trusted: TLC, the Json module, the driver's concretisers (statement -> source line bookkeeping) and recorder. "
                  "One goroutine only; values are ints; runtime faults other than panic(k) are C05's; method declarations are rejected by "
                  "Scriggo ('not supported in this release'), so there is no method shape; OpTailCall is never emitted by the "
                  "compiler, so the tailed status is unreachable. The reference was audited against gc (C12_GC_AUDIT=1) on every generated "
                  "program that has no Stop/Fatal; gc is otherwise consulted only on the violation path (oracle guard).",
    "design_ref": "7/C12, 7/C01 item 2, Appendix D",
}

# Defects demonstrated by this check on the unchanged repository (see the family report).  Signatures are computed by
# Trace_PanicFlow.SigOf: cause = root cause as diagnosed by the transcribed VM machine (or the symptom when it does not explain it).
_PROPOSED_BY_THE_BUILD = [
    {"kind": "known", "signature": {"fam": "panicflow", "cause": "position-empty"},
     "what": "PanicError.Path() is \"\" and Position() is zero for every panic(v): runtime.newPanic reads InstructionInfo[vm.pc] "
             "after vm.pc was advanced past the Panic instruction (internal/runtime/errors.go newPanic; fix: vm.pc-1)"},
    {"kind": "known", "signature": {"fam": "panicflow", "cause": "stale-recovered-link", "got": "panic", "ref": "panic"},
     "what": "PanicError chain keeps a stale (value, recovered=true) link: nextCall `case returned, recovered` swaps in the next "
             "pending deferred call before popping the recovered panic; if that call panics the finished panic is still linked "
             "(defer f1(); defer f2(); panic(1); f2 recovers, f1 panics 2 -> chain (2)(1 recovered), gc: panic: 2)"},
    {"kind": "known", "signature": {"fam": "panicflow", "cause": "native-defer-while-panicking", "explained": True},
     "what": "a native/builtin function deferred directly (defer println(8), defer ext.Stop(e), defer panic(2)) that runs while the "
             "goroutine is panicking: nextCall's panicked case calls it in place and continues the loop below the panicked frame - "
             "Run crashes with a nil pointer dereference (vm.fn == nil in callNative / `case deferred` / convertPanic) or the caller "
             "is resumed as if the panicking function had returned (statements after the call run, Stop/Fatal/ok outcomes instead of the PanicError)"},
    {"kind": "known", "signature": {"fam": "panicflow", "cause": "native-defer-while-panicking", "variant": "callback", "got": "hostpanic"},
     "what": "the same defect inside the nested VM that runs a Scriggo function called back from native code: after the "
             "directly deferred native call nextCall reaches `case deferred` with vm.fn == nil (nil pointer dereference -> host panic)"},
    {"kind": "known", "signature": {"fam": "panicflow", "cause": "recovered-pop-miscount", "explained": True},
     "what": "after a recover nextCall pops panics until their number equals the number of panicked frames; a frame whose panic was "
             "aborted by a newer panic of one of its deferred calls holds two panics, so an active panic is popped too: "
             "main: defer f2(); defer f3(); panic(1) | f3: panic(2) | f2: defer f4(); panic(1) | f4: recover() - Run returns "
             "PanicError 1 with no chain instead of PanicError 2 with chain (2)(1) (gc: panic: 1, panic: 2)"},
    {"kind": "known", "signature": {"fam": "panicflow", "cause": "native-defer-raises-at-return", "got": "hostpanic"},
     "what": "a directly deferred native call that panics or calls Fatal when the function returns normally (defer panic(2); "
             "defer ext.Fatal(v)) leaves Run as a host panic (with 2 / with a *fatalError wrapping v) instead of a *PanicError / v: "
             "convertPanic only classifies native panics under OpCallNative/OpCallIndirect, here the instruction is OpReturn"},
    {"kind": "known", "signature": {"fam": "panicflow", "variant": "callback", "cause": "callback-panic-escapes", "got": "hostpanic"},
     "what": "a panic that leaves a Scriggo function called back from native code (callable.Value wrapper) is turned into a "
             "fatalError and leaves Run as a host panic with the panic text, even when a deferred function of the caller would recover it"},
]

FAMS = ["panicflow"]
CORE = ["print", "call", "defer", "panic", "recover", "drecover", "stop", "fatal"]
NATIVE = ["dprint", "dpanic", "dstop", "dfatal"]
MC_INVS = ["RefPanicsCoverFrames", "RefRecoveredIsRunning", "RefEndIsFinal", "ReplayConsistent", "RefOutcomeOK",
           "VmRecoveredHasPanic", "VmChainCoversPanicked", "VmIndexOK", "VmEndIsFinal", "Export"]
MC_PROPS = ["RefFrozenAfterEnd"]
SHARD = 6000
WORKDIR_GC = "gc"


def configs(ctx):
    """bounded program spaces explored exhaustively in ONE TLC run: (name, MaxStmts, MaxDepth, MaxNative, Forms)"""
    if ctx.quick:
        return [("core", 4, 3, 0, set(CORE)),
                ("flow", 5, 3, 0, {"defer", "panic", "recover"}),
                ("native", 3, 3, 2, set(CORE + NATIVE))]
    return [("core", 5, 3, 0, set(CORE)),
            ("flow", 7, 3, 0, {"defer", "panic", "recover"}),
            ("native", 4, 3, 2, set(CORE + NATIVE))]


def variants(ctx, space="core"):
    """source shapes each program is run in.  The pure control-flow space (defer/panic/recover only, the largest programs) is run
    as Go functions and as template blocks; the core space in four shapes (function literals are covered by the template shape and
    by the quick tier), the native space and the random programs in every shape.  (Method declarations are rejected by Scriggo -
    'not supported in this release' - so there is no method shape.)"""
    if ctx.quick:
        return ["func", "closure", "template"]
    if space == "flow":
        return ["func", "template"]
    if space == "core":
        return ["func", "callback", "template", "tmacro"]
    return ["func", "closure", "callback", "template", "tmacro"]


CASE_RE = re.compile(r'^<<"CASE", (".*")>>$')


def model_check(ctx, cfgs):
    wd = ctx.stage("mc", FAMS)
    consts = {"MaxDepth": cfgs[0][2]}
    for i in range(4):         # a cfg file cannot hold tuples: four fixed slots, unused ones have Stmts = 0
        c = cfgs[i] if i < len(cfgs) else ("", 0, 0, 0, set())
        consts.update({f"Stmts{i+1}": c[1], f"Native{i+1}": c[3], f"Forms{i+1}": c[4]})
    rig.write_cfg(wd / "MC_PanicFlow.cfg", spec="Spec", constants=consts,
                  invariants=MC_INVS, properties=MC_PROPS)
    r = ctx.tlc(wd, "MC_PanicFlow", workers=rig.NCPU, timeout=1500, coverage=not ctx.quick, must_pass=True)
    cases = []
    for line in r.out.splitlines():
        m = CASE_RE.match(line)
        if m:
            cases.append(json.loads(json.loads(m.group(1))))
    if not cases:
        raise Infra(f"MC_PanicFlow exported no case: {wd}/MC_PanicFlow.out")
    return cases, r


def judge(ctx, step, records, per_sig=6):
    """Trace_PanicFlow over the records, sharded and in parallel.  Returns (bad entries, stats)."""
    size = min(SHARD, max(2000, -(-len(records) // 8)))
    shards = [records[i:i + size] for i in range(0, max(len(records), 1), size)]

    def one(k):
        part = shards[k]
        wd = ctx.stage(f"{step}_{k}", FAMS)
        rig.write_ndjson(wd / "obs.ndjson", part)
        for f in ("bad.ndjson", "stats.ndjson"):
            if (wd / f).exists():
                (wd / f).unlink()
        rig.write_cfg(wd / "Trace_PanicFlow.cfg", constants={"PerSig": per_sig}, invariants=["Done"], postcondition="Consumed")
        r = ctx.tlc(wd, "Trace_PanicFlow", workers=1, timeout=1500)
        if not r.ok or not (wd / "bad.ndjson").exists() or not (wd / "stats.ndjson").exists():
            raise Infra(f"Trace_PanicFlow did not complete cleanly: {wd}/Trace_PanicFlow.out\n" + rig.tail(r.out, 25))
        bads = rig.read_ndjson(wd / "bad.ndjson")
        for b in bads:
            b["obs"] = part[b["k"] - 1]
        return bads, rig.read_ndjson(wd / "stats.ndjson")[0]

    with ThreadPoolExecutor(max_workers=min(8, len(shards))) as ex:
        res = list(ex.map(one, range(len(shards))))
    bads, counts, undef = [], collections.Counter(), 0
    for b, st in res:
        bads += b
        undef += st["ref_undefined"]
        for c in st["counts"]:
            counts[json.dumps(c["sig"], sort_keys=True)] += c["n"]
    return bads, {"ref_undefined": undef, "counts": counts}


def show(prog):
    return " | ".join(" ; ".join(s["op"] + (" %d" % s["a"] if s["op"] not in ("recover", "drecover") else "") for s in b) for b in prog)


def sample(o):
    return {"prog": show(o["prog"]),
            "runs": [{"variant": r["variant"], "out": r["out"], "outcome": r["outcome"],
                      "chain": [[c["v"], c["rec"], c["path"], c["line"]] for c in r["chain"]]} for r in o["runs"] if r["built"]][:2]}


def bad_key(b):
    return (b["id"], b["obs"]["runs"][b["run"] - 1]["variant"], json.dumps(b["sig"], sort_keys=True))


# ------------------------------------------------------------------------------------------------ gc (oracle guard / audit)
GC_HEAD = """package main

import "os"

func xP(k int) { println(k) }
func xR(v any) {
	if v == nil {
		println(100)
	} else {
		println(100 + v.(int)%1000)
	}
}
func xDo(f func()) { f() }

"""


def has_env_stmt(prog):
    return any(s["op"] in ("stop", "fatal", "dstop", "dfatal") for b in prog for s in b)


def gc_observe(ctx, cases, tag):
    """Runs the programs (no Stop/Fatal) with the gc toolchain, one process per program, and returns observation
    records with a single run of variant "gc" for the Trace spec to judge."""
    cases = [c for c in cases if not has_env_stmt(c["prog"])]
    if not cases:
        return []
    d = ctx.work / WORKDIR_GC / tag
    if d.exists():
        shutil.rmtree(d)
    d.mkdir(parents=True)
    cin, cout = d / "cases.ndjson", d / "src.ndjson"
    rig.write_ndjson(cin, [{"id": c["id"], "prog": c["prog"], "variants": []} for c in cases])
    ctx.drive("c12", cin, cout, args=["-gcsrc", "-variants", "func"])
    srcs = rig.read_ndjson(cout)
    (d / "go.mod").write_text("module gcprobe\n\ngo 1.25.0\n")
    parts = [GC_HEAD] + [s["gcsrc"] for s in srcs]
    parts.append("var progs = map[string]func(){\n" + "".join(f'\t"{s["id"]}": {s["gcmain"]},\n' for s in srcs) + "}\n\n"
                 "func main() { progs[os.Args[1]]() }\n")
    (d / "main.go").write_text("\n".join(parts))
    p = subprocess.run(["go", "build", "-gcflags=-N -l", "-o", "prog", "."], cwd=d, env=rig.goenv(), stdout=subprocess.PIPE,
                       stderr=subprocess.STDOUT, text=True)
    if p.returncode != 0:
        raise Infra("gc build of the oracle program failed:\n" + rig.tail(p.stdout, 20))

    def run(s):
        q = subprocess.run([str(d / "prog"), str(s["id"])], stdout=subprocess.PIPE, stderr=subprocess.PIPE, text=True, timeout=60)
        out, chain, in_panic = [], [], False
        for line in q.stderr.splitlines():
            m = re.match(r"^\t?panic: (-?\d+)( \[recovered(, repanicked)?\])?$", line)
            if m:
                in_panic = True
                v = int(m.group(1)) % 1000          # every panic statement of the gc rendering has its own value k + 1000*u
                if m.group(3):                      # (gc merges equal consecutive values into one line: cannot happen)
                    raise Infra(f"gc merged two panics of program {s['id']}: {line!r}")
                chain.append({"v": v, "rec": bool(m.group(2))})
            elif not in_panic and re.match(r"^-?\d+$", line):
                out.append(int(line))
            elif not in_panic:
                raise Infra(f"unexpected gc output for program {s['id']}: {line!r}")
            elif line.startswith("goroutine ") or line == "":
                break
        outcome = "panic" if chain else "ok"
        if (q.returncode == 0) != (outcome == "ok"):
            raise Infra(f"gc exit status {q.returncode} does not match its output for program {s['id']}")
        chain = [dict(c, path="", line=0) for c in reversed(chain)]       # gc prints oldest first
        nf = len(s["prog"])
        return {"id": s["id"], "prog": s["prog"],
                "runs": [{"variant": "gc", "built": True, "out": out, "outcome": outcome, "val": 0, "chain": chain,
                          "lines": [[0] * len(b) for b in s["prog"]], "paths": [""] * nf, "pkgs": [""] * nf, "after": 0, "ends": 0,
                          "dclass": ""}]}

    with ThreadPoolExecutor(max_workers=rig.NCPU) as ex:
        return list(ex.map(run, srcs))


# ------------------------------------------------------------------------------------------------ sensitivity self-test
def corruptions(allobs):
    """copies of real observations with one property-relevant field falsified; each must be rejected"""
    out = []

    def pick(pred):
        for o in allobs:
            for i, r in enumerate(o["runs"]):
                if r["built"] and pred(o, r):
                    c = json.loads(json.dumps(o))
                    c["runs"] = [c["runs"][i]]
                    return c
        return None

    c = pick(lambda o, r: r["outcome"] == "stop" and r["after"] == 0 and len(o["prog"]) >= 2)
    if c:   # a deferred call "ran" after Stop
        c["id"] = 900001
        c["runs"][0]["out"] = c["runs"][0]["out"] + [7]
        c["runs"][0]["after"] = 1
        out.append((c, {"ran-after-end"}))
    c = pick(lambda o, r: r["outcome"] == "stop")
    if c:   # Run returned another error than the one given to Stop
        c["id"] = 900002
        c["runs"][0]["val"] = 2
        out.append((c, {"outcome"}))
    c = pick(lambda o, r: r["outcome"] == "panic" and len(r["chain"]) >= 2 and r["chain"][1]["rec"])
    if c:   # recovered flag lost
        c["id"] = 900003
        c["runs"][0]["chain"][1]["rec"] = False
        out.append((c, {"chain"}))
    c = pick(lambda o, r: r["outcome"] == "panic" and len(r["chain"]) >= 2)
    if c:   # a chain link lost
        c["id"] = 900004
        c["runs"][0]["chain"] = c["runs"][0]["chain"][:-1]
        out.append((c, {"chain"}))
    c = pick(lambda o, r: r["outcome"] == "ok" and len(r["out"]) >= 2 and r["out"][-1] != r["out"][-2])
    if c:   # two events swapped
        c["id"] = 900005
        o_ = c["runs"][0]["out"]
        o_[-1], o_[-2] = o_[-2], o_[-1]
        out.append((c, {"output"}))
    c = pick(lambda o, r: r["outcome"] == "panic" and r["chain"] and r["chain"][0]["line"] > 0)
    if c:   # wrong line (only possible when the tree reports positions at all)
        c["id"] = 900006
        c["runs"][0]["chain"][0]["line"] += 1
        out.append((c, {"position-wrong"}))
    c = pick(lambda o, r: r["outcome"] == "fatal")
    if c:   # Fatal turned into a returned error
        c["id"] = 900007
        c["runs"][0]["outcome"] = "error"
        out.append((c, {"outcome"}))
    return out


# ------------------------------------------------------------------------------------------------ main entry points
def run(ctx, only_cases=None):
    import time
    os.environ.setdefault("JAVA_TOOL_OPTIONS", "-XX:ParallelGCThreads=4")
    vs = variants(ctx)
    stage_s = ctx.cov.setdefault("stage_wall_s", {})
    t_last = [time.time()]

    def lap(name):
        stage_s[name] = round(time.time() - t_last[0], 1)
        t_last[0] = time.time()

    # 1. model check + case export
    if only_cases is None:
        cfgs = configs(ctx)
        cs, r = model_check(ctx, cfgs)
        by_prog, cases, model = {}, [], collections.Counter()
        per_space = collections.Counter()
        for c in cs:
            per_space[cfgs[c["space"] - 1][0]] += 1
            key = json.dumps(c["prog"])
            if key in by_prog:
                continue
            by_prog[key] = c
            cases.append({"id": len(cases) + 1, "prog": c["prog"], "variants": variants(ctx, cfgs[c["space"] - 1][0])})
            if not c["agree"]:
                model["flow:" + (c["why"] or "unlabelled")] += 1
            elif not c["agreepos"]:
                model["position"] += 1
        ctx.cov.update(states=r.distinct, transitions=r.generated, mc_wall_s=round(r.wall, 1),
                       mc_properties=[i for i in MC_INVS if i != "Export"] + MC_PROPS,
                       bounds={c[0]: {"MaxStmts": c[1], "MaxDepth": c[2], "MaxNative": c[3], "Forms": sorted(c[4])} for c in cfgs},
                       programs_per_space=dict(per_space), programs_exported=len(cases),
                       # design-level result: on how many programs the transcribed VM machine departs from the reference
                       # (diagnostic; the verdicts below come from the real code)
                       model_counterexample=dict(model))
        if not ctx.quick:
            ctx.cov["actions_never_taken"] = r.coverage_zero()
        extra = ctx.pick(400, 6000)
    else:
        cases, extra, by_prog = only_cases, 0, {}
    lap("model_check")

    # 2. replay into the real code
    cin = ctx.work / "cases.ndjson"
    rig.write_ndjson(cin, cases)
    obs = ctx.work / "obs.ndjson"
    ctx.drive("c12", cin, obs, args=["-extra", extra, "-variants", ",".join(vs)], timeout=1200)
    allobs = rig.read_ndjson(obs)
    nruns = sum(1 for o in allobs for r in o["runs"] if r["built"])
    notbuilt = collections.Counter(r["variant"] for o in allobs for r in o["runs"] if not r["built"])
    # values that are not ints (a recover() result of another type is logged as 199 and judged like any other output)
    ctx.cov["runs_with_unrecognised_values"] = sum(1 for o in allobs for r in o["runs"] if r.get("strange"))
    for v in vs:
        if notbuilt.get(v, 0) > 0:
            ex_ = next(r for o in allobs for r in o["runs"] if r["variant"] == v and not r["built"])
            raise Infra(f"concretiser problem: {notbuilt[v]} {v} programs do not build: {ex_.get('builderr')}")
    lap("drive")

    # 3. judge
    bads, stats = judge(ctx, "trace", allobs)
    lap("judge")
    nontrivial = {json.dumps(o["prog"]) for o in allobs
                  if any(s["op"] in ("panic", "dpanic", "stop", "fatal", "dstop", "dfatal") for b in o["prog"] for s in b)}
    ctx.cov.update(evaluations=nruns, traces_validated_against_impl=nruns, programs=len(allobs), extra_random_programs=extra,
                   variants=vs, dropped_shapes_not_built=dict(notbuilt), ref_undefined=stats["ref_undefined"],
                   distinct_nontrivial=len(nontrivial),
                   rule="every program the environment can build within the bounds (exhaustive, exported from TLC's terminal states), "
                        "plus seeded random programs of 6-12 statements, each run in every source shape; non-trivial = the program "
                        "contains a panic, Stop or Fatal statement",
                   exhaustive=True, judged_bad_runs_by_signature={k: v for k, v in sorted(stats["counts"].items())},
                   samples=[sample(o) for o in rig.pick_samples(allobs, 4, ctx.seed)])
    unexplained = sum(n for k, n in stats["counts"].items() if not json.loads(k)["explained"] and json.loads(k)["variant"] != "callback"
                      and json.loads(k)["cause"] not in ("position-empty", "position-wrong"))
    if by_prog:
        ctx.cov["model_drift"] = {
            "real_misbehaviour_not_predicted_by_model_runs": unexplained,
            "programs_where_model_predicts_flow_divergence": sum(1 for c in by_prog.values() if not c["agree"]),
            "runs_with_flow_divergence_observed": sum(n for k, n in stats["counts"].items()
                                                      if json.loads(k)["cause"] not in ("position-empty", "position-wrong"))}

    # 4. one more Trace run judges, together: the failing cases re-executed in a fresh process (reproduction guard), the same
    #    programs run by gc (oracle guard, violation path only), and the corrupted observations of the sensitivity self-test
    by_sig = collections.OrderedDict()
    for b in bads:
        by_sig.setdefault(json.dumps(b["sig"], sort_keys=True), []).append(b)
    chosen = [b for lst in by_sig.values() for b in lst[:ctx.pick(4, 8)]]
    second, confirmed, disputed = [], [], set()
    if chosen:
        ids, ccases = set(), []
        for b in chosen:
            if b["id"] not in ids:
                ids.add(b["id"])
                ccases.append({"id": b["id"], "prog": b["obs"]["prog"], "variants": [r["variant"] for r in b["obs"]["runs"]]})
                # (same shapes, same order as in the first pass, so that run indices correspond)
        cc, co = ctx.work / "confirm_cases.ndjson", ctx.work / "confirm_obs.ndjson"
        rig.write_ndjson(cc, ccases)
        ctx.drive("c12", cc, co, args=["-variants", ",".join(vs)])
        second += rig.read_ndjson(co)
        gsel = {}
        for lst in by_sig.values():
            for b in lst[:2]:
                gsel.setdefault(b["id"], {"id": b["id"], "prog": b["obs"]["prog"]})
        gobs = gc_observe(ctx, list(gsel.values()), "guard")
        second += gobs
    st = corruptions(allobs) if only_cases is None else []
    if only_cases is None and len(st) < 3:
        raise Infra("sensitivity self-test: not enough observations to corrupt")
    second += [c for c, _ in st]
    lap("confirm_drive_and_gc")
    if second:
        b2, _ = judge(ctx, "trace_second", second, per_sig=1000000)
        keys2 = {bad_key(b) for b in b2 if not (900000 <= b["id"] < 1000000) and b["obs"]["runs"][0]["variant"] != "gc"}
        confirmed = [b for b in chosen if bad_key(b) in keys2]
        ctx.cov["unreproduced"] = len(chosen) - len(confirmed)
        if chosen:
            disputed = {b["id"] for b in b2 if b["obs"]["runs"][0]["variant"] == "gc"}
            ctx.cov["oracle_guard"] = {"programs_run_by_gc": len(gobs), "oracle_disputed": len(disputed)}
        if disputed:
            confirmed = [b for b in confirmed if b["id"] not in disputed]
            ctx.cov["oracle_disputed_ids"] = sorted(disputed)[:20]
        if st:
            rejected = sum(1 for c, causes in st if any(b["id"] == c["id"] and b["sig"]["cause"] in causes for b in b2))
            ctx.cov["sensitivity_selftest"] = {"corrupted": len(st), "rejected": rejected,
                                               "kinds": [sorted(x)[0] + ":" + str(c["id"]) for c, x in st]}
            if rejected < len(st):
                raise Infra(f"sensitivity self-test failed: {len(st)} corrupted observations, {rejected} rejected for the right reason")
    lap("second_judge")
    totals = stats["counts"]
    for b in confirmed:
        r = b["obs"]["runs"][b["run"] - 1]
        b["what"] = {"prog": show(b["obs"]["prog"]), "variant": r["variant"],
                     "got": {"out": r["out"], "outcome": r["outcome"], "val": r["val"], "detail": r.get("detail", ""),
                             "chain": [[c["v"], c["rec"], c["path"], c["line"]] for c in r["chain"]], "after": r["after"]},
                     "demanded": b["ref"], "runs_with_this_signature": totals.get(json.dumps(b["sig"], sort_keys=True))}

    # optional development-time audit of the reference against gc over the whole deterministic case set
    if os.environ.get("C12_GC_AUDIT") and only_cases is None:
        gobs = gc_observe(ctx, cases + [{"id": o["id"], "prog": o["prog"]} for o in allobs if o["id"] >= 1000000], "audit")
        gb, _ = judge(ctx, "trace_audit", gobs)
        ctx.cov["gc_audit"] = {"programs": len(gobs), "reference_disagrees_with_gc": len(gb),
                               "examples": [show(b["obs"]["prog"]) for b in gb[:5]]}
        if gb:
            raise Infra(f"gc audit: the reference disagrees with gc on {len(gb)} programs, e.g. {show(gb[0]['obs']['prog'])} "
                        f"gc={gb[0]['obs']['runs'][0]['out']},{gb[0]['obs']['runs'][0]['chain']} ref={gb[0]['ref']}")
        lap("gc_audit")

    def rw(rdir, b):
        (rdir / "case.json").write_text(json.dumps({"id": b["id"], "prog": b["obs"]["prog"],
                                                    "variants": [b["obs"]["runs"][b["run"] - 1]["variant"]]}))
        (rdir / "obs.json").write_text(json.dumps(b["obs"]))
    return ctx.report(confirmed, replay_writer=rw)


def replay(ctx, path):
    c = json.loads((Path(path) / "case.json").read_text())
    return run(ctx, only_cases=[{"id": c["id"], "prog": c["prog"], "variants": c.get("variants") or ["func"]}])


# the findings of this check are in known-findings.json (kind "known" / "fixed"); _PROPOSED_BY_THE_BUILD documents the original list
PROPOSED_KNOWN = []

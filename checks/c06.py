"""C06 - autoescaping confines every shown untrusted value to its syntactic slot (DESIGN 7/C06)."""
import json, re, shutil, collections
from concurrent.futures import ThreadPoolExecutor
import rig
from rig import Infra

META = {
    "engine": "AEProduct(AELexer x AEHTMLTok/AEJSLex/AECSSLex)+AEHist+AEMd+AEBlock+AEContext+AEConfine",
    "technique": "TLA+ product automaton of an implementation-shaped model of lexer.scan and a reference WHATWG-HTML/JavaScript/CSS/JSON tokenizer, explored by TLC over a fragment alphabet to the fix-point of the region where the two machines are in step (documents of unbounded length) plus a bounded number of fragments behind every root cause; the shortest document of every product state is built by the real code with a show at every fragment boundary (real ast.Show contexts judged against the reference slots by TLC: candidates and root causes) and every transition out of a synchronised state is replayed against the real lexer; holes of every (context, slot, root cause) class are rendered with a context-breaking value dictionary, and TLC tokenises every rendered output with the reference tokenizers and compares its structure signature with that of the benign rendering. Two further case spaces are enumerated by TLC: documents with SEVERAL shows (pairs of attribute segments, the renderer's URL state being entered and left by shows and by text; one show is probed, the others are benign), and Markdown template files (every sequence of up to 3 fragments of a Markdown alphabet, holes at every boundary), whose outputs are converted by a CommonMark converter and compared by the structure of the conversion. Every hole class is also reached through macros with an explicit result type of every format and macros imported from files of every other format. A fourth case space, enumerated by TLC, puts a probed show in and behind the bodies of macro declarations and using statements in every spelling of the opening and of the end statement, nested to depth 2 (the lexer's stack of saved contexts), with a transcription of lexCode's stack checked against the reference beside it",
    "level": "model_checking",
    "level_text": "MC_AEProduct: TLC explores the product of AELexer (lexer.scan transcribed branch by branch) and the reference tokenizers; quick: HTML files, 16 fragments, unbounded behind a root cause; thorough: HTML files with 63 fragments (2 fragments behind a root cause) and 26 fragments (4 behind, product states behind different classes of root causes kept apart), JS, CSS and JSON files with 20/16/12 fragments. States that neither agree nor are confinement-compatible are breaking edges (diagnostic). Context level: the documents form a prefix tree; every node is built by the real lexer with `{{ x }}` appended and Trace_AEContext steps the reference over the tree and computes Agree / Compatible / root cause per node; the context AELexer predicts after every transition out of a synchronised state is compared with the real one (model drift; drifted documents are continued by two more fragments). Confinement level (the verdict): for every reachable (context, URL, slot, attribute kind, root cause) class one hole at the end of a document and up to 2 (quick) / 6 (thorough) holes in front of different next fragments are rendered with ~135 values (strings incl. Markdown syntax, numbers, booleans, Stringer, error, slices, maps, structs; the trusted types as negative control), directly, through a macro, an in-place macro, an imported macro and rendered .html/.txt files, and through macros with the result types string/html/css/js/json/markdown and macros imported from .html/.md/.js/.css/.json/.txt files (every pair of macro format and context format); Trace_AEConfine requires Signature(output with value) = Signature(output with the benign value of the same type and shape). MC_AEHist: TLC enumerates the documents `segment` and `segment segment` over attribute segments open-value-close (quick: <a href=\", <a href=, <div title=', <p title= x values of up to 2 pieces of {show, x, ?}; thorough: 6 opens incl. single-quoted and srcset, pieces {show, x, ?, &, #}, optionally a show in text between the segments), checks them well formed with the reference tokenizer, and every show of the last segment is probed with the attribute part of the dictionary while the other shows are benign (same verdict predicate; the signature names what the renderer did before). MC_AEMd: TLC enumerates every sequence of at most 3 fragments of a Markdown alphabet (quick 13, thorough 19 fragments: text, line ending, blank line, heading / quote / list markers, four spaces, tab, fence line, * _ ` [ ]( ) http://e/ <a href=\" \"; no tag open across a line ending) and labels the position at the end of each (block x inline construct); the real context of a hole there is read off the real lexer; holes are selected per (real context, label) and rendered like the others; for a Markdown file the driver also logs the CommonMark conversion of every output (goldmark, raw HTML kept) and Trace_AEConfine compares the signatures of the conversions (without the tags p and br: the layout of text in lines and paragraphs is not structure). MC_AEBlock: TLC enumerates the documents `block probe use` with block = open `1 ` [open `1 ` probe close use] probe close; open: {% macro N() R %}, {% macro N R %}, {% show itea; using R %}, {% var v = itea; using R %}, {% show itea(); using macro() R %} (R: no type, string, html, css, js, json, markdown), and {% if %}, {% for %}, {% switch %}{% case %}, {% select %}{% default %}, {% raw %}, {% L: for %}; close: {% end %} or {% end <keyword of the opening> %} (all the spellings the parser accepts); use: the call {{ N() }} / {{ v }} that makes the body appear, inside an element of the body's format; quick: an HTML file, outer macro/show/var/showm x {no type, string, one more type chosen by the seed} x inner {nothing, show, if, raw, labeled for} (216 documents, 576 probes); thorough: all 11 kinds x 7 types outside x 8 kinds x 3 types inside in an HTML file, a reduced set inside a script element and in .md/.js/.css/.json files (4612 documents, 13024 probes). One probe per case (behind the block, in the outer body behind the inner block, in the inner body) is rendered with 30 values of the dictionary and judged by the same predicate; the context the real lexer gives to the probe is read off the real code and is part of the signature; for every case TLC also computes the format the template places the probe in (reference) and the context after lexCode's push/pop rules (model): differences between the three are reported as diagnostics.",
    "level_note": "Trusted: TLC, the Json module, the reference tokenizers themselves (WHATWG tokenizer with the tree builder's tokenizer switches, without foreign content and noscript; character references are decoded only inside event-handler and style attribute values (numeric and amp/lt/gt/quot/apos); JavaScript lexical grammar with the usual regex heuristic; css-syntax token boundaries), the driver (concretises documents, calls BuildTemplate/Run, reads ast.Show.Context in ExpandedTransformer, logs). URL structure inside URL attributes is not part of the signature; JS/CSS/JSON files only in the thorough tier; the bodies of the block documents (MC_AEBlock) contain only the text `1 ` (no markup that changes the context inside a body), blocks are nested to depth 2, and only .html files are used in the quick tier; {% extends %} and {%% %%} blocks are not generated. Markdown files: goldmark (plain CommonMark, html.WithUnsafe) is trusted as the CommonMark parser the property names; there is no implementation-shaped model of the Markdown part of lexer.scan (scanCodeBlock, URL detection) and no product exploration: the label of a position (MC_AEMd) is coarse and only selects and names holes; GFM extensions (tables, strikethrough, bare-URL autolinks) are not judged; documents with several shows are attribute segments of HTML files only.",
    "design_ref": "7/C06",
}
FAMS = ["autoescape"]
QUICK_FRAGS = list(range(1, 17))
FULL_FRAGS = list(range(1, 64))
VIAS = ["macro", "macroin", "import", "render", "rendertxt"]
# a macro with an explicit result type (its body is a template of that format) and a macro imported from a file of
# another format, shown at the hole: every (format of the macro, format of the context of the call) pair
XVIAS = ["macro:string", "macro:html", "macro:css", "macro:js", "macro:json", "macro:markdown",
         "import:html", "import:md", "import:js", "import:css", "import:json", "import:txt"]
EXT = {"HTML": "html", "JS": "js", "CSS": "css", "JSON": "json", "MD": "md"}
# second case space (MC_AEHist): documents with several shows; constants of the quick / thorough tier
HIST_Q = {"HOpen1": {3, 58, 4}, "HLen1": 2, "HOpen2": {3, 58, 4, 61}, "HLen2": 2, "HPieces": {13, 49}, "HMiddle": {0}, "HProbeAll": False}
HIST_T = {"HOpen1": {3, 63, 58, 23, 4, 61}, "HLen1": 2, "HOpen2": {3, 63, 58, 23, 4, 61}, "HLen2": 2, "HPieces": {13, 49, 50, 51},
          "HMiddle": {0, 1}, "HProbeAll": False}
# Markdown files (MC_AEMd): fragments and maximal number of fragments of a document
MD_Q = {"MdUse": {13, 14, 65, 64, 66, 67, 53, 28, 35, 71, 38, 3, 7}, "MdLen": 3}
MD_T = {"MdUse": {13, 14, 65, 64, 66, 67, 53, 28, 35, 71, 38, 3, 7, 12, 68, 69, 70, 72, 73}, "MdLen": 3}
# fourth case space (MC_AEBlock): the lexer's context stack around macro declarations, using statements and the block
# statements inside them.  quick: one run (HTML file; result types: none, string and one more, rotated by the seed);
# thorough: every kind and type outside x a reduced set inside, the same inside a script element, and files of the other formats
BLOCK_TYPES = ["html", "css", "js", "json", "markdown"]
BLOCK_KINDS = {"macro", "macrob", "show", "var", "showm", "if", "for", "switch", "select", "raw", "lfor"}


def block_runs(ctx):
    def c(fmt, places, outer, otypes, inner, itypes):
        return {"BFmt": fmt, "BPlaces": set(places), "BOuter": set(outer), "BOuterTypes": set(otypes), "BInner": set(inner), "BInnerTypes": set(itypes)}
    if ctx.quick:
        return [("block", c("HTML", "F", ["macro", "show", "var", "showm"], ["none", "string", BLOCK_TYPES[ctx.seed % len(BLOCK_TYPES)]],
                            ["show", "if", "raw", "lfor"], ["none"]))]
    alltypes = ["none", "string"] + BLOCK_TYPES
    runs = [("block", c("HTML", "F", BLOCK_KINDS, alltypes, ["macro", "show", "var", "showm", "if", "switch", "raw", "lfor"], ["none", "string", "js"])),
            ("block_s", c("HTML", "S", ["show", "var", "showm", "if", "raw", "lfor"], ["none", "string", "html", "js"], ["show", "if", "raw", "lfor"], ["none", "string"]))]
    for fmt in ("MD", "JS", "CSS", "JSON"):
        runs.append(("block_" + fmt.lower(), c(fmt, "F", ["macro", "macrob", "show", "var", "showm"], ["none", "string", "html", "js"],
                                               ["macro", "show", "if", "raw", "lfor"], ["none", "string"])))
    return runs


CN = {0: "Text", 1: "HTML", 2: "CSS", 3: "JS", 4: "JSON", 5: "Markdown", 6: "Tag", 7: "QuotedAttr", 8: "UnquotedAttr",
      9: "CSSString", 10: "JSString", 11: "JSONString", 12: "TabCodeBlock", 13: "SpacesCodeBlock", -2: "inert"}

# Findings demonstrated on the unchanged tree (each at the confinement level, see the report); the
# integrator moves them into known-findings.json.  Patterns are sub-dict matches on the signature
# computed by Trace_AEConfine; `root` is the breaking edge (class of the last agreeing boundary + fragment).
def _k(what, **sig):
    return {"kind": "known", "signature": dict(sig, fam="autoescape"), "what": what}


def _root(**r):
    return r


END_SCRIPT = rig.s2b("</script>")
END_SCRIPT_SP = rig.s2b("</script ")
_PROPOSED_BY_THE_BUILD = [
    # -- lexer design limitations named in DESIGN 9 #10 (root cause = what the two machines are in after the breaking edge)
    _k("lexer.scan does not know JavaScript regular-expression literals: after `/` where a regex may start (also `</` in code) it stays in JS code, so quotes, `/` and `[` inside the literal desynchronise it and values shown there are written as quoted strings",
       root=_root(to="js-regex")),
    _k("lexer.scan does not know JavaScript template literals: inside `...` it stays in JS code (values are written as \"...\" strings that keep ` and ${) and quotes inside the literal desynchronise it",
       root=_root(to="js-template")),
    _k("lexer.scan does not know HTML comments: tags, attributes and <script> inside <!-- --> change its context, so after the comment values are escaped for the wrong context",
       root=_root(to="comment")),
    _k("lexer.scan skips <![CDATA[ ... ]]> as a CDATA section ({{ }} inside is not even lexed), but in HTML content it is a bogus comment that ends at the first `>`",
       root=_root(toctx="inert")),
    _k("lexer.scan does not know bogus comments (`<!x`, `<?`, `</` + non-letter): markup inside them changes its context",
       root=_root(to="bogus-comment")),
    _k("lexer.scan treats what follows `<` or `</` as a tag when the tokenizer does not (`</<script>`: bogus comment up to the `>` of the fragment)",
       root=_root(slot="tag-open")),
    _k("lexer.scan does not know RCDATA elements (title, textarea): markup inside them changes its context although it is text",
       root=_root(to="rcdata")),
    _k("lexer.scan does not know RAWTEXT elements (xmp, iframe, noembed, noframes): markup inside them changes its context although it is text",
       root=_root(to="rawtext")),
    _k("lexer.scan does not know <plaintext>: everything after it is text for the tokenizer",
       root=_root(to="plaintext")),
    _k("showInTag keeps spaces (and `<`): a value shown in the tag context (attribute name / tag name position) splits into several attributes",
       root="none", ctx="Tag"),
    _k("a value shown right after `<` in HTML text is only HTML-escaped: it becomes a tag name, or markup declaration / end tag / text depending on its first byte",
       root="none", ctx="HTML", slot="tag-open"),
    # -- DESIGN 9 #11: the {{ render }} fast path
    _k("{{ render \"file\" }} is emitted by the fast path of emitter_statements.go (case *ast.Show) without looking at the context of the show statement: the partial's output (raw for .txt, HTML-escaped for .html) is written unescaped into attributes, tags, scripts and strings",
       via="render"),
    _k("{{ render \"file.txt\" }} inside HTML: the fast path ignores the format, the text partial's output is written raw",
       via="rendertxt"),
    # -- further root causes found by the product exploration
    _k("JS string lexing: backslash-backslash is not an escape for lexer.scan (it only looks for backslash + quote), so in \"a\\\\\" the closing quote is taken as escaped and the lexer stays in the string (proposed fix: treat backslash + backslash like backslash + quote)",
       root=_root(ctx="JSString", toctx="JSString", to="js-code")),
    _k("JSON string lexing: backslash-backslash is not an escape for lexer.scan (see the JS string finding)",
       root=_root(ctx="JSONString", toctx="JSONString", to="json-value")),
    _k("CSS string lexing: backslash-backslash is not an escape for lexer.scan, and a raw newline does not end the string (bad-string) as it does in CSS",
       root=_root(ctx="CSSString", toctx="CSSString", to="css-code")),
    _k("lexer.scan does not know the HTML-like comments of JavaScript (`<!--`, and `-->` at the start of a line): quotes inside them open strings, comment markers inside them are honoured",
       root=_root(slot="js-comment-line")),
    _k("lexer.scan and the JS lexical grammar disagree on where a block comment is (consequence of HTML-like comments, or of `/*` after a `/` that started a regex)",
       root=_root(slot="js-comment-block")),
    _k("script data double escaped state: after `<!--<script` inside a script element `</script>` does not end the element for the tokenizer; lexer.scan leaves the JS context",
       root=_root(toctx="HTML", frag=END_SCRIPT)),
    _k("script data double escaped state (`</script` followed by a space)",
       root=_root(toctx="HTML", frag=END_SCRIPT_SP)),
    _k("lexer.scan ignores end tags: quotes in attributes of an end tag (`</x a='`) and `</script ` + attributes are text for it",
       root=_root(slot="end-tag")),
    _k("lexer.scan ignores end tags (inside a double-quoted attribute value of an end tag)", root=_root(slot="end-tag-dq")),
    _k("lexer.scan ignores end tags (inside a single-quoted attribute value of an end tag)", root=_root(slot="end-tag-sq")),
    _k("scanAttribute rejects a quote or `=` as first byte of an attribute name and skips it; the tokenizer starts an attribute there (`<a \"\"=v`)",
       root=_root(ctx="Tag", slot="attr-name", toctx="Tag", to="attr-unq")),
    _k("event-handler attributes (on...) are lexed and escaped as plain attribute values, but after character-reference decoding their value is JavaScript (`&#39;` is a quote again)",
       root=_root(tokind="event")),
    _k("style attributes are lexed and escaped as plain attribute values, but after character-reference decoding their value is CSS",
       root=_root(tokind="style")),
    _k("script elements with another JavaScript MIME type than text/javascript (application/javascript, ...) are scripts for the browser; lexer.scan treats their content as HTML",
       root=_root(toctx="HTML", to="js-code")),
    _k("the content of a script element that is a data block (type=\"text/plain\") is lexed as HTML by lexer.scan (tags and attributes in it change the context); for the tokenizer it is script data up to </script>",
       root=_root(slot="script-data")),
    _k("the content of a style element with an unknown type is lexed as HTML by lexer.scan; for the tokenizer it is raw text up to </style>",
       root=_root(slot="style-data")),
    _k("lexer.scan does not know CSS comments, url( ) tokens and backslash escapes in CSS code: quotes inside them open strings for it",
       root=_root(slot="css-code")),
    _k("scanTag ends a tag name at `{`; for the tokenizer the name goes on (`<x${=`)",
       root=_root(slot="tag-name")),
    _k("consequence of scanTag ending a tag name at `{`: what follows is an attribute for the lexer (`<x${ =`)",
       root=_root(ctx="Tag", slot="attr-name", toctx="UnquotedAttr", to="attr-name")),
    _k("lexer.scan believes it is inside a JS comment when a string literal starts (consequence of the HTML-like comments it does not know: `<!--/*` newline `\"`)",
       root=_root(ctx="JS", toctx="JS", to="js-string-dq")),
    _k("lexer.scan believes it is inside a JS comment when a string literal starts (single-quoted)",
       root=_root(ctx="JS", toctx="JS", to="js-string-sq")),
    _k("a value shown inside a JavaScript block comment is written as a quoted string that keeps `*/`",
       root="none", ctx="JS", slot="js-comment-block"),
    _k("an empty value shown as a whole unquoted attribute value leaves `name=` followed by the next attribute, which becomes its value",
       root="none", ctx="UnquotedAttr", vclass="empty"),
]


def text(frags):
    return "".join(rig.b2s(f) for f in frags)


def show_doc(frags, hole, holes=(), after=()):
    out = []
    for i in range(len(frags) + 1):
        out.append("{{ y }}" * sum(1 for h in holes if h == i and i <= hole))
        if i == hole:
            out.append("{{HOLE}}")
        out.append("{{ y }}" * sum(1 for h in after if h == i and i >= hole))
        if i < len(frags):
            out.append(rig.b2s(frags[i]))
    return "".join(out)


def case_of(o):
    """the replayable part of an observation / case"""
    c = {"id": o["id"], "fmt": o.get("fmt", "HTML"), "frags": o["frags"], "hole": o["hole"], "via": o["via"], "pt": o["pt"]}
    for k in ("holes", "after", "vset"):
        if o.get(k):
            c[k] = o[k]
    return c


# ------------------------------------------------------------------------------------------------ MC
DEEP_FRAGS = [1, 2, 3, 4, 5, 6, 7, 8, 9, 10, 11, 12, 13, 14, 16, 17, 18, 19, 20, 26, 27, 28, 29, 30, 32, 33]
# files of the other formats (thorough): fragments that matter in a .js / .css / .json file
JS_FRAGS = [2, 5, 6, 7, 8, 9, 10, 12, 13, 14, 28, 29, 30, 31, 32, 33, 34, 35, 36, 38]
CSS_FRAGS = [7, 8, 9, 10, 12, 13, 14, 18, 30, 32, 33, 34, 37, 38, 47, 60]
JSON_FRAGS = [2, 7, 8, 10, 12, 13, 14, 30, 35, 36, 47, 48]


def model_check(ctx):
    """quick: 16 fragments, exploration behind a root cause unbounded (MaxDiv = MaxDoc);
       thorough: all 63 fragments with 2 fragments behind a root cause (broad) and 26 fragments with 5 (deep)."""
    runs = ctx.pick([("mc", QUICK_FRAGS, 0, "HTML")],
                    [("mc_broad", FULL_FRAGS, 2, "HTML"), ("mc_deep", DEEP_FRAGS, 4, "HTML"),
                     ("mc_js", JS_FRAGS, 4, "JS"), ("mc_css", CSS_FRAGS, 4, "CSS"), ("mc_json", JSON_FRAGS, 4, "JSON")])

    def one(run):
        step, use, maxdiv, fmt = run
        wd = ctx.stage(step, FAMS)
        rig.write_cfg(wd / "MC_AEProduct.cfg", constants={"Use": set(use), "MaxDoc": 40, "MaxDiv": maxdiv, "Fmt": fmt, "RootInView": step != "mc"}, invariants=["BelowBound", "PrintSucc"], view="View")
        r = ctx.tlc(wd, "MC_AEProduct", workers=(max(4, rig.NCPU // 2) if fmt == "HTML" else 2), timeout=2400, coverage=False, dump=[str(wd / "states.dump")])
        if not r.ok:
            raise Infra(f"MC_AEProduct failed (fix-point not reached below MaxDoc, or TLC error): {wd}/MC_AEProduct.out\n" + rig.tail(r.out, 25))
        return wd, r
    with ThreadPoolExecutor(max_workers=len(runs)) as ex:
        res = list(ex.map(one, runs))
    docs, edges, roots, nbroken, instep = [], collections.Counter(), collections.Counter(), 0, 0
    lexst, refst, submodes = set(), set(), set()
    frags = None
    for (wd, r), run in zip(res, runs):
        frags = {f["id"]: f["b"] for f in rig.read_ndjson(wd / "frags.ndjson")}
        # the predictions printed by the PrintSucc "invariant": <<"SUCC", doc, <<10 * context + url, ...>>>>
        succs = {}
        for m in re.finditer(r'<<\s*"SUCC",\s*<<([\d,\s]*)>>,\s*<<([\d,\s-]*)>>\s*>>', r.out):
            dd = tuple(int(x) for x in m.group(1).replace("\n", " ").split(",") if x.strip())
            succs[dd] = [int(x) for x in m.group(2).replace("\n", " ").split(",") if x.strip()]
        n = 0
        for blk in (wd / "states.dump").read_text().split("\n\n"):
            m = re.search(r"/\\ doc = <<(.*?)>>", blk, re.S)
            if not m:
                continue
            n += 1
            d = [int(x) for x in m.group(1).replace("\n", " ").split(",") if x.strip()]
            broken = "broken = TRUE" in blk
            lexst.update(re.findall(r'ctx \|-> "(\w+)"', blk))
            lexst.update("sub:" + x for x in re.findall(r'sub \|-> "(\w+)"', blk))
            refst.update(re.findall(r'st \|-> "(\w+)"', blk))
            submodes.update(re.findall(r'\bm \|-> "(\w+)"', blk))
            div = int(re.search(r"/\\ div = (\d+)", blk).group(1))
            docs.append((d, broken, div, run[1], succs.get(tuple(d)), run[3]))
            instep += div == 0
            if broken:
                nbroken += 1
                e = re.search(r"/\\ edge = (<<.*?>>)\n", blk + "\n", re.S)
                ro = re.search(r"/\\ root = (<<.*?>>)\n", blk + "\n", re.S)
                edges[re.sub(r"\s+", " ", e.group(1))] += 1
                roots[re.sub(r"\s+", " ", ro.group(1))] += 1
        if n != r.distinct:
            raise Infra(f"dump has {n} states, TLC reported {r.distinct} ({wd})")
    ctx.cov.update(states=sum(r.distinct for _, r in res), transitions=sum(r.generated for _, r in res),
                   mc_wall_s=round(max(r.wall for _, r in res), 1), mc_runs=[{"format": fm, "fragments": len(u), "behind_root": d, "states": r.distinct, "transitions": r.generated}
                                                                           for (_, r), (_, u, d, fm) in zip(res, runs)],
                   product_states_in_step=instep, product_states_broken=nbroken,
                   lexer_model_contexts_and_substates_reached=sorted(lexst), reference_html_states_reached=sorted(refst),
                   reference_js_css_json_modes_reached=sorted(submodes),
                   breaking_edges=len(edges), breaking_edge_roots=len(roots),
                   bounds="; ".join(f"{fm} files, {len(u)} fragments: synchronised region to its fix-point, {d or 'unboundedly many'} fragments behind a root cause" for _, u, d, fm in runs)
                          + "; depth of every state graph below MaxDoc=40; template nesting <= 3")
    if edges:
        ctx.cov["model_counterexample"] = {"invariants": ["Sync"], "breaking_edges": len(edges),
                                           "roots": [k for k, _ in roots.most_common(40)], "tlc_out": str(res[0][0] / "MC_AEProduct.out")}
    return docs, frags


def generate(ctx, module, step, consts, outname, tag):
    """constant-level case spaces enumerated by TLC (MC_AEHist, MC_AEMd)"""
    wd = ctx.stage(step, FAMS)
    rig.write_cfg(wd / (module + ".cfg"), constants=consts)
    r = ctx.tlc(wd, module, workers=1, timeout=1200)
    if not r.ok or not (wd / outname).exists():
        raise Infra(f"{module} did not complete: {wd}/{module}.out\n" + rig.tail(r.out, 25))
    m = re.search(r'<<\s*"%s",\s*([\d,\s]+)>>' % tag, r.out)
    recs = rig.read_ndjson(wd / outname)
    if not m or int(m.group(1).split(",")[-1]) != len(recs):
        raise Infra(f"{module}: {len(recs)} records exported, TLC printed {m and m.group(1)} ({wd})")
    ctx.notes.setdefault("printed", {})[step] = [int(x) for x in m.group(1).split(",")]
    return recs


# ------------------------------------------------------------------------------------------------ judges
def run_shards(ctx, step, module, recs, outname, shard, consts=None):
    """Judge recs with a Trace module in parallel TLC processes; returns the concatenated output lines."""
    parts = [recs[k:k + shard] for k in range(0, max(len(recs), 1), shard)]

    def one(i):
        wd = ctx.stage(f"{step}_{i}", FAMS)
        rig.write_ndjson(wd / "obs.ndjson", parts[i])
        rig.write_cfg(wd / (module + ".cfg"), invariants=["Done"], postcondition="Consumed", constants=consts)
        r = ctx.tlc(wd, module, workers=1, timeout=1500)
        if not r.ok or not (wd / outname).exists():
            raise Infra(f"{module} did not complete: {wd}/{module}.out\n" + rig.tail(r.out, 25))
        out = rig.read_ndjson(wd / outname)
        if len(out) != len(parts[i]):
            raise Infra(f"{module}: {len(out)} output lines for {len(parts[i])} records ({wd})")
        return out
    with ThreadPoolExecutor(max_workers=min(len(parts), max(2, rig.NCPU))) as ex:
        res = list(ex.map(one, range(len(parts))))
    return [x for part in res for x in part]


def build_tree(docs):
    """prefix tree of the documents (lists of fragment ids); nodes in DFS preorder, parents first"""
    children = {}
    for d in docs:
        for i in range(len(d)):
            children.setdefault(tuple(d[:i]), set()).add(d[i])
    nodes, index = [], {}
    stack = [((), 0)]
    while stack:
        pre, parent = stack.pop()
        nid = len(nodes) + 1
        index[pre] = nid
        nodes.append({"id": nid, "parent": parent, "pre": pre})
        for f in sorted(children.get(pre, ()), reverse=True):
            stack.append((pre + (f,), nid))
    return nodes, index


def context_level(ctx, step, docs, frags, fmt="HTML"):
    """docs: lists of fragment ids.  Returns per-node info {prefix tuple: {...class of the boundary...}}."""
    nodes, index = build_tree(docs)
    cfile = ctx.work / f"{step}_cases.ndjson"
    rig.write_ndjson(cfile, [{"id": n["id"], "fmt": fmt, "frags": [frags[f] for f in n["pre"]]} for n in nodes])
    ofile = ctx.work / f"{step}_obs.ndjson"
    ctx.drive("c06", cfile, ofile, args=["-mode", "ctx"], timeout=1200)
    real = {o["id"]: o for o in rig.read_ndjson(ofile)}
    if len(real) != len(nodes):
        raise Infra(f"ctx driver returned {len(real)} observations for {len(nodes)} documents")
    # shards: contiguous preorder ranges, each preceded by the ancestors of its first node
    nsh = max(1, min(rig.NCPU, 8, -(-len(nodes) // 400)))
    size = -(-len(nodes) // nsh)
    shards = []
    for k in range(0, len(nodes), size):
        chunk = nodes[k:k + size]
        anc, p = [], chunk[0]["parent"]
        while p:
            anc.append(nodes[p - 1])
            p = nodes[p - 1]["parent"]
        recs, pos = [], {}
        for n in list(reversed(anc)) + chunk:
            pos[n["id"]] = len(recs) + 1
            o = real[n["id"]]
            recs.append({"id": n["id"], "p": pos.get(n["parent"], 0), "frag": frags[n["pre"][-1]] if n["pre"] else [], "ctx": o["ctx"], "url": o["url"]})
        shards.append((recs, len(anc)))
    # sensitivity self-test, context level (same TLC run as the real observations, ids >= 9000000):
    # a real context replaced by another one must be flagged incompatible
    st = []
    sid, aid = (index.get((1,)), index.get((3,))) if fmt == "HTML" else (None, None)
    if sid and real[sid]["ctx"] == 3:
        st.append({"id": 9000001, "p": 1, "frag": frags[1], "ctx": 1, "url": 0})       # HTML inside <script>
    if aid and real[aid]["ctx"] == 7:
        st.append({"id": 9000002, "p": 1, "frag": frags[3], "ctx": 3, "url": 0})       # JS inside <a href="
    recs0, nanc0 = shards[0]
    assert recs0[0]["p"] == 0 and recs0[0]["frag"] == []
    shards[0] = (recs0 + st, nanc0)

    def one(i):
        wd = ctx.stage(f"{step}_{i}", FAMS)
        rig.write_ndjson(wd / "obs.ndjson", shards[i][0])
        rig.write_cfg(wd / "Trace_AEContext.cfg", constants={"Fmt": fmt}, invariants=["Done"], postcondition="Consumed")
        r = ctx.tlc(wd, "Trace_AEContext", workers=1, timeout=1500)
        if not r.ok or not (wd / "ctxout.ndjson").exists():
            raise Infra(f"Trace_AEContext did not complete: {wd}/Trace_AEContext.out\n" + rig.tail(r.out, 25))
        out = rig.read_ndjson(wd / "ctxout.ndjson")
        if len(out) != len(shards[i][0]):
            raise Infra(f"Trace_AEContext: {len(out)} lines for {len(shards[i][0])} records ({wd})")
        return out[shards[i][1]:]
    with ThreadPoolExecutor(max_workers=len(shards)) as ex:
        outs = [x for part in ex.map(one, range(len(shards))) for x in part]
    sout = [r for r in outs if r["id"] >= 9000000]
    rej = sum(1 for r in sout if r["compat"] == 0)
    n0, r0 = ctx.notes.get("selftest_ctx", (0, 0))
    ctx.notes["selftest_ctx"] = (n0 + len(st), r0 + rej)
    if rej < len(st):
        raise Infra(f"sensitivity self-test (context level) failed: {rej}/{len(st)} corrupted contexts flagged")
    info = {}
    byid = {r["id"]: r for r in outs if r["id"] < 9000000}
    if len(byid) != len(nodes):
        raise Infra(f"context level: {len(byid)} judged nodes of {len(nodes)}")
    for n in nodes:
        r, o = byid[n["id"]], real[n["id"]]
        info[n["pre"]] = {"ctx": o["ctx"], "url": o["url"], "closer": o.get("closer", []), "slot": r["slot"], "kind": r["kind"], "agree": r["agree"], "compat": r["compat"],
                          "root": r["root"], "drift": r["drift"], "mctx": r["mctx"]}
    return info


def holes_of(docs, info, frags, closers=None):
    """every observed boundary of every document with its class, as computed by Trace_AEContext
       (closers: what completes a whole document, Markdown files only)"""
    for d in docs:
        fb = [frags[f] for f in d]
        closed = bool(closers and closers.get(tuple(d)))
        if closed:
            fb = fb + [closers[tuple(d)]]
        for i in range(len(d) + 1):
            x = info[tuple(d[:i])]
            c = x["ctx"]
            if c < 0:
                continue
            root = x["root"]
            rk = "none" if "none" in root else json.dumps([root["ctx"], root["slot"], root["kind"], root["toctx"], root["to"], root["tokind"]])
            # a hole at the end of a document that only builds with a closer after the hole gets that closer as suffix
            yield {"frags": fb + [x["closer"]] if i == len(d) and x.get("closer") and not closed else fb,
                   "hole": i, "end": i == len(d), "compat": x["compat"], "agree": x["agree"],
                   "pt": {"ctx": CN.get(c, "none"), "url": x["url"], "slot": x["slot"], "kind": x["kind"],
                          "root": "none" if "none" in root else root},
                   "key": (CN.get(c, "none"), x["url"], x["slot"], x["kind"], rk)}


def select(ctx, holes, per_key):
    """for every (context, url, slot, kind, root cause) class: holes at the end of a document and holes in
       front of a suffix, the latter with as many different next fragments as possible"""
    chosen, count, nexts = [], collections.Counter(), set()
    for h in sorted(holes, key=lambda h: (len(h["frags"]), h["hole"])):
        k = h["key"] + (h["end"],)
        nk = None
        if not h["end"]:
            nk = h["key"] + (tuple(h["frags"][h["hole"]]),)
            if nk in nexts:
                continue
        if count[k] >= (per_key if h["end"] else ctx.pick(2, 6)):
            continue
        if nk:
            nexts.add(nk)
        count[k] += 1
        chosen.append(h)
    return chosen


def confinement_level(ctx, step, cases, selftest=False):
    cfile = ctx.work / f"{step}_cases.ndjson"
    rig.write_ndjson(cfile, cases)
    ofile = ctx.work / f"{step}_obs.ndjson"
    ctx.drive("c06", cfile, ofile, args=["-mode", "conf"], timeout=1800)
    obs = rig.read_ndjson(ofile)
    if len(obs) != len(cases):
        raise Infra(f"conf driver returned {len(obs)} observations for {len(cases)} cases")
    # sensitivity self-test, confinement level (same TLC runs, ids >= 9000000): in a synchronised HTML
    # text slot the output of the harmless value "alert" is replaced by the output of the trusted
    # native.HTML value (i.e. what a missing escaper would have written): it must be judged bad.
    st = []
    if selftest:
        def corrupt(o, donor_class, victim_class):
            donor = next((j for j, x in enumerate(o["outs"]) if x["c"] == donor_class and x["oc"] == "ok"), None)
            victim = next((j for j, x in enumerate(o["outs"]) if x["c"] == victim_class and x["oc"] == "ok"), None)
            if donor is None or victim is None:
                return None
            c = json.loads(json.dumps(o))
            for k in ("out", "html"):
                if k in c["outs"][donor]:
                    c["outs"][victim][k] = c["outs"][donor][k]
            c["_victim"] = victim + 1
            return c
        nh = nm = 0
        for o in obs:
            syn = o["pt"]["root"] == "none" and o["via"] == "direct" and not o.get("holes") and not o.get("after")
            c = None
            if nh < 3 and syn and o.get("fmt", "HTML") == "HTML" and o["pt"]["ctx"] == "HTML" and o["pt"]["slot"] == "text":
                c = corrupt(o, "html", "word")
                nh += c is not None
            # the same for a Markdown paragraph: the CONVERSION of the harmless value is replaced by that of the trusted markdown value
            elif nm < 2 and syn and o.get("fmt") == "MD" and o["pt"]["ctx"] == "Markdown" and o["pt"]["slot"] == "md-para" and o["pt"]["kind"] == "text":
                c = corrupt(o, "markdown", "word")
                nm += c is not None
            if c:
                c["id"] = 9000001 + len(st)
                st.append(c)
        if not nh:
            raise Infra("sensitivity self-test: no synchronised HTML text hole to corrupt")
        if not nm and any(o.get("fmt") == "MD" for o in obs):
            raise Infra("sensitivity self-test: no Markdown paragraph hole to corrupt")
    n = max(2, min(rig.NCPU, 8))
    shard = max(30, -(-(len(obs) + len(st)) // n))
    judged = run_shards(ctx, step, "Trace_AEConfine", obs + st, "judged.ndjson", shard)
    if selftest:
        sj = judged[len(obs):]
        rejected = sum(1 for c, j in zip(st, sj) if any(b["j"] == c["_victim"] for b in j["bad"]))
        nctx, rctx = ctx.notes.get("selftest_ctx", (0, 0))
        ctx.cov["sensitivity_selftest"] = {"corrupted": len(st) + nctx, "rejected": rejected + rctx}
        if rejected < len(st):
            raise Infra(f"sensitivity self-test failed: confinement {rejected}/{len(st)} corrupted outputs rejected")
    return obs, judged[:len(obs)]


def bads_of(obs, judged):
    bads = []
    for o, j in zip(obs, judged):
        assert o["id"] == j["id"]
        for b in j["bad"]:
            oo = o["outs"][b["j"] - 1]
            bb = o["outs"][oo["b"] - 1]
            bads.append({"id": o["id"], "j": b["j"], "sig": b["sig"],
                         "case": case_of(o),
                         "what": {"file": "index." + EXT.get(o.get("fmt"), "html"),
                                  "template": show_doc(o["frags"], o["hole"], o.get("holes", ()), o.get("after", ())), "via": o["via"], "value_class": oo["c"],
                                  "rendered": rig.b2s(oo["out"]), "benign": rig.b2s(bb["out"]), "real_context": o["pt"]["ctx"],
                                  "reference_slot": o["pt"]["slot"] + (":" + o["pt"]["kind"] if o["pt"]["kind"] else ""),
                                  **({"converted": rig.b2s(oo["html"]), "converted_benign": rig.b2s(bb["html"])} if "html" in oo and "html" in bb else {})}})
    return bads


# ------------------------------------------------------------------------------------------------ run
def add_cases(ctx, ccases, fmt, holes, via_seen, xvia_seen):
    """the confinement cases of the selected holes of one file format"""
    for h in select(ctx, holes, 1):
        ccases.append({"id": len(ccases) + 1, "fmt": fmt, "frags": h["frags"], "hole": h["hole"], "via": "direct", "pt": h["pt"]})
        sync = h["key"][4] == "none" and h["agree"]
        # the other ways of reaching the hole: quick, once per real (context, url) in a synchronised hole;
        # thorough, for every (context, url, slot, kind) class
        vk = (h["key"][:2] + (h["end"],)) if ctx.quick else (h["key"][:4] + (h["end"],))
        if (not ctx.quick or sync) and vk not in via_seen:
            via_seen.add(vk)
            for v in VIAS:
                ccases.append({"id": len(ccases) + 1, "fmt": fmt, "frags": h["frags"], "hole": h["hole"], "via": v, "pt": h["pt"]})
        # macros of every other format shown here (the call-site conversion of canOptimizeShowMacro / OpCallMacro):
        # once per real (context, url) (quick) / (context, url, slot, kind) (thorough) in a synchronised hole
        xk = h["key"][:2] if ctx.quick else h["key"][:4]
        if sync and xk not in xvia_seen:
            xvia_seen.add(xk)
            for v in XVIAS:
                # a Markdown macro is converted to block-level HTML where it is shown: in an HTML file it is shown in text only
                if v in ("macro:markdown", "import:md") and h["pt"]["ctx"] == "HTML" and h["pt"]["slot"] != "text":
                    continue
                if v != "import:" + EXT[fmt]:
                    ccases.append({"id": len(ccases) + 1, "fmt": fmt, "frags": h["frags"], "hole": h["hole"], "via": v, "pt": h["pt"]})


def hist_level(ctx, recs, frags, ccases, tot):
    """MC_AEHist's documents with several shows: the class of every hole comes from the context level; a case is
       kept when every one of its holes is in a synchronised class (otherwise the single-hole cases already name
       the root cause)"""
    docs, seen = [], set()
    for r in recs:
        ids = tuple(f for f in r["doc"] if f != 0)
        if ids not in seen:
            seen.add(ids)
            docs.append(list(ids))
    info = context_level(ctx, "ctxh", docs, frags, "HTML")
    tot["hist_documents"] += len(docs)
    for r in recs:
        ids = [f for f in r["doc"] if f != 0]
        bnd = {i: sum(1 for f in r["doc"][:i] if f != 0) for i, f in enumerate(r["doc"]) if f == 0}     # position in doc -> boundary
        pi = r["probe"] - 1
        xs = [info[tuple(ids[:b])] for b in bnd.values()]
        if not all(x["ctx"] >= 0 and "none" in x["root"] and x["agree"] and x["compat"] for x in xs):
            tot["hist_not_synchronised"] += 1
            continue
        x = info[tuple(ids[:bnd[pi]])]
        ccases.append({"id": len(ccases) + 1, "fmt": "HTML", "frags": [frags[f] for f in ids], "hole": bnd[pi],
                       "holes": [b for i, b in sorted(bnd.items()) if i < pi], "after": [b for i, b in sorted(bnd.items()) if i > pi],
                       "vset": "attr", "via": "direct",
                       "pt": {"ctx": CN.get(x["ctx"], "none"), "url": x["url"], "slot": x["slot"], "kind": x["kind"], "root": "none",
                              "prior": {"open": rig.b2s(frags[r["o1"]]) if r["o1"] else "", "entry": r["e1"], "probe": r["e2"]}}})
        tot["hist_cases"] += 1


def block_level(ctx, runs, ccases, tot):
    """MC_AEBlock's documents (a probe in or behind the body of a macro declaration / using statement): the context the
       real lexer gives to the probe is read off the real code and goes into the signature; it is compared with the
       format the template places the probe in (reference) and with lexCode's stack as transcribed (model): diagnostic"""
    recs = [r for _, rs in runs for r in rs]
    cfile, ofile = ctx.work / "ctxblk_cases.ndjson", ctx.work / "ctxblk_obs.ndjson"
    rig.write_ndjson(cfile, [{"id": i + 1, "fmt": r["fmt"], "frags": r["frags"], "hole": r["hole"]} for i, r in enumerate(recs)])
    ctx.drive("c06", cfile, ofile, args=["-mode", "ctxat"], timeout=1200)
    real = {o["id"]: o for o in rig.read_ndjson(ofile)}
    if len(real) != len(recs):
        raise Infra(f"ctxat driver returned {len(real)} observations for {len(recs)} block documents")
    differs = []
    for i, r in enumerate(recs):
        o = real[i + 1]
        if o["ctx"] < 0:
            tot["block_not_built" if o["ctx"] != -3 else "host_panics_ctx"] += 1
            continue
        c = CN.get(o["ctx"], "none")
        tot["block_model_drift"] += c != r["mctx"]
        if c != r["ectx"]:
            differs.append((r, c))
        ccases.append({"id": len(ccases) + 1, "fmt": r["fmt"], "frags": r["frags"], "hole": r["hole"], "via": "direct", "vset": "block",
                       "pt": {"ctx": c, "url": o["url"], "slot": r["slot"], "kind": "", "root": "none", "block": r["block"]}})
        tot["block_cases"] += 1
    tot["block_context_differs"] = len(differs)
    if differs:
        r, c = differs[0]
        ctx.cov["block_context_example"] = {"template": show_doc(r["frags"], r["hole"]), "file": "index." + EXT[r["fmt"]], "real_context": c, "placed_in": r["ectx"]}


def md_level(ctx, recs, frags):
    """MC_AEMd's documents: real context of a hole at the end of each (driver), label of the position (TLC)"""
    cfile, ofile = ctx.work / "ctxmd_cases.ndjson", ctx.work / "ctxmd_obs.ndjson"
    rig.write_ndjson(cfile, [{"id": r["id"], "fmt": "MD", "frags": [frags[f] for f in r["doc"]]} for r in recs])
    ctx.drive("c06", cfile, ofile, args=["-mode", "ctx"], timeout=1200)
    real = {o["id"]: o for o in rig.read_ndjson(ofile)}
    if len(real) != len(recs):
        raise Infra(f"ctx driver returned {len(real)} observations for {len(recs)} Markdown documents")
    info = {}
    for r in recs:
        o = real[r["id"]]
        info[tuple(r["doc"])] = {"ctx": o["ctx"], "url": o["url"], "closer": o.get("closer", []), "slot": r["slot"], "kind": r["kind"],
                                 "agree": 1, "compat": 1, "root": {"none": 1}, "drift": 0, "mctx": ""}
    return [r["doc"] for r in recs], info, {tuple(r["doc"]): r["close"] for r in recs}


def run(ctx, only_case=None):
    if only_case is not None:
        return run_cases(ctx, [only_case], replaying=True)
    bruns = block_runs(ctx)
    with ThreadPoolExecutor(max_workers=3) as ex:
        fh = ex.submit(generate, ctx, "MC_AEHist", "hist", ctx.pick(HIST_Q, HIST_T), "hist_cases.ndjson", "HIST")
        fm = ex.submit(generate, ctx, "MC_AEMd", "md", ctx.pick(MD_Q, MD_T), "md_docs.ndjson", "MD")
        fb = [ex.submit(generate, ctx, "MC_AEBlock", step, consts, "block_cases.ndjson", "BLOCK") for step, consts in bruns]
        alldocs, frags = model_check(ctx)
        hist_recs, md_recs = fh.result(), fm.result()
        block_recs = [(step, f.result()) for (step, _), f in zip(bruns, fb)]
    ccases = []
    tot = collections.Counter()
    allclasses, allcand, allroots, drift_notes = set(), set(), set(), []
    for fmt in sorted({d[5] for d in alldocs}, key=lambda f: (f != "HTML", f)):
        docs = [d for d in alldocs if d[5] == fmt]
        sfx = "" if fmt == "HTML" else "_" + fmt.lower()
        # 1. context level: the document of every product state
        dl, seen = [], set()
        for d, broken, div, use, succ, _ in docs:
            if tuple(d) not in seen:
                seen.add(tuple(d))
                dl.append(list(d))
        info = context_level(ctx, "ctx" + sfx, dl, frags, fmt)
        hole_docs = list(dl)
        drifted = sorted((pre for pre, x in info.items() if x["drift"]), key=len)
        # one test per transition out of a state of the synchronised region: the real context after the
        # transition against the context predicted by AELexer (printed by MC_AEProduct, PrintSucc)
        tcases, tpred = [], {}
        for d, broken, div, use, succ, _ in docs:
            if broken or div != 0 or not succ:
                continue
            for f in use:
                t = tuple(d) + (f,)
                if t not in seen and t not in tpred and succ[f - 1] >= 0:
                    tpred[t] = [CN.get(succ[f - 1] // 10, "inert"), succ[f - 1] % 10]
                    tcases.append({"id": len(tcases) + 1, "fmt": fmt, "frags": [frags[x] for x in t]})
        if tcases:
            tfile, tobs = ctx.work / f"trans{sfx}_cases.ndjson", ctx.work / f"trans{sfx}_obs.ndjson"
            rig.write_ndjson(tfile, tcases)
            ctx.drive("c06", tfile, tobs, args=["-mode", "ctx"], timeout=1200)
            treal = {o["id"]: o for o in rig.read_ndjson(tobs)}
            for i, t in enumerate(list(tpred)):
                o = treal[i + 1]
                if o["ctx"] in (-1, -3):
                    continue
                if [CN.get(o["ctx"], "inert"), o["url"]] != tpred[t]:
                    drifted.append(t)
                    info.setdefault(t, {"ctx": o["ctx"], "mctx": tpred[t][0]})
            tot["transitions_replayed"] += len(tcases)
        drifted.sort(key=len)
        if drifted:
            # the real lexer is in another state than the model after these documents: explore what follows them
            ex = drifted[0]
            drift_notes.append(f"{fmt}: {len(drifted)} of {len(info) + len(tcases)} boundaries: AELexer predicts another context than the real lexer, e.g. "
                               f"{text([frags[f] for f in ex])!r}: real {CN.get(info[ex]['ctx'])}, model {info[ex]['mctx']}")
            for t in drifted:
                if "slot" not in info[t]:
                    del info[t]
            cont = sorted({f for d in docs for f in d[3]}) if fmt != "HTML" else ctx.pick(QUICK_FRAGS, DEEP_FRAGS)
            more = []
            for pre in drifted[:ctx.pick(12, 40)]:
                more.append(list(pre))
                for f in cont:
                    more.append(list(pre) + [f])
                    for g in cont:
                        more.append(list(pre) + [f, g])
            info.update(context_level(ctx, "ctx2" + sfx, more, frags, fmt))
            hole_docs += more
        tot["documents"] += len(dl)
        tot["boundaries"] += len(info)
        for k, v in (("boundaries_not_built", -1), ("boundaries_inert", -2), ("host_panics_ctx", -3)):
            tot[k] += sum(1 for x in info.values() if x["ctx"] == v)
        holes = list(holes_of(hole_docs, info, frags))
        allclasses |= {(fmt,) + h["key"][:4] for h in holes}
        allcand |= {(fmt,) + h["key"][:4] for h in holes if not h["compat"]}
        allroots |= {h["key"][4] for h in holes if h["key"][4] != "none"}
        # 2. confinement level: the cases
        add_cases(ctx, ccases, fmt, holes, set(), set())
        if fmt == "HTML":
            # 2b. the second case space: several shows on one renderer
            hist_level(ctx, hist_recs, frags, ccases, tot)
    # 2c. Markdown files
    mdocs, minfo, mclose = md_level(ctx, md_recs, frags)
    tot["md_documents"] = len(mdocs)
    for k, v in (("boundaries_not_built", -1), ("boundaries_inert", -2), ("host_panics_ctx", -3)):
        tot[k] += sum(1 for x in minfo.values() if x["ctx"] == v)
    mholes = list(holes_of(mdocs, minfo, frags, mclose))
    mdclasses = {h["key"][:4] for h in mholes}
    allclasses |= {("MD",) + k for k in mdclasses}
    n0 = len(ccases)
    add_cases(ctx, ccases, "MD", mholes, set(), set())
    # 2d. block statements that save and restore the context
    block_level(ctx, block_recs, ccases, tot)
    printed = [ctx.notes["printed"][step] for step, _ in bruns]
    ctx.cov.update(block_documents=sum(p[0] for p in printed), block_cases=tot["block_cases"], block_documents_not_built=tot["block_not_built"],
                   block_cases_where_stack_model_differs_from_reference=sum(p[1] for p in printed),
                   block_probes_whose_real_context_differs_from_the_format_they_are_placed_in=tot["block_context_differs"],
                   block_probes_whose_real_context_differs_from_the_stack_model=tot["block_model_drift"],
                   block_runs=[{"format": c["BFmt"], "place": "".join(sorted(c["BPlaces"])), "outer_kinds": len(c["BOuter"]), "outer_types": sorted(c["BOuterTypes"]),
                                "inner_kinds": len(c["BInner"]), "inner_types": sorted(c["BInnerTypes"]), "documents": p[0], "cases": p[2]}
                               for (_, c), p in zip(bruns, printed)])
    if tot["block_cases"] == 0:
        raise Infra("the block-statement case space is empty (no document of MC_AEBlock builds)")
    ctx.cov.update(documents=tot["documents"], state_documents=tot["documents"], boundaries=tot["boundaries"] + len(minfo),
                   transitions_replayed=tot["transitions_replayed"], boundaries_not_built=tot["boundaries_not_built"],
                   boundaries_inert=tot["boundaries_inert"], host_panics_ctx=tot["host_panics_ctx"],
                   ctx_slot_pairs=len(allclasses), candidate_pairs=len(allcand), root_causes_seen=len(allroots),
                   multi_show_documents=tot["hist_documents"], multi_show_cases=tot["hist_cases"],
                   multi_show_cases_not_synchronised=tot["hist_not_synchronised"],
                   markdown_documents=tot["md_documents"], markdown_hole_classes=len(mdclasses), markdown_cases=len(ccases) - n0)
    if tot["hist_cases"] == 0:
        raise Infra("the multi-show case space is empty (no document of MC_AEHist has all its holes in synchronised classes)")
    if drift_notes:
        ctx.cov["model_drift"] = "; ".join(drift_notes) + " (diagnostic; continuations of the drifted documents are explored)"
    else:
        ctx.cov["model_drift_boundaries"] = 0
    return run_cases(ctx, ccases)


def run_cases(ctx, ccases, replaying=False):
    cobs, judged = confinement_level(ctx, "conf", ccases, selftest=not replaying)
    tot = collections.Counter()
    for j in judged:
        for k in ("compared", "notshown", "refundef", "trustedchanged"):
            tot[k] += j[k]
    renders = sum(1 for o in cobs for x in o["outs"] if x["oc"] == "ok")
    nontrivial = {(o.get("fmt"), text(o["frags"]), o["hole"], tuple(o.get("holes", ())), tuple(o.get("after", ())), o["via"], x["v"])
                  for o in cobs for j, x in enumerate(o["outs"])
                  if x["oc"] == "ok" and x["b"] - 1 != j and x["out"] != o["outs"][x["b"] - 1]["out"]}
    ctx.cov.update(confinement_cases=len(ccases), evaluations=renders + ctx.cov.get("boundaries", 0),
                   renders=renders, comparisons=tot["compared"], values_not_shown=tot["notshown"], ref_undefined=tot["refundef"],
                   trusted_values_changed_structure=tot["trustedchanged"], host_panics=sum(1 for o in cobs for x in o["outs"] if x["oc"] == "hostpanic"),
                   traces_validated_against_impl=ctx.cov.get("documents", 0) + len(cobs),
                   distinct_nontrivial=len(nontrivial), exhaustive=True,
                   rule="documents: the shortest fragment sequence reaching every reachable product state (and, thorough, every transition out of it), exported by TLC; holes: every fragment boundary (context level), one to three per (context, URL, slot, kind, root cause) class at the end of a document and in front of a suffix (confinement level) x 6 + 11 ways of reaching the hole x the value dictionary; plus every (document of MC_AEHist, probed show), the holes of every (real context, label) class of the Markdown documents of MC_AEMd and every (document of MC_AEBlock, probe) x 30 values; a render is non-trivial when its bytes differ from the benign rendering",
                   samples=[{"template": show_doc(o["frags"], o["hole"], o.get("holes", ()), o.get("after", ())), "via": o["via"], "context": o["pt"]["ctx"], "slot": o["pt"]["slot"],
                             "value": x["c"], "rendered": rig.b2s(x["out"])}
                            for o in rig.pick_samples(cobs, 4, ctx.seed) for x in o["outs"][7:8]])
    if not replaying and tot["trustedchanged"] == 0:
        raise Infra("negative control failed: no trusted value changed any structure signature (signature insensitive?)")
    bads = bads_of(cobs, judged)
    hp = [{"id": o["id"], "sig": {"fam": "autoescape", "hostpanic": x["c"], "ctx": o["pt"]["ctx"]},
           "case": case_of(o),
           "what": {"template": show_doc(o["frags"], o["hole"], o.get("holes", ()), o.get("after", ())), "via": o["via"], "hostpanic": x["c"]}}
          for o in cobs for x in o["outs"] if x["oc"] == "hostpanic"]
    ctx.cov["judged_bad_first_pass"] = len(bads)
    # 3. reproduction guard (for what would be reported as a violation): one exemplar per distinct
    #    signature, fresh driver process, judged again
    known, unknown = ctx.classify(bads)
    confirmed = [b for _, lst in known.values() for b in lst]
    if unknown:
        rcases, idmap = [], {}
        for b in unknown:
            k = json.dumps(b["case"], sort_keys=True)
            if k not in idmap:
                idmap[k] = len(rcases) + 1
                rcases.append(dict(b["case"], id=idmap[k]))
        robs, rjudged = confinement_level(ctx, "confirm", rcases)
        again = {json.dumps(b["sig"], sort_keys=True) for b in bads_of(robs, rjudged)}
        conf_u = [b for b in unknown if json.dumps(b["sig"], sort_keys=True) in again]
        ctx.cov["unreproduced"] = len({json.dumps(b["sig"], sort_keys=True) for b in unknown}) - len({json.dumps(b["sig"], sort_keys=True) for b in conf_u})
        confirmed += conf_u
    def rw(rdir, b):
        (rdir / "case.json").write_text(json.dumps(b["case"]))
        (rdir / "source.html").write_text(show_doc(b["case"]["frags"], b["case"]["hole"], b["case"].get("holes", ()), b["case"].get("after", ())))
    return ctx.report(confirmed + hp, replay_writer=rw)


def replay(ctx, path):
    c = json.loads((path / "case.json").read_text())
    return run(ctx, only_case=c)


# the findings of this check are in known-findings.json (kind "known" / "fixed"); _PROPOSED_BY_THE_BUILD documents the original list.
# Demonstrated by the block-statement documents (MC_AEBlock) on the unchanged tree, not yet in known-findings.json
# (proposed fix: /tmp/c06_block_fix.diff):
PROPOSED_KNOWN = []   # integrated into known-findings.json

"""C09 - a show accepted by the type checker never fails for its static type (DESIGN 7/C09)."""
import json, os
import rig
from rig import Infra

META = {
    "title": "ShowTable",
    "engine": "ShowTable",
    "technique": "TLA+ relation over four observations per grid cell (context x type class x value variant): "
                 "builds/run-error with the static type and with the value boxed in interface types; the checker "
                 "table (checkShow*) and the renderer table (toString/showIn*) are transcribed over type descriptors "
                 "and model-checked against the relation by TLC; TLC enumerates the grid, a Go driver builds and "
                 "runs every cell on the real scriggo, a TLC Trace spec evaluates the relation",
    "level": "model_checking",
    "level_text": "TLC explores the life cycle declared -> accepted|rejected -> shown|failed of every cell of the grid "
                  "(19 contexts quick / 39 thorough x 99 type classes x value variants (non-nil one-element value; thorough also the zero value) x boxes) on the transcribed "
                  "tables and checks B => ~R and R' => ~B on it (for the intended tables and for the tables as "
                  "they are in the code today); the same grid, exported by TLC, is built and run on the real code and "
                  "every record is judged by the TLA+ relation. Exhaustive over the grid.",
    "level_note": "Trusted: TLC, the Json module, the Go driver (registry of values and context templates; it only "
                  "builds, runs and logs outcome classes). The 'cannot show' class has no public Go type and is "
                  "recognised by those two words in the error returned by Run. The grid is finite by construction: "
                  "types not in the registry (e.g. user types declared in templates, unsafe.Pointer) are not covered.",
    "design_ref": "7/C09",
}

FAMS = ["showtable"]
SUB = "c09"

# The implementation-shaped model as the code is TODAY.  Flip a flag to True when the corresponding
# fix lands in the repository (otherwise the fixed cells are reported as model_drift, diagnostic only).
AS_IS = {"FixUintptr": True,    # runtime.toString has no reflect.Uintptr case
         "FixMapKey": True,     # checkShowJS/JSON test Implements(Stringer) on the map type, not on its key type
         "FixMdURL": True}      # showInURL (Markdown URL) does not accept Markdown stringers
INTENDED = {k: True for k in AS_IS}
# for scratch worktrees (VERIF_REPO=...): VERIF_C09_FIXED="FixUintptr,FixMdURL" or "all" models those fixes as applied
_fx = os.environ.get("VERIF_C09_FIXED", "")
for _k in AS_IS:
    if _fx == "all" or _k in _fx.split(","):
        AS_IS[_k] = True

_W1 = "runtime.toString has no reflect.Uintptr case: a uintptr (or named uintptr) value accepted by checkShow fails with 'cannot show value of type uintptr'"
_W2 = "map with uintptr key shown as JavaScript/JSON: key accepted by checkShowJS/JSON, converted by toString which lacks reflect.Uintptr"
_W3 = "checkShowJS/JSON test t.Implements(Stringer) on the map type instead of its key type: a map type with a String method and an unshowable key builds and fails at run time"
_W4 = "Markdown URL: checkShow accepts MarkdownStringer/MarkdownEnvStringer in Markdown context but showInURL renders with showInHTML, which does not know them"
PROPOSED_KNOWN = []   # the three defects found by this check were fixed in /repo (see known-findings.json, kind "fixed")


def case_of(o):
    return {"id": o["id"], "ctx": o["ctx"], "type": o["type"], "val": o["val"], "boxes": [b["box"] for b in o["o"]] or ["static", "any"]}


def brief(o):
    return {"ctx": o["ctx"], "type": o["type"], "val": o["val"],
            "obs": {b["box"]: b["builds"] + "/" + b["runerr"] + (" (" + b["rmsg"][:60] + ")" if b["runerr"] == "cannotshow" else "") for b in o["o"]}}


def static(o):
    for b in o["o"]:
        if b["box"] == "static":
            return b
    return None


def nontrivial(o):
    s = static(o)
    return bool(s) and (s["builds"] == "ok" or any(b["runerr"] == "cannotshow" for b in o["o"] if b["box"] != "static"))


def judge(ctx, step, obs_path, consts):
    bads, _ = rig.trace_judge(ctx, step, FAMS, "Trace_ShowTable", obs_path, consts=consts)
    wd = ctx.work / step
    drift = rig.read_ndjson(wd / "drift.ndjson") if (wd / "drift.ndjson").exists() else []
    stats = rig.read_ndjson(wd / "stats.ndjson")[0] if (wd / "stats.ndjson").exists() else {}
    return bads, drift, stats


def mc(ctx, step, consts, invs, stop_ok):
    wd = ctx.stage(step, FAMS)
    rig.write_cfg(wd / "MC_ShowTable.cfg", constants=consts, invariants=invs)
    r = ctx.tlc(wd, "MC_ShowTable", workers=min(8, rig.NCPU), timeout=600, coverage=not ctx.quick)
    if not r.ok and not (stop_ok and r.invariant_violated):
        raise Infra(f"MC_ShowTable ({step}) failed: {wd}/MC_ShowTable.out\n" + rig.tail(r.out, 25))
    return wd, r


def selftest_records(allobs):
    """Three corrupted observations, each violating one clause; the Trace spec must reject all."""
    out = []
    ok = [o for o in allobs if static(o) and static(o)["builds"] == "ok" and all(b["runerr"] == "none" for b in o["o"] if b["builds"] == "ok")
          and any(b["box"] == "any" and b["builds"] == "ok" for b in o["o"])]
    rej = [o for o in allobs if static(o) and static(o)["builds"] == "builderror" and
           any(b["box"] != "static" and b["runerr"] == "cannotshow" for b in o["o"])]
    if ok:
        a = json.loads(json.dumps(ok[len(ok) // 2]))       # B and R: static show fails although accepted
        a["id"] = 900001
        static(a)["runerr"] = "cannotshow"
        out.append(a)
        b = json.loads(json.dumps(ok[len(ok) // 3]))       # R' and B: boxed show fails although the type is accepted
        b["id"] = 900002
        for x in b["o"]:
            if x["box"] == "any":
                x["runerr"] = "cannotshow"
        out.append(b)
    if rej:
        c = json.loads(json.dumps(rej[len(rej) // 2]))     # R' true, B flipped to true
        c["id"] = 900003
        s = static(c)
        s["builds"], s["runerr"] = "ok", "none"
        out.append(c)
    return out


def pipeline(ctx, cases, full):
    consts = dict(AS_IS)
    obs = ctx.work / "obs.ndjson"
    ctx.drive(SUB, cases, obs)
    allobs = rig.read_ndjson(obs)
    byid = {o["id"]: o for o in allobs}
    ncases = len(rig.read_ndjson(cases))
    if len(allobs) != ncases:
        raise Infra(f"driver returned {len(allobs)} records for {ncases} cases")
    nobs = sum(len(o["o"]) for o in allobs)
    classes = {}
    for o in allobs:
        for b in o["o"]:
            k = b["builds"] + "/" + b["runerr"]
            classes[k] = classes.get(k, 0) + 1
    ctx.cov.update(
        evaluations=nobs, traces_validated_against_impl=len(allobs),
        distinct_nontrivial=len({(o["ctx"], o["type"], o["val"]) for o in allobs if nontrivial(o)}),
        rule="every cell (context, type class, value variant) of the grid exported by TLC, each built and run once per box "
             "(static type, any, and every stringer/error interface the type implements); evaluations = template "
             "build(+run)s; a cell is non-trivial if the statically typed template builds (clause 1 applies) or a "
             "boxed show fails (clause 2 applies)",
        exhaustive=True, outcome_classes=classes,
        contexts_seen=sorted({(b["astctx"] + ("+URL" if b["url"] else "")) for o in allobs for b in o["o"] if b["astctx"]}),
        samples=[brief(o) for o in rig.pick_samples(allobs, 4, ctx.seed)])
    bads, drift, stats = judge(ctx, "trace", obs, consts)
    ctx.cov["judged_bad_first_pass"] = len(bads)
    ctx.cov["ref_undefined"] = stats.get("ref_undefined", 0)
    if stats.get("records") != len(allobs):
        raise Infra("Trace spec did not see every record")
    if drift:
        kinds = {}
        for d in drift:
            for w in d["what"]:
                kinds[w.split(":")[0]] = kinds.get(w.split(":")[0], 0) + 1
        ctx.cov["model_drift"] = {"records": len(drift), "by_kind": kinds, "model": str(consts),
                                  "first": [{k: d[k] for k in ("ctx", "type", "val", "what")} for d in drift[:8]],
                                  "note": "real observations differ from the transcribed tables (diagnostic only; the verdict is from the relation)"}
    else:
        ctx.cov["model_drift"] = 0
    # records differing from the INTENDED tables (0 once every defect is fixed; then set the AS_IS flags to True)
    ctx.cov["model_drift_vs_intended_tables"] = stats.get("drift_vs_intended", -1)
    # reproduction guard: failing cells again, in a fresh process
    confirmed = []
    if bads:
        for b in bads:
            b["obs"] = byid[b["id"]]
        ids = sorted({b["id"] for b in bads})
        cc = ctx.work / "confirm_cases.ndjson"
        rig.write_ndjson(cc, [case_of(byid[i]) for i in ids])
        co = ctx.work / "confirm_obs.ndjson"
        ctx.drive(SUB, cc, co)
        b2, _, _ = judge(ctx, "trace_confirm", co, consts)
        again = {(b["id"], json.dumps(b["sig"], sort_keys=True)) for b in b2}
        confirmed = [b for b in bads if (b["id"], json.dumps(b["sig"], sort_keys=True)) in again]
        ctx.cov["unreproduced"] = len(bads) - len(confirmed)
        for b in confirmed:
            b["what"] = brief(b["obs"])
    # sensitivity self-test
    if full:
        st = selftest_records(allobs)
        if len(st) < 2:
            raise Infra("sensitivity self-test: no suitable observation to corrupt")
        p = ctx.work / "selftest_obs.ndjson"
        rig.write_ndjson(p, st)
        b3, _, _ = judge(ctx, "trace_selftest", p, consts)
        ctx.cov["sensitivity_selftest"] = {"corrupted": len(st), "rejected": len({b["id"] for b in b3})}
        if len({b["id"] for b in b3}) < len(st):
            raise Infra("sensitivity self-test failed: a corrupted observation was accepted by Trace_ShowTable")

    def rw(rdir, b):
        (rdir / "case.json").write_text(json.dumps(case_of(b["obs"])))
        (rdir / "obs.json").write_text(json.dumps(b["obs"]))
    return ctx.report(confirmed, replay_writer=rw), confirmed


def run(ctx):
    tier = ctx.pick("quick", "thorough")
    invs = ["ModelAcceptedNeverFails", "ModelBoxedFailsOnlyIfRejected", "ModelAnyBuilds", "AsIsFailureIsExported"]
    # the intended tables must satisfy the property on the whole grid; the as-is tables are explored in the
    # same run and their failures exported (design-level counterexamples, diagnostic); grid export
    wd, r = mc(ctx, "mc", dict(AS_IS, Tier=tier), invs, stop_ok=False)
    stats = rig.read_ndjson(wd / "model_stats.ndjson")[0]
    ctx.cov.update(states=r.distinct, transitions=r.generated, mc_wall_s=round(r.wall, 1), mc_invariants=invs,
                   bounds=f"tier={tier}: {stats['contexts']} contexts x {stats['type_classes']} type classes x {stats['vals']} value variant(s) = {stats['cells']} cells",
                   model_stats=stats, model_as_is_flags=str(AS_IS))
    if not ctx.quick:
        ctx.cov["actions_never_taken"] = r.coverage_zero()
    cases = wd / "cases.ndjson"
    model_bad = rig.read_ndjson(wd / "model_bad.ndjson")
    if model_bad:
        ctx.cov["model_counterexample"] = {
            "invariants": ["B=>~R on the as-is tables"], "cells": len(model_bad),
            "types": sorted({m["type"] for m in model_bad}),
            "note": "the tables as transcribed from the code violate the property in these cells (diagnostic; each cell is replayed below)"}
    rc, confirmed = pipeline(ctx, cases, full=True)
    if model_bad:
        real = {(b["obs"]["ctx"], b["obs"]["type"], b["obs"]["val"]) for b in confirmed}
        mb = {(m["ctx"], m["type"], m["val"]) for m in model_bad}
        ctx.cov["model_counterexample"]["reproduced_on_real_code"] = len(mb & real)
        ctx.cov["model_counterexample"]["real_violations_not_predicted"] = len(real - mb)
    return rc


def replay(ctx, path):
    c = json.loads((path / "case.json").read_text())
    cases = ctx.work / "replay_cases.ndjson"
    rig.write_ndjson(cases, [c])
    rc, _ = pipeline(ctx, cases, full=False)
    return rc

"""C03 - Build accepts a program exactly when the Go type checker does (DESIGN section 7 C03)."""
import json, shutil, time
from concurrent.futures import ThreadPoolExecutor
from pathlib import Path
import rig
from rig import Infra

META = {
    "title": "Build accepts exactly what the Go type checker accepts",
    "engine": "Types",
    "technique": "TLA+ typing judgment for a core of Go (reference, written from the Go spec); TLC enumerates every small program of the core "
                 "(one-operator expressions over typed leaves x statement contexts, plus exhaustive statement-level families: terminating "
                 "statements and what may follow them, declaration sequences, HISTORIES of one local name - declared, redeclared by := with a "
                 "new companion, assigned, read, in nested scopes and closures - up to length 3 (4), constant indexes and slice bounds of arrays, "
                 "package-level variables whose initializers refer to later declarations directly / through function literals / through functions, "
                 "every placement of fallthrough in the clauses of 2- and 3-clause switches, type switches, selects, for and function bodies), "
                 "model-checks meta-theorems of the judgment on all of them and exports them with verdicts; every program is built by the "
                 "real scriggo.Build; a TLC Trace spec judges accept/reject/error-class against the judgment; go/types is an oracle guard "
                 "on the violation path only",
    "level": "model_checking",
    "level_text": "Types.tla is a typing judgment (assignability, representability of untyped constants with values, operator/comparison/shift/"
                  "conversion/call/index rules incl. constant index ranges of arrays, := and its redeclaration rule, unused variables/imports "
                  "(an assignment or a redeclaration is not a use), terminating-statement analysis (a switch clause may end in fallthrough), break/continue/label placement, placement of fallthrough "
                  "(only the last statement of a non-final clause of an expression switch - not in a nested block/if/for/function literal, type switch, select), "
                  "clause scoping, package-level scope with dependency-ordered typing and initialization cycles). TLC enumerates the whole bounded program space, checks on every program that the judgment satisfies "
                  "symmetry/duality/coherence/weakening theorems (among them: deleting or appending an assignment never changes whether a history is valid for want of a read; erasing every fallthrough makes every program of the fallthrough family valid, and a valid one has no more of them than non-final switch clauses) and that the exported verdict is the judgment's, and exports the programs. "
                  "Each is compiled with scriggo.Build and the class of the result (nil / *BuildError / other / panic) is judged by TLC against the judgment.",
    "level_note": "Trusted: TLC, the Json module, the Go driver (prints the AST as Go source, calls Build, logs the result class; no expected values). "
                  "The judgment was validated during development against go/types on the complete deterministic case set (agreement recorded in "
                  "the family report); at run time go/types is consulted only for confirmed violations (oracle guard). Outside the judgment: "
                  "methods, generics, struct types, arrays other than [3]int (only in the array family), function literals other than "
                  "func(p int) int { return e }(a) and the statement form func() R { ... }(), range clauses, goto, labelled fallthrough statements, constants beyond a "
                  "31-bit window (skipped, counted).",
    "design_ref": "7/C03",
}

FAMS = ["types"]
MC_INVS = ["ExportFaithful", "SymmetricOps", "ComparisonDuality", "OrderedImpliesEq", "VarAssignCoherence", "ReprMonotone", "Weakening", "TermPlacement",
           "AssignIrrelevant", "AssignDoesNotRescue", "FtOnlyCause", "FtBounded"]
GRAMMAR = ("core: types int int8 uint8 float64 string bool N(int) NS([]int) *int []int map[string]int func(int) int any error chan int "
           "([3]int *[3]int in the array family); "
           "leaves = one variable per type + constants 0 1 300 -1 1.5 \"s\" true nil; expressions = leaf | unary(7 ops) | binary(19 ops) | conversion | "
           "call | index | slice | len cap append make panic delete | type assertion | []int{..} map[string]int{..} | func(p int) int { return e }(a); "
           "statements = var const type := = op= ++ expression go defer send if for switch type-switch select return break continue (labels) fallthrough block closure; "
           "package level: func var (with initializer) const type import; "
           "not generated: methods, generics, structs, other array types, range, goto, labelled fallthrough, min/max/clear, packages other than main")

# Defects of scriggo demonstrated by this check on the unchanged tree (reported to the integrator; see the family report).
PROPOSED_KNOWN = []   # integrated into known-findings.json


def mc_invs(ctx):
    # ExportFaithful re-evaluates the judgment on every deserialised program; the Trace spec does the same on every
    # observation, so the quick tier leaves it to the Trace run
    return [i for i in MC_INVS if not (ctx.quick and i == "ExportFaithful")]


def write_params(wd, tier):
    src = (rig.SPEC / "types" / "TypesCfg.tla").read_text().replace("Tier == 1", f"Tier == {tier}")
    (wd / "TypesCfg.tla").write_text(src)


def gen(ctx, tier):
    """step 1: TLC enumerates the programs and exports them with the judgment's verdict"""
    wd = ctx.stage("gen", FAMS)
    write_params(wd, tier)
    rig.write_cfg(wd / "gen.cfg", init="GenInit", next_="GenNext", constants={"NoPreEval": 0})
    r = ctx.tlc(wd, "MC_Types", cfg="gen.cfg", workers=1, timeout=1500)
    if not r.ok or not (wd / "cases.ndjson").exists():
        raise Infra(f"MC_Types generation failed: {wd}/MC_Types.out\n" + rig.tail(r.out, 25))
    return wd, r.wall


def mc_shard(ctx, k, lines, tier):
    """step 2: model check the judgment's meta-theorems on every exported program of the shard"""
    wd = ctx.stage(f"mc_{k}", FAMS)
    write_params(wd, tier)
    (wd / "cases.ndjson").write_text("".join(lines))
    rig.write_cfg(wd / "MC_Types.cfg", constants={"NoPreEval": 0}, invariants=mc_invs(ctx))
    return ctx.tlc(wd, "MC_Types", workers=2, timeout=1500, coverage=False)


def judge_shard(ctx, k, lines):
    """step 3: the programs of the shard are built by the real scriggo and judged by the Trace spec"""
    cases = ctx.work / f"cases_{k}.ndjson"
    cases.write_text("".join(lines))
    obs = ctx.work / f"obs_{k}.ndjson"
    ctx.drive("c03", cases, obs)
    o = rig.read_ndjson(obs)
    b, _ = rig.trace_judge(ctx, f"trace_{k}", FAMS, "Trace_Types", obs)
    for x in b:
        x["obs"] = o[x["k"] - 1]
    return o, b


def run(ctx, replay_case=None):
    import os
    # several TLC processes run side by side: keep each JVM's collector and JIT small (inherited by ctx.tlc's subprocesses)
    os.environ["JAVA_TOOL_OPTIONS"] = "-XX:ParallelGCThreads=2 -XX:CICompilerCount=2"
    tier = ctx.pick(1, 2)
    shards = ctx.pick(2, 6)
    pool = ThreadPoolExecutor(max_workers=2 * shards + 2)
    fbuild = pool.submit(ctx.build_driver, "c03")      # (the driver is compiled while TLC generates the cases)
    obs_all, bads = [], []
    undef_ids = set()
    if replay_case is not None:
        fbuild.result()
        o, bads = judge_shard(ctx, 0, [json.dumps(replay_case) + "\n"])
        obs_all = o
    else:
        wd, gen_wall = gen(ctx, tier)
        fbuild.result()
        lines = (wd / "cases.ndjson").read_text().splitlines(keepends=True)
        # (python only splits lines and counts; "verdict":"undef" is the judgment's own "does not decide")
        undef_ids = {json.loads(ln)["id"] for ln in lines if '"verdict":"undef"' in ln}
        parts = [lines[k::shards] for k in range(shards)]
        fj = [pool.submit(judge_shard, ctx, k, parts[k]) for k in range(shards)]
        fm = [pool.submit(mc_shard, ctx, k, parts[k], tier) for k in range(shards)]
        for f in fj:
            o, b = f.result()
            obs_all += o
            bads += b
        states = trans = 0
        mc_wall = 0.0
        for f in fm:
            r = f.result()
            if not r.ok:
                if r.invariant_violated:
                    # a meta-theorem fails on the judgment itself: the reference is inconsistent - machinery, not a verdict
                    raise Infra("MC_Types: the judgment violates " + ",".join(r.invariant_violated) + "\n" + rig.tail(r.out, 30))
                raise Infra("MC_Types model check failed\n" + rig.tail(r.out, 30))
            states += r.distinct
            trans += r.generated
            mc_wall = max(mc_wall, r.wall)
        ctx.cov.update(states=states, transitions=trans, mc_wall_s=round(mc_wall, 1), gen_wall_s=round(gen_wall, 1), mc_invariants=mc_invs(ctx),
                       bounds=f"tier {tier}: expressions of one operator over 23 leaves (15 typed variables, 8 constants), "
                              f"{ctx.pick('14 statement contexts', '92 statement contexts')}; statement families: bodies of nesting depth "
                              f"{ctx.pick(2, 3)}, {ctx.pick(3, 5)} terminating heads x 19 trailing statements, declaration sequences of length <= {ctx.pick(2, 3)}, "
                              f"histories of one local name: {ctx.pick('10 events, length <= 3', '26 events, length <= 3, and 8 events, length 4')}, "
                              f"arrays: {ctx.pick('10 index leaves x 8 forms', '20 index leaves x 13 forms')} + 19 single programs, package initialization: "
                              f"{ctx.pick('10 x 2 initializers, 2 functions h, 2 orders', '18 x 6 initializers, 5 functions h, 2 declared types, 3 orders')}, "
                              f"select clause pairs, call argument lists of length <= {ctx.pick(2, 3)}, fallthrough: {ctx.pick('15 statement lists in every clause of 5 two-clause and (6 lists) 3 three-clause switch shapes', '26 statement lists in every clause of 5 two-clause and (7 lists) 5 three-clause switch shapes')}, "
                              f"of a type switch and a select, as for / function body, with and without a function result; "
                              f"{shards} shards", grammar=GRAMMAR)
    n = len(obs_all)
    nontriv = {json.dumps(o["prog"], sort_keys=True) for o in obs_all if o["builds"] != "ok"}
    by_class = {}
    for o in obs_all:
        by_class[o["builds"]] = by_class.get(o["builds"], 0) + 1
    ctx.cov.update(evaluations=n, traces_validated_against_impl=n, distinct_nontrivial=len(nontriv), programs=n,
                   rule="every program of the bounded core exported by TLC (exhaustive, deterministic); non-trivial = Build did not accept the program "
                        "(so a rule of the judgment was exercised on the real checker); programs are distinct ASTs",
                   exhaustive=True, ref_undefined=len(undef_ids), build_result_classes=by_class, judged_bad_first_pass=len(bads),
                   samples=[show(o) for o in rig.pick_samples(obs_all, 5, ctx.seed)])
    # sensitivity self-test: falsified observations must be rejected by the same Trace spec (runs beside the confirmation)
    fst = None
    if replay_case is None:
        badids = {b["id"] for b in bads} | undef_ids
        good = [o for o in obs_all if o["id"] not in badids]
        acc = rig.pick_samples([o for o in good if o["builds"] == "ok"], 2, ctx.seed + 7)
        rej = rig.pick_samples([o for o in good if o["builds"] == "builderror"], 3, ctx.seed + 8)
        st = []
        for o in acc:
            st.append(dict(json.loads(json.dumps(o)), builds="builderror", id=900000000 + len(st)))
        for j, o in enumerate(rej):
            st.append(dict(json.loads(json.dumps(o)), builds=["ok", "hostpanic", "othererror"][j % 3], id=900000000 + len(st)))
        # (programs whose verdict is "undef" are accepted whatever Build does: exclude them from the self-test)
        p = ctx.work / "selftest_obs.ndjson"
        rig.write_ndjson(p, st)
        fst = pool.submit(rig.trace_judge, ctx, "trace_selftest", FAMS, "Trace_Types", p)
    # reproduction guard: fresh process, judged again
    confirmed = []
    if bads:
        byid = {}
        for b in bads:
            byid.setdefault(b["id"], case_of(b["obs"]))
        cc, co = ctx.work / "confirm_cases.ndjson", ctx.work / "confirm_obs.ndjson"
        rig.write_ndjson(cc, list(byid.values()))
        ctx.drive("c03", cc, co, args=["-oracle"])      # the oracle fields are logged for the guard below; the Trace spec ignores them
        cobs = rig.read_ndjson(co)
        b2, _ = rig.trace_judge(ctx, "trace_confirm", FAMS, "Trace_Types", co)
        again = {(b["id"], json.dumps(b["sig"], sort_keys=True)) for b in b2}
        confirmed = [b for b in bads if (b["id"], json.dumps(b["sig"], sort_keys=True)) in again]
        ctx.cov["unreproduced"] = len(bads) - len(confirmed)
        # oracle guard (violation path only): if go/types agrees with the real code and disagrees with the judgment, the SPEC is wrong
        gv = {o["id"]: o for o in cobs}
        kept, disputed = [], []
        for b in confirmed:
            g = gv[b["id"]]
            real = {"ok": "accept", "builderror": "reject"}.get(g["builds"])
            if real is not None and real == g["gotypes"] and b["sig"]["want"] != g["gotypes"]:
                disputed.append(b)
            else:
                b["gotypes"] = g["gotypes"] + (": " + g["gomsg"] if g["gomsg"] else "")
                kept.append(b)
        ctx.cov["oracle_guard"] = {"consulted_for": len(confirmed), "go_types_agrees_with_judgment": len(kept), "oracle_disputed": len(disputed)}
        if disputed:
            ctx.cov["oracle_disputed"] = [{"id": b["id"], "sig": b["sig"], "src": b["obs"]["src"]} for b in disputed[:10]]
        confirmed = kept
        for b in confirmed:
            b["what"] = json.dumps({"src": b["obs"]["src"], "judgment": b["sig"]["rule"], "build": b["obs"]["builds"],
                                    "msg": b["obs"]["msg"][:120], "go/types": b.get("gotypes", "")[:160]})
    if fst is not None:
        b3, _ = fst.result()
        ctx.cov["sensitivity_selftest"] = {"corrupted": len(st), "rejected": len(b3)}
        if len(b3) < len(st):
            raise Infra(f"sensitivity self-test failed: {len(st)} falsified observations, {len(b3)} rejected")
    pool.shutdown(wait=True)

    def rw(rdir, b):
        (rdir / "case.json").write_text(json.dumps(case_of(b["obs"])))
        (rdir / "obs.json").write_text(json.dumps(b["obs"]))
        (rdir / "program.go.txt").write_text(b["obs"]["src"] + "\n")
    return ctx.report(confirmed, replay_writer=rw, max_violations=20)


def case_of(o):
    return {"id": o["id"], "prog": o["prog"]}


def show(o):
    return {"src": o["src"], "build": o["builds"], "msg": o["msg"][:100]}


def replay(ctx, path):
    c = json.loads((Path(path) / "case.json").read_text())
    return run(ctx, replay_case=c)

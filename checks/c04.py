"""C04 - building never crashes, hangs or leaks, whatever the source bytes (DESIGN 7/C04)."""
import json, shutil, rig
from rig import Infra

META = {
    "engine": "LexProto+BuildMonitor",
    "technique": "TLA+ spec of the lexer-goroutine/parser token protocol model-checked by TLC for all token counts, abort points and interleavings (deadlock freedom, close-once, termination); TLC-exported exhaustive short byte strings x 11 roles built by the real code in crash-isolating child processes; outcomes judged by a TLC Trace spec; hook-recorded token traffic of real builds validated against the protocol spec",
    "level": "model_checking",
    "level_text": "LexProto.tla is model-checked (safety + liveness under weak fairness) with more tokens than the channel holds; the variant whose error path forgets Stop must violate termination (non-vacuity). Every byte string of length <=3 (quick) / <=4 (thorough) over a 16/19-symbol syntax alphabet, every start tag of the Gen_Tags grammar (name x attribute x quoting x <=2 value pieces mixing text and template code x body), plus seeded truncations/mutations of the repository corpus, is built in each of 11 roles (6 template formats, program body, whole program, imported/extended/rendered file); the outcome code of each build (result / *BuildError / other error / host panic / process crash / hang / goroutine leak / Disassemble panic) is judged by Trace_Build; the lexer/parser event logs of sampled builds are validated against LexProto by Trace_LexProto.",
    "level_note": "Trusted: TLC, Json module, the child-process driver (outcome classification by exit status and errors.As only), Go's runtime.NumGoroutine for leak detection (retried for 100 ms), a 5 s watchdog for hangs. Inputs longer than the exhaustive bound are sampled, not enumerated.",
    "design_ref": "7/C04",
}
FAMS = ["lexproto"]
ALPHA16 = [123, 125, 37, 35, 34, 39, 96, 92, 60, 62, 47, 42, 32, 10, 97, 48]    # { } % # " ' ` \ < > / * space \n a 0
TAGBASE = 5000000
ALPHA19 = ALPHA16 + [46, 61, 40]                                                 # . = (


def run(ctx, only_ids=None):
    # 1. protocol model check (+ non-vacuity variant)
    wd = ctx.stage("mc", FAMS)
    K, Cap = ctx.pick((6, 3), (9, 4))
    invs = ["TypeOK", "ClosedOnce", "ErrPublished", "NoSendAfterClose", "NoStuck", "ParserLeavesAfterClose"]
    rig.write_cfg(wd / "MC_LexProto.cfg", spec="Spec", constants={"K": K, "Cap": Cap, "StopOnAbort": True},
                  invariants=invs, properties=["BothTerminate"])
    r = ctx.tlc(wd, "MC_LexProto", workers=8, timeout=900, coverage=not ctx.quick, must_pass=True)
    ctx.cov.update(states=r.distinct, transitions=r.generated, mc_wall_s=round(r.wall, 1),
                   mc_properties=invs + ["BothTerminate (liveness, WF)"], bounds=f"K={K} Cap={Cap}")
    if not ctx.quick:
        ctx.cov["actions_never_taken"] = r.coverage_zero()
    wd2 = ctx.stage("mc_nostop", FAMS)
    rig.write_cfg(wd2 / "MC_LexProto.cfg", spec="Spec", constants={"K": K, "Cap": Cap, "StopOnAbort": False},
                  invariants=invs, properties=["BothTerminate"])
    r2 = ctx.tlc(wd2, "MC_LexProto", workers=8, timeout=900)
    ctx.cov["nonvacuity_variant_without_Stop_violates_termination"] = bool(r2.property_violated or r2.invariant_violated)
    if not (r2.property_violated or r2.invariant_violated):
        raise Infra("LexProto liveness is vacuous: the variant without Stop on the error path was accepted")
    # 2. input space exported by TLC
    wg = ctx.stage("gen", FAMS)
    alpha, maxlen = ctx.pick((ALPHA16, 3), (ALPHA19, 4))
    rig.write_cfg(wg / "Gen_Bytes.cfg", constants={"MaxLen": maxlen, "Alphabet": set(alpha)})
    ctx.tlc(wg, "Gen_Bytes", workers=1, timeout=900)
    cases = wg / "cases.ndjson"
    if not cases.exists():
        raise Infra("Gen_Bytes exported nothing")
    # 2b. second input space: start tags whose attribute values mix text and template code
    npieces, nnames, nattrs = ctx.pick((6, 3, 3), (9, 5, 7))
    rig.write_cfg(wg / "Gen_Tags.cfg", constants={"MaxPieces": 2, "NPieces": npieces, "NNames": nnames, "NAttrs": nattrs, "IdBase": TAGBASE})
    ctx.tlc(wg, "Gen_Tags", workers=1, timeout=900)
    if not (wg / "cases_tags.ndjson").exists():
        raise Infra("Gen_Tags exported nothing")
    tagcases = rig.read_ndjson(wg / "cases_tags.ndjson")
    rig.write_ndjson(cases, rig.read_ndjson(cases) + tagcases)
    ctx.cov["tag_shaped_inputs"] = len(tagcases)
    extra = ctx.pick(3000, 40000)
    if only_ids is not None:
        rig.write_ndjson(cases, [c for c in rig.read_ndjson(cases) if c["id"] in only_ids])
        extra = extra if any(i >= 10000000 for i in only_ids) else 0
    # 3. replay into the real code (child processes)
    obs = ctx.work / "obs.ndjson"
    ctx.drive("c04", cases, obs, args=["-extra", extra, "-proto", ctx.pick(7, 11), "-corpus", str(rig.REPO / "test/compare/testdata")], timeout=3000)
    allobs = rig.read_ndjson(obs)
    if only_ids is not None:
        allobs = [o for o in allobs if o["id"] in only_ids]
    nroles = max(len(o["oc"]) for o in allobs) if allobs else 0
    ctx.cov.update(evaluations=sum(len(o["oc"]) for o in allobs), inputs=len(allobs), roles=nroles,
                   distinct_nontrivial=len({json.dumps(o["oc"]) + json.dumps(o["s"]) for o in allobs if any(c == 0 for c in o["oc"]) and any(c == 1 for c in o["oc"])}),
                   rule=f"every byte string of length <= {maxlen} over {len(alpha)} syntax symbols and every start tag <name attr=q pieces q>body with <=2 value pieces out of {npieces} (text, show, statement, comment, MIME types), {nnames} names, {nattrs} attributes, 3 quotings, 4 bodies (both exported by TLC) + {extra} seeded corpus truncations/mutations, each built in {nroles} roles; non-trivial = builds in at least one role and is rejected in at least one other",
                   exhaustive=True, outcome_histogram=histogram(allobs),
                   samples=[{"s": rig.b2s(o["s"]), "oc": o["oc"]} for o in rig.pick_samples(allobs, 4, ctx.seed)])
    # 4. judge outcomes
    bads = []
    shard = 300000
    for k in range(0, max(len(allobs), 1), shard):
        part = allobs[k:k + shard]
        p = ctx.work / f"obs_{k // shard}.ndjson"
        rig.write_ndjson(p, part)
        b, _ = rig.trace_judge(ctx, f"trace_{k // shard}", FAMS, "Trace_Build", p)
        for x in b:
            x["obs"] = part[x["k"] - 1]
        bads += b
    # 5. protocol traces of sampled builds
    proto = rig.read_ndjson(str(obs) + ".proto")
    pb = judge_proto(ctx, "trace_proto", proto)
    ctx.cov["traces_validated_against_impl"] = len(proto)
    ctx.cov["protocol_events"] = sum(len(t["L"]) + len(t["P"]) for t in proto)
    for x in pb:
        x["obs"] = proto[x["k"] - 1]
        x["proto"] = True
    # 6. reproduction guard
    confirmed = []
    allbad = bads + pb
    if allbad:
        ids = sorted({(b["obs"]["case"] if b.get("proto") else b["id"]) for b in allbad})
        byid = {o["id"]: o for o in allobs}
        cc = ctx.work / "confirm_cases.ndjson"
        rig.write_ndjson(cc, [{"id": i, "s": byid[i]["s"]} for i in ids if i in byid])
        co = ctx.work / "confirm_obs.ndjson"
        ctx.drive("c04", cc, co, args=["-proto", 1], timeout=1500)
        b2, _ = rig.trace_judge(ctx, "trace_confirm", FAMS, "Trace_Build", co)
        p2 = judge_proto(ctx, "trace_proto_confirm", rig.read_ndjson(str(co) + ".proto"))
        keys = {json.dumps(b["sig"], sort_keys=True) for b in b2 + p2}
        confirmed = [b for b in allbad if json.dumps(b["sig"], sort_keys=True) in keys]
        ctx.cov["unreproduced"] = len(allbad) - len(confirmed)
        for b in confirmed:
            o = b["obs"]
            b["what"] = ({"role": o["role"], "L": o["L"][-4:], "P": o["P"][-4:]} if b.get("proto")
                         else {"s": rig.b2s(o["s"]), "bytes": o["s"][:60], "oc": o["oc"], "where": o["where"], "msg": o.get("msg")})
    # 7. sensitivity self-test
    st = []
    ok = [o for o in allobs if all(c in (0, 1, 2) for c in o["oc"])][:2]
    for i, o in enumerate(ok):
        c = json.loads(json.dumps(o))
        c["oc"][len(c["oc"]) // 2] = 4 + i
        c["where"] = "selftest"
        c["msg"] = ""
        st.append(c)
    if st:
        p = ctx.work / "selftest_obs.ndjson"
        rig.write_ndjson(p, st)
        b3, _ = rig.trace_judge(ctx, "trace_selftest", FAMS, "Trace_Build", p)
        stp = corrupt_proto(proto)
        b4 = judge_proto(ctx, "trace_proto_selftest", stp)
        ctx.cov["sensitivity_selftest"] = {"corrupted": len(st) + len(stp), "rejected": len(b3) + len(b4)}
        if len(b3) < len(st) or len(b4) < len(stp):
            raise Infra(f"sensitivity self-test failed: outcomes {len(b3)}/{len(st)}, protocol {len(b4)}/{len(stp)}")

    def rw(rdir, b):
        o = b["obs"]
        cid = o["case"] if b.get("proto") else o["id"]
        s = next((x["s"] for x in allobs if x["id"] == cid), None)
        (rdir / "case.json").write_text(json.dumps({"id": cid, "s": s}))
        (rdir / "obs.json").write_text(json.dumps(o))
    return ctx.report(confirmed, replay_writer=rw)


def judge_proto(ctx, step, proto):
    wd = ctx.stage(step, FAMS)
    rig.write_ndjson(wd / "obs.ndjson", proto)
    rig.write_cfg(wd / "Trace_LexProto.cfg", init="TInit", next_="TNext",
                  constants={"K": 0, "Cap": 20, "StopOnAbort": True}, invariants=["Done", "TraceInv"])
    r = ctx.tlc(wd, "Trace_LexProto", workers=1, timeout=1500)
    if not r.ok or not (wd / "bad.ndjson").exists():
        raise Infra(f"Trace_LexProto failed: {wd}/Trace_LexProto.out\n" + rig.tail(r.out, 25))
    return rig.read_ndjson(wd / "bad.ndjson")


def corrupt_proto(proto):
    out = []
    cand = [t for t in proto if len(t["L"]) >= 3 and len(t["P"]) >= 3]
    if not cand:
        return out
    t = cand[len(cand) // 2]
    a = json.loads(json.dumps(t)); a["id"] = 1
    a["L"] = [e for e in a["L"] if e[0] != "close"]                  # lexer never closed the channel
    out.append(a)
    b = json.loads(json.dumps(t)); b["id"] = 2
    b["P"] = [e for e in b["P"] if e[0] != "stop-leave"]             # parser never left Stop
    out.append(b)
    c = json.loads(json.dumps(t)); c["id"] = 3
    i = next(i for i, e in enumerate(c["P"]) if e[0] == "recv")
    c["P"][i][1] = c["P"][i][1] + 1                                  # a token changed in transit
    out.append(c)
    return out


def histogram(allobs):
    h = {}
    for o in allobs:
        for c in o["oc"]:
            h[str(c)] = h.get(str(c), 0) + 1
    return h


def replay(ctx, path):
    c = json.loads((path / "case.json").read_text())
    return run(ctx, only_ids={c["id"]})

"""C07 - escaped values decode back to the exact original text (DESIGN section 7 C07)."""
import json
import shutil
import time
from concurrent.futures import ThreadPoolExecutor
import rig
from rig import Infra

META = {
    "title": "Escaped values decode back to the original",
    "engine": "Escapers",
    "technique": "TLA+ reference decoders written from the standards (HTML character references, ECMAScript and JSON string literals, CSS escapes, percent-decoding) + branch-by-branch transcription of scriggo's escapers, model-checked by TLC (Decode(Escape(s)) = s for every string over per-language class alphabets); the same strings, the slice 'escape-relevant byte x every ASCII successor' and seeded random valid/invalid UTF-8 are rendered by real templates in 13 string-bearing contexts and every rendered slice is decoded and judged by the TLC Trace spec. Second case space, also enumerated by TLC: URL programs - several rendering steps in ONE href / srcset attribute (literal text and path-position values that may bring the '?', then one or two query value slots, tails, a second URL of a srcset) - with a transcription of the renderer's URL state machine (renderer.Text / showInURL: query, removeQuestionMark, addAmpersand) model-checked against the reference; the reference locates each query value slot in the real rendered attribute by its parameter name and percent-decodes it",
    "level": "model_checking",
    "level_text": "TLC checks, for every string of up to 2 (quick) / 4 (thorough) tokens over an 18-token class alphabet per target language, up to 4 (quick) / 5 (thorough) tokens over its 10-token core alphabet, every single byte and the pair slice, that each transcribed escaper followed by the reference decoder of its context is the identity (and that the as-found CSS separator rule fails exactly on 'hex escape followed by c-f/C-F'). The exported strings, all single bytes, the pair slice (escape-relevant byte followed by each of the 128 ASCII bytes and 8 non-ASCII successors) and seeded random strings are rendered through Template.Run in 13 contexts (HTML text, 3 attribute forms, JS string in <script> and .js, JSON string, CSS string in <style> and .css and a .css string where a hex letter follows the value, URL query value, URL path quoted/unquoted); TLC decodes each real output slice with the reference decoder and compares it with the input. URL programs: TLC checks every program 'prefix (88 forms: up to three segments of literal text and values shown in path position, 9 pieces of URL with/without query) + join (\"\" ? & &amp;) + q= + value [+ tail (&y=2 &amp;y=2 #f) | + (& | &amp;) r= + second value]' in which the value is a query value slot for the reference (238 heads), and the same heads as second URL of a srcset after 8 forms of first candidate and the text ' 1x, ' (144 heads); values: every string of <= 1 token of the 18-token URL alphabet, <= 2 tokens for the 18 core heads (quick) / for every head (thorough); tails, second slots and srcset for the core heads. Every completed program is rendered by a real template (<a href=\"...\"> / <img srcset=\"...\">) and TLC checks on the real attribute value that each slot, located by its parameter name, percent-decodes to the string shown.",
    "level_note": "Trusted: TLC, the Json community module, the Go driver (builds 13 fixed templates, runs them, slices the output between the fixed text, logs - no decoding in Go). The named-character-reference table of the reference holds the 55 names denoting ASCII/U+00A0 (not all 2231). Exceptions to exact equality, listed in Escapers.tla: NUL in HTML and CSS, bytes that are not valid UTF-8 outside URLs. URL path position is judged modulo pre-existing percent-escapes (reading documented in the spec). Exhaustive up to the stated token lengths only; <script>/<style> termination is C06. URL programs: double-quoted href and srcset only (not src/action/..., not single-quoted/unquoted, not Markdown links); values in path position inside a program are context, not judged; a slot is judged only when its parameter name occurs once in the attribute (otherwise counted as ref_undefined); srcset candidates separated by ', ' only.",
    "design_ref": "7/C07",
}

# Demonstrated on the unchanged tree (see the final report of the family): prefixWithSpace tests the
# hex letters 'a'..'b' / 'A'..'B' instead of 'a'..'f' / 'A'..'F'.
# (the prefixWithSpace defect found by this check was fixed in /repo: known-findings.json, kind "fixed")
# Demonstrated on the unchanged tree: in a srcset attribute renderer.Text handles a literal text with a comma by
# `r.query = false` only - removeQuestionMark/addAmpersand of the URL before the comma stay set and a '?' after the
# comma in the same text is not seen, so the query values of the next URL of the set are escaped with pathEscape.
PROPOSED_KNOWN = []   # integrated into known-findings.json

FAMS = ["escapers"]
MC_INVS = ["RoundTrip", "CssAsFoundExtent", "UrlPreIdentity"]
MCU_INVS = ["ProgRoundTrip", "ProgAsFoundExtent", "ProgJudged"]      # MC_EscapersUrl: URL programs (several steps in one URL attribute)
PAR = max(2, min(8, rig.NCPU // 2))       # Trace shards judged by concurrent TLC processes
RULE = ("per target language, every string of <= GenLen tokens over its 18-token class alphabet and <= GenCore tokens "
        "over its 10-token core alphabet (exported by TLC) x the contexts of that language; every single byte x 13 contexts; "
        "every pair (escape-relevant byte, ASCII byte 0..127 or one of 8 non-ASCII successors) x the contexts of the "
        "language (quick) / x 13 contexts for all 53 escape-relevant bytes (thorough); seeded random valid/invalid UTF-8 "
        "x 13 contexts; URL programs (ctx url_prog): every program exported by MC_EscapersUrl (heads x values [x tail | second slot] "
        "for href, first candidate x head x value [x descriptor] for srcset), each rendered once; "
        "non-trivial = the rendered slice differs from the input")


def trace_judge(ctx, step, obs_path):
    """rig.trace_judge with a 2 GB heap (several of these JVMs run at the same time)."""
    wd = ctx.stage(step, FAMS)
    shutil.copy(obs_path, wd / "obs.ndjson")
    for f in ("bad.ndjson", "diag.ndjson"):
        if (wd / f).exists():
            (wd / f).unlink()
    rig.write_cfg(wd / "Trace_Escapers.cfg", invariants=["Done"], postcondition="Consumed")
    r = ctx.tlc(wd, "Trace_Escapers", workers=1, timeout=840, heap="2g")
    if not r.ok:
        raise Infra(f"Trace spec Trace_Escapers did not complete cleanly (rc={r.rc}): {wd}/Trace_Escapers.out\n" + rig.tail(r.out, 30))
    if not (wd / "bad.ndjson").exists() or not (wd / "diag.ndjson").exists():
        raise Infra(f"Trace spec Trace_Escapers wrote no bad.ndjson/diag.ndjson ({wd})")
    return rig.read_ndjson(wd / "bad.ndjson")


def judge(ctx, step, recs):
    """Judge observation records with Trace_Escapers in up to PAR concurrent TLC processes.
    Returns (bad records with 'obs' attached, summed diagnostics)."""
    nsh = max(1, min(PAR, len(recs) // 6000))
    size = (len(recs) + nsh - 1) // nsh if recs else 1
    parts = [recs[k:k + size] for k in range(0, max(len(recs), 1), size)]

    def one(i):
        p = ctx.work / f"{step}_{i}.ndjson"
        rig.write_ndjson(p, parts[i])
        b = trace_judge(ctx, f"{step}_{i}", p)
        for x in b:
            x["obs"] = parts[i][x["k"] - 1]
        return b, rig.read_ndjson(ctx.work / f"{step}_{i}" / "diag.ndjson")[0]
    with ThreadPoolExecutor(max_workers=PAR) as ex:
        res = list(ex.map(one, range(len(parts))))
    bads, diag = [], {}
    for b, d in res:
        bads += b
        for k, v in d.items():
            diag[k] = diag.get(k, 0) + v
    return bads, diag


def is_prog(o):
    return o["ctx"] == "url_prog"


def okey(o):
    """identity of the input of an observation"""
    return (o["ctx"], o["at"], json.dumps(o["segs"])) if is_prog(o) else (o["ctx"], bytes(o["s"]))


def case_of(o):
    if is_prog(o):
        return {"id": o["id"], "at": o["at"], "segs": o["segs"]}
    return {"id": o["id"], "s": o["s"], "cx": [o["ctx"]]}


def prog_text(o):
    return o["at"] + '="%s"' % "".join(rig.b2s(g["b"]) if g["k"] == "t" else "{{" + rig.b2s(g["b"]) + "}}" for g in o["segs"])


def sample(o):
    if is_prog(o):
        return {"ctx": o["ctx"], "s": prog_text(o), "out": rig.b2s(o["out"]), "st": o["st"]}
    return {"ctx": o["ctx"], "s": rig.b2s(o["s"]), "out": rig.b2s(o["out"]), "st": o["st"]}


def trivial(o):
    """the rendered text is the input text, byte for byte"""
    if is_prog(o):
        return o["out"] == [c for g in o["segs"] for c in g["b"]]
    return o["out"] == o["s"]


def corrupt(o):
    # a decoder-visible corruption: one extra character in front of the rendered slice; in a URL
    # program (out = the whole attribute value) one extra character in front of every parameter value
    if is_prog(o):
        o["out"] = [c for x in o["out"] for c in ((x, 90) if x == 61 else (x,))]
    else:
        o["out"] = [90] + o["out"]
    o["st"] = "ok"
    return o


def run(ctx, replay_case=None):
    consts = {"MaxLen": ctx.pick(2, 4), "CoreLen": ctx.pick(4, 5), "GenLen": ctx.pick(2, 3), "GenCore": ctx.pick(3, 4),
              "Full": not ctx.quick}
    # (TwoAll / SetAll = TRUE - second slot / srcset continuation for every head, not only the core heads - is ~180 k more
    #  programs: beyond the time budget of either tier)
    uconsts = {"V2All": not ctx.quick, "TwoAll": False, "SetAll": False}
    extra = ctx.pick(500, 20000)
    if replay_case is not None:
        extra = 0
    phase, t0 = {}, time.time()

    def lap(name):
        nonlocal t0
        phase[name] = round(time.time() - t0, 1)
        t0 = time.time()
        ctx.cov["phase_wall_s"] = phase
    # 1. model check the transcription against the reference decoders; export the cases
    #    (a replay re-runs one stored case on the real code: no model check)
    wd = ctx.stage("mc", FAMS)
    cases = wd / "cases.ndjson"
    if replay_case is not None:
        rig.write_ndjson(cases, [dict(replay_case, id=1)])
    else:
        wdu = ctx.stage("mc_url", FAMS)
        rig.write_cfg(wd / "MC_Escapers.cfg", constants=consts, invariants=MC_INVS)
        rig.write_cfg(wdu / "MC_EscapersUrl.cfg", constants=uconsts, invariants=MCU_INVS)
        wu = max(2, rig.NCPU // 4)          # the two model checks run at the same time (the small one on extra workers)
        with ThreadPoolExecutor(max_workers=2) as ex:
            f1 = ex.submit(ctx.tlc, wd, "MC_Escapers", workers=rig.NCPU, timeout=ctx.pick(240, 780),
                           coverage=not ctx.quick)
            f2 = ex.submit(ctx.tlc, wdu, "MC_EscapersUrl", workers=wu, timeout=ctx.pick(240, 780), coverage=not ctx.quick)
            r, ru = f1.result(), f2.result()
        ctx.cov.update(states=r.distinct + ru.distinct, transitions=r.generated + ru.generated,
                       states_by_model={"MC_Escapers": r.distinct, "MC_EscapersUrl": ru.distinct},
                       mc_wall_s=round(max(r.wall, ru.wall), 1), mc_invariants=MC_INVS + MCU_INVS,
                       bounds=json.dumps(dict(consts, **uconsts), sort_keys=True))
        cex = []
        for res, mod, d in ((r, "MC_Escapers", wd), (ru, "MC_EscapersUrl", wdu)):
            if not res.ok:
                if res.invariant_violated:
                    # counterexample on the implementation-shaped model: diagnostic; the verdict is decided on the real code
                    cex.append({"invariants": res.invariant_violated, "tlc_out": str(d / (mod + ".out"))})
                else:
                    raise Infra(f"{mod} failed: {d}/{mod}.out\n" + rig.tail(res.out, 30))
        if cex:
            ctx.cov["model_counterexample"] = cex[0] if len(cex) == 1 else {"models": cex}
        if not ctx.quick:
            ctx.cov["actions_never_taken"] = r.coverage_zero() + ru.coverage_zero()
        if not cases.exists():
            raise Infra("no cases.ndjson exported by MC_Escapers")
        if not (wdu / "cases_url.ndjson").exists():
            raise Infra("no cases_url.ndjson exported by MC_EscapersUrl")
        with open(cases, "ab") as f:        # one case file: single values, then URL programs
            f.write((wdu / "cases_url.ndjson").read_bytes())
    lap("model_check_and_export")
    # 2. replay into the real templates
    obs = ctx.work / "obs.ndjson"
    ctx.drive("c07", cases, obs, args=["-extra", str(extra)])
    allobs = rig.read_ndjson(obs)
    if not allobs:
        raise Infra("the driver produced no observation")
    notok = [o for o in allobs if o["st"] != "ok"]
    ctx.cov.update(evaluations=len(allobs), traces_validated_against_impl=len(allobs) - len(notok),
                   distinct_nontrivial=len({okey(o) for o in allobs if o["st"] == "ok" and not trivial(o)}),
                   rule=RULE, exhaustive=True, cases=len({o["id"] for o in allobs}), random_cases=extra,
                   samples=[sample(o) for o in rig.pick_samples(allobs, 4, ctx.seed)],
                   url_programs=sum(1 for o in allobs if is_prog(o)),
                   not_rendered=len(notok), ref_undefined=0)
    if notok:
        kinds = {}
        for o in notok:
            kinds[o["st"]] = kinds.get(o["st"], 0) + 1
        ctx.cov["not_rendered_kinds"] = kinds
        ctx.cov["not_rendered_example"] = dict(sample(notok[0]), out=rig.b2s(notok[0]["out"])[:200])
        if kinds.get("nodelim"):
            raise Infra("the fixed text of a template was not found around the value in %d outputs (driver assumption "
                        "broken): %s" % (kinds["nodelim"], ctx.cov["not_rendered_example"]))
        if len(notok) == len(allobs):
            raise Infra("no template rendered: %s" % ctx.cov["not_rendered_example"])
    lap("build_and_drive")
    # 3. judge every observation by the Trace spec
    bads, diag = judge(ctx, "trace", allobs)
    if diag.get("records") != len(allobs):
        raise Infra("Trace_Escapers consumed %s of %d records" % (diag.get("records"), len(allobs)))
    ctx.cov["bad_records_first_pass"] = diag["nbad"]
    ctx.cov["ref_undefined"] = diag["ref_undefined"]     # URL programs without a query value slot the reference can judge
    ctx.cov["model_output_mismatch"] = {"transcription_as_found(prefixWithSpace a..b; srcset comma only clears query)": diag["drift_asfound"],
                                        "transcription_with_fix(prefixWithSpace a..f; srcset comma starts a new URL)": diag["drift_fixed"]}
    both = diag["drift_both"]
    if both:
        ctx.cov["model_drift"] = ("real output differs from BOTH transcriptions of the escapers on %d of %d records "
                                  "(diagnostic only; the verdict is from the reference decoders)" % (both, diag["records"]))
    lap("judge")
    # 4. reproduction guard: the failing cases again, in a fresh process, judged again
    confirmed = []
    if bads:
        bads = bads[:300]       # (the Trace spec keeps at most 400 representatives per run; 10 are reported)
        seen, cc = set(), []
        for b in bads:
            key = okey(b["obs"])
            if key not in seen:
                seen.add(key)
                cc.append(dict(case_of(b["obs"]), id=len(cc) + 1))
        rig.write_ndjson(ctx.work / "confirm_cases.ndjson", cc)
        ctx.drive("c07", ctx.work / "confirm_cases.ndjson", ctx.work / "confirm_obs.ndjson")
        b2, _ = judge(ctx, "trace_confirm", rig.read_ndjson(ctx.work / "confirm_obs.ndjson"))
        keys2 = {json.dumps(b["sig"], sort_keys=True) for b in b2}
        confirmed = [b for b in bads if json.dumps(b["sig"], sort_keys=True) in keys2]
        ctx.cov["unreproduced"] = len(bads) - len(confirmed)
        for b in confirmed:
            b["what"] = sample(b["obs"])
    # 5. sensitivity self-test: corrupted observations must be rejected by the same Trace spec
    #    (own run: the Trace spec keeps one record per signature, and a corrupted copy has the signature of its original)
    okobs = [o for o in allobs if o["st"] == "ok"]
    single = [o for o in okobs if not is_prog(o)]
    progs = [o for o in okobs if is_prog(o)]
    st = [corrupt(json.loads(json.dumps(o))) for o in
          rig.pick_samples([o for o in single if not trivial(o)] or single, 3, ctx.seed + 7)
          + rig.pick_samples(progs, 2, ctx.seed + 8)]
    for i, o in enumerate(st):
        o["id"] = 900001 + i
    _, d3 = judge(ctx, "trace_selftest", st)
    ctx.cov["sensitivity_selftest"] = {"corrupted": len(st), "rejected": d3["nbad"]}
    if d3["nbad"] < len(st):
        raise Infra(f"sensitivity self-test failed: {len(st)} corrupted observations, only {d3['nbad']} rejected")

    lap("confirm_and_selftest")
    # 6. verdict
    def rw(rdir, b):
        (rdir / "case.json").write_text(json.dumps(case_of(b["obs"])))
        (rdir / "obs.json").write_text(json.dumps(b["obs"]))
    return ctx.report(confirmed, replay_writer=rw)


def replay(ctx, path):
    c = json.loads((path / "case.json").read_text())
    return run(ctx, replay_case=c)

"""C07 - escaped values decode back to the exact original text (DESIGN section 7 C07)."""
import json
import rig
from rig import Infra

META = {
    "title": "Escaped values decode back to the original",
    "engine": "Escapers",
    "technique": "TLA+ reference decoders written from the standards (HTML character references, ECMAScript and JSON string literals, CSS escapes, percent-decoding) + branch-by-branch transcription of scriggo's escapers, model-checked by TLC (Decode(Escape(s)) = s for every string over per-language class alphabets); the same strings, the slice 'escape-relevant byte x every ASCII successor' and seeded random valid/invalid UTF-8 are rendered by real templates in 12 string-bearing contexts and every rendered slice is decoded and judged by the TLC Trace spec",
    "level": "model_checking",
    "level_text": "TLC checks, for every string of up to 3 (quick) / 4 (thorough) tokens over an 18-token class alphabet per target language, that each transcribed escaper followed by the reference decoder of its context is the identity (and that the as-found CSS separator rule fails exactly on 'hex escape followed by c-f/C-F'). The exported strings, all single bytes, the pair slice (escape-relevant byte followed by each of the 128 ASCII bytes and 8 non-ASCII successors) and seeded random strings are rendered through Template.Run in 12 contexts (HTML text, 3 attribute forms, JS string in <script> and .js, JSON string, CSS string in <style> and .css, URL query value, URL path quoted/unquoted); TLC decodes each real output slice with the reference decoder and compares it with the input.",
    "level_note": "Trusted: TLC, the Json community module, the Go driver (builds 12 fixed templates, runs them, slices the output between the fixed text, logs - no decoding in Go). The named-character-reference table of the reference holds the 55 names denoting ASCII/U+00A0 (not all 2231). Exceptions to exact equality, listed in Escapers.tla: NUL in HTML and CSS, bytes that are not valid UTF-8 outside URLs. URL path position is judged modulo pre-existing percent-escapes (reading documented in the spec). Exhaustive up to the stated token length only; <script>/<style> termination is C06.",
    "design_ref": "7/C07",
}

# Demonstrated on the unchanged tree (see the final report of the family): prefixWithSpace tests the
# hex letters 'a'..'b' / 'A'..'B' instead of 'a'..'f' / 'A'..'F'.
PROPOSED_KNOWN = [
    {"kind": "known",
     "signature": {"fam": "escapers", "cause": "css-hex-letter-after-escape"},
     "what": "CSS string escaper omits the separating space when a hex escape is followed by c d e f C D E F "
             "(internal/runtime/escapers.go prefixWithSpace tests 'a'..'b'): \"<c\" renders \\3cc, which CSS decodes as U+03CC"},
]

FAMS = ["escapers"]


def run(ctx, replay_case=None):
    consts = {"MaxLen": ctx.pick(3, 4), "GenLen": ctx.pick(3, 4), "AllCtl": not ctx.quick}
    hook = None
    replay_ids = None
    if replay_case is not None:
        case = dict(replay_case, id=1)
        replay_ids = {1}
        consts = {"MaxLen": 1, "GenLen": 0, "AllCtl": False}

        def hook(cases):
            rig.write_ndjson(cases, [case])
    rc = rig.functional(
        ctx, fams=FAMS, mc_module="MC_Escapers", mc_consts=consts,
        mc_invs=["RoundTrip", "CssAsFoundExtent", "UrlPreIdentity"],
        sub="c07", trace_module="Trace_Escapers",
        extra=ctx.pick(1500, 20000),
        case_from_obs=lambda o: {"id": o["id"], "s": o["s"], "cx": [o["ctx"]]},
        corrupt=corrupt,
        nontrivial=lambda o: o["st"] == "ok" and o["out"] != o["s"],
        sample=lambda o: {"ctx": o["ctx"], "s": rig.b2s(o["s"]), "out": rig.b2s(o["out"]), "st": o["st"]},
        rule="per target language, every string of <= GenLen tokens over its 18-token class alphabet (exported by TLC) "
             "x the contexts of that language; every single byte and every pair (escape-relevant byte, ASCII byte 0..127 "
             "or one of 8 non-ASCII successors) x 12 contexts; seeded random valid/invalid UTF-8 x 12 contexts; "
             "non-trivial = the rendered slice differs from the input",
        cases_hook=hook, replay_ids=replay_ids, mc_timeout=ctx.pick(300, 840), shard=300000,
    )
    ctx.cov["bounds"] = json.dumps(consts, sort_keys=True)
    # diagnostics written by the Trace spec (never a verdict)
    diag = {"records": 0, "nbad": 0, "drift_asfound": 0, "drift_fixed": 0, "not_rendered": 0}
    for d in sorted(ctx.work.glob("trace_[0-9]*/diag.ndjson")):
        for rec in rig.read_ndjson(d):
            for k in diag:
                diag[k] += rec[k]
    ctx.cov["bad_records_first_pass"] = diag["nbad"]
    ctx.cov["not_rendered"] = diag["not_rendered"]
    ctx.cov["ref_undefined"] = 0
    ctx.cov["model_output_mismatch"] = {"transcription_as_found(prefixWithSpace a..b)": diag["drift_asfound"],
                                        "transcription_with_fix(prefixWithSpace a..f)": diag["drift_fixed"]}
    if min(diag["drift_asfound"], diag["drift_fixed"]) > 0:
        ctx.cov["model_drift"] = ("real output differs from BOTH transcriptions on %d/%d records (diagnostic only; "
                                  "the verdict is from the reference decoders)" % (min(diag["drift_asfound"], diag["drift_fixed"]), diag["records"]))
    if diag["not_rendered"]:
        kinds = {}
        with open(ctx.work / "obs.ndjson") as f:
            for line in f:
                if '"st":"ok"' in line:
                    continue
                o = json.loads(line)
                kinds[o["st"]] = kinds.get(o["st"], 0) + 1
                ctx.cov.setdefault("not_rendered_example", {"ctx": o["ctx"], "s": rig.b2s(o["s"]), "st": o["st"], "text": rig.b2s(o["out"])[:200]})
        ctx.cov["not_rendered_kinds"] = kinds
        if kinds.get("nodelim"):
            raise Infra("the fixed text of a template was not found around the value in %d outputs (driver assumption broken): %s"
                        % (kinds["nodelim"], ctx.cov["not_rendered_example"]))
    if diag["records"] and diag["not_rendered"] == diag["records"]:
        raise Infra("no template rendered")
    return rc


def corrupt(o):
    # a decoder-visible corruption: one extra character in front of the rendered slice
    o["out"] = [90] + o["out"]
    o["st"] = "ok"
    return o


def replay(ctx, path):
    c = json.loads((path / "case.json").read_text())
    return run(ctx, replay_case=c)

"""C07 - escaped values decode back to the exact original text (DESIGN section 7 C07)."""
import json
import shutil
import time
from concurrent.futures import ThreadPoolExecutor
import rig
from rig import Infra

META = {
    "title": "Escaped values decode back to the original",
    "engine": "Escapers",
    "technique": "TLA+ reference decoders written from the standards (HTML character references, ECMAScript and JSON string literals, CSS escapes, percent-decoding) + branch-by-branch transcription of scriggo's escapers, model-checked by TLC (Decode(Escape(s)) = s for every string over per-language class alphabets); the same strings, the slice 'escape-relevant byte x every ASCII successor' and seeded random valid/invalid UTF-8 are rendered by real templates in 13 string-bearing contexts and every rendered slice is decoded and judged by the TLC Trace spec",
    "level": "model_checking",
    "level_text": "TLC checks, for every string of up to 2 (quick) / 4 (thorough) tokens over an 18-token class alphabet per target language, up to 4 (quick) / 5 (thorough) tokens over its 10-token core alphabet, every single byte and the pair slice, that each transcribed escaper followed by the reference decoder of its context is the identity (and that the as-found CSS separator rule fails exactly on 'hex escape followed by c-f/C-F'). The exported strings, all single bytes, the pair slice (escape-relevant byte followed by each of the 128 ASCII bytes and 8 non-ASCII successors) and seeded random strings are rendered through Template.Run in 13 contexts (HTML text, 3 attribute forms, JS string in <script> and .js, JSON string, CSS string in <style> and .css and a .css string where a hex letter follows the value, URL query value, URL path quoted/unquoted); TLC decodes each real output slice with the reference decoder and compares it with the input.",
    "level_note": "Trusted: TLC, the Json community module, the Go driver (builds 13 fixed templates, runs them, slices the output between the fixed text, logs - no decoding in Go). The named-character-reference table of the reference holds the 55 names denoting ASCII/U+00A0 (not all 2231). Exceptions to exact equality, listed in Escapers.tla: NUL in HTML and CSS, bytes that are not valid UTF-8 outside URLs. URL path position is judged modulo pre-existing percent-escapes (reading documented in the spec). Exhaustive up to the stated token lengths only; <script>/<style> termination is C06.",
    "design_ref": "7/C07",
}

# Demonstrated on the unchanged tree (see the final report of the family): prefixWithSpace tests the
# hex letters 'a'..'b' / 'A'..'B' instead of 'a'..'f' / 'A'..'F'.
PROPOSED_KNOWN = []   # the defect found by this check (prefixWithSpace) was fixed in /repo (known-findings.json, kind "fixed")

FAMS = ["escapers"]
MC_INVS = ["RoundTrip", "CssAsFoundExtent", "UrlPreIdentity"]
PAR = max(2, min(8, rig.NCPU // 2))       # Trace shards judged by concurrent TLC processes
RULE = ("per target language, every string of <= GenLen tokens over its 18-token class alphabet and <= GenCore tokens "
        "over its 10-token core alphabet (exported by TLC) x the contexts of that language; every single byte x 13 contexts; "
        "every pair (escape-relevant byte, ASCII byte 0..127 or one of 8 non-ASCII successors) x the contexts of the "
        "language (quick) / x 13 contexts for all 53 escape-relevant bytes (thorough); seeded random valid/invalid UTF-8 "
        "x 13 contexts; non-trivial = the rendered slice differs from the input")


def trace_judge(ctx, step, obs_path):
    """rig.trace_judge with a 2 GB heap (several of these JVMs run at the same time)."""
    wd = ctx.stage(step, FAMS)
    shutil.copy(obs_path, wd / "obs.ndjson")
    for f in ("bad.ndjson", "diag.ndjson"):
        if (wd / f).exists():
            (wd / f).unlink()
    rig.write_cfg(wd / "Trace_Escapers.cfg", invariants=["Done"], postcondition="Consumed")
    r = ctx.tlc(wd, "Trace_Escapers", workers=1, timeout=840, heap="2g")
    if not r.ok:
        raise Infra(f"Trace spec Trace_Escapers did not complete cleanly (rc={r.rc}): {wd}/Trace_Escapers.out\n" + rig.tail(r.out, 30))
    if not (wd / "bad.ndjson").exists() or not (wd / "diag.ndjson").exists():
        raise Infra(f"Trace spec Trace_Escapers wrote no bad.ndjson/diag.ndjson ({wd})")
    return rig.read_ndjson(wd / "bad.ndjson")


def judge(ctx, step, recs):
    """Judge observation records with Trace_Escapers in up to PAR concurrent TLC processes.
    Returns (bad records with 'obs' attached, summed diagnostics)."""
    nsh = max(1, min(PAR, len(recs) // 6000))
    size = (len(recs) + nsh - 1) // nsh if recs else 1
    parts = [recs[k:k + size] for k in range(0, max(len(recs), 1), size)]

    def one(i):
        p = ctx.work / f"{step}_{i}.ndjson"
        rig.write_ndjson(p, parts[i])
        b = trace_judge(ctx, f"{step}_{i}", p)
        for x in b:
            x["obs"] = parts[i][x["k"] - 1]
        return b, rig.read_ndjson(ctx.work / f"{step}_{i}" / "diag.ndjson")[0]
    with ThreadPoolExecutor(max_workers=PAR) as ex:
        res = list(ex.map(one, range(len(parts))))
    bads, diag = [], {}
    for b, d in res:
        bads += b
        for k, v in d.items():
            diag[k] = diag.get(k, 0) + v
    return bads, diag


def case_of(o):
    return {"id": o["id"], "s": o["s"], "cx": [o["ctx"]]}


def sample(o):
    return {"ctx": o["ctx"], "s": rig.b2s(o["s"]), "out": rig.b2s(o["out"]), "st": o["st"]}


def corrupt(o):
    # a decoder-visible corruption: one extra character in front of the rendered slice
    o["out"] = [90] + o["out"]
    o["st"] = "ok"
    return o


def run(ctx, replay_case=None):
    consts = {"MaxLen": ctx.pick(2, 4), "CoreLen": ctx.pick(4, 5), "GenLen": ctx.pick(2, 3), "GenCore": ctx.pick(3, 4),
              "Full": not ctx.quick}
    extra = ctx.pick(500, 20000)
    if replay_case is not None:
        extra = 0
    phase, t0 = {}, time.time()

    def lap(name):
        nonlocal t0
        phase[name] = round(time.time() - t0, 1)
        t0 = time.time()
        ctx.cov["phase_wall_s"] = phase
    # 1. model check the transcription against the reference decoders; export the cases
    #    (a replay re-runs one stored case on the real code: no model check)
    wd = ctx.stage("mc", FAMS)
    cases = wd / "cases.ndjson"
    if replay_case is not None:
        rig.write_ndjson(cases, [dict(replay_case, id=1)])
    else:
        rig.write_cfg(wd / "MC_Escapers.cfg", constants=consts, invariants=MC_INVS)
        r = ctx.tlc(wd, "MC_Escapers", workers=rig.NCPU, timeout=ctx.pick(240, 780), coverage=not ctx.quick)
        ctx.cov.update(states=r.distinct, transitions=r.generated, mc_wall_s=round(r.wall, 1), mc_invariants=MC_INVS,
                       bounds=json.dumps(consts, sort_keys=True))
        if not r.ok:
            if r.invariant_violated:
                # counterexample on the implementation-shaped model: diagnostic; the verdict is decided on the real code
                ctx.cov["model_counterexample"] = {"invariants": r.invariant_violated, "tlc_out": str(wd / "MC_Escapers.out")}
            else:
                raise Infra(f"MC_Escapers failed: {wd}/MC_Escapers.out\n" + rig.tail(r.out, 30))
        if not ctx.quick:
            ctx.cov["actions_never_taken"] = r.coverage_zero()
        if not cases.exists():
            raise Infra("no cases.ndjson exported by MC_Escapers")
    lap("model_check_and_export")
    # 2. replay into the real templates
    obs = ctx.work / "obs.ndjson"
    ctx.drive("c07", cases, obs, args=["-extra", str(extra)])
    allobs = rig.read_ndjson(obs)
    if not allobs:
        raise Infra("the driver produced no observation")
    notok = [o for o in allobs if o["st"] != "ok"]
    ctx.cov.update(evaluations=len(allobs), traces_validated_against_impl=len(allobs) - len(notok),
                   distinct_nontrivial=len({(o["ctx"], bytes(o["s"])) for o in allobs if o["st"] == "ok" and o["out"] != o["s"]}),
                   rule=RULE, exhaustive=True, cases=len({o["id"] for o in allobs}), random_cases=extra,
                   samples=[sample(o) for o in rig.pick_samples(allobs, 4, ctx.seed)],
                   not_rendered=len(notok), ref_undefined=0)
    if notok:
        kinds = {}
        for o in notok:
            kinds[o["st"]] = kinds.get(o["st"], 0) + 1
        ctx.cov["not_rendered_kinds"] = kinds
        ctx.cov["not_rendered_example"] = dict(sample(notok[0]), out=rig.b2s(notok[0]["out"])[:200])
        if kinds.get("nodelim"):
            raise Infra("the fixed text of a template was not found around the value in %d outputs (driver assumption "
                        "broken): %s" % (kinds["nodelim"], ctx.cov["not_rendered_example"]))
        if len(notok) == len(allobs):
            raise Infra("no template rendered: %s" % ctx.cov["not_rendered_example"])
    lap("build_and_drive")
    # 3. judge every observation by the Trace spec
    bads, diag = judge(ctx, "trace", allobs)
    if diag.get("records") != len(allobs):
        raise Infra("Trace_Escapers consumed %s of %d records" % (diag.get("records"), len(allobs)))
    ctx.cov["bad_records_first_pass"] = diag["nbad"]
    ctx.cov["model_output_mismatch"] = {"transcription_as_found(prefixWithSpace a..b)": diag["drift_asfound"],
                                        "transcription_with_fix(prefixWithSpace a..f)": diag["drift_fixed"]}
    both = min(diag["drift_asfound"], diag["drift_fixed"])
    if both:
        ctx.cov["model_drift"] = ("real output differs from BOTH transcriptions of the escapers on at least %d of %d records "
                                  "(diagnostic only; the verdict is from the reference decoders)" % (both, diag["records"]))
    lap("judge")
    # 4. reproduction guard: the failing cases again, in a fresh process, judged again
    confirmed = []
    if bads:
        bads = bads[:300]       # (the Trace spec keeps at most 400 representatives per run; 10 are reported)
        seen, cc = set(), []
        for b in bads:
            key = (b["obs"]["ctx"], bytes(b["obs"]["s"]))
            if key not in seen:
                seen.add(key)
                cc.append(dict(case_of(b["obs"]), id=len(cc) + 1))
        rig.write_ndjson(ctx.work / "confirm_cases.ndjson", cc)
        ctx.drive("c07", ctx.work / "confirm_cases.ndjson", ctx.work / "confirm_obs.ndjson")
        b2, _ = judge(ctx, "trace_confirm", rig.read_ndjson(ctx.work / "confirm_obs.ndjson"))
        keys2 = {json.dumps(b["sig"], sort_keys=True) for b in b2}
        confirmed = [b for b in bads if json.dumps(b["sig"], sort_keys=True) in keys2]
        ctx.cov["unreproduced"] = len(bads) - len(confirmed)
        for b in confirmed:
            b["what"] = sample(b["obs"])
    # 5. sensitivity self-test: corrupted observations must be rejected by the same Trace spec
    #    (own run: the Trace spec keeps one record per signature, and a corrupted copy has the signature of its original)
    okobs = [o for o in allobs if o["st"] == "ok"]
    st = [corrupt(json.loads(json.dumps(o))) for o in
          rig.pick_samples([o for o in okobs if o["out"] != o["s"]] or okobs, 3, ctx.seed + 7)]
    for i, o in enumerate(st):
        o["id"] = 900001 + i
    _, d3 = judge(ctx, "trace_selftest", st)
    ctx.cov["sensitivity_selftest"] = {"corrupted": len(st), "rejected": d3["nbad"]}
    if d3["nbad"] < len(st):
        raise Infra(f"sensitivity self-test failed: {len(st)} corrupted observations, only {d3['nbad']} rejected")

    lap("confirm_and_selftest")
    # 6. verdict
    def rw(rdir, b):
        (rdir / "case.json").write_text(json.dumps(case_of(b["obs"])))
        (rdir / "obs.json").write_text(json.dumps(b["obs"]))
    return ctx.report(confirmed, replay_writer=rw)


def replay(ctx, path):
    c = json.loads((path / "case.json").read_text())
    return run(ctx, replay_case=c)

"""X01 - MiniTmpl: a reference semantics of the template language's control constructs, bound to the real renderer.

Beyond the 30 listed properties: this family decides NO listed property.  It never prints a VIOLATION line;
mismatches between the reference interpreter (spec/tmplsem/TmplSem.tla) and the real BuildTemplate + Run are
printed as `DIAGNOSTIC tmplsem <signature>` lines and written to evidence-extra/X01.json.  Exit 0 unless the
machinery itself failed (exit 2): TLC error / timeout, dead driver, a violated sanity theorem of the reference,
a failed sensitivity self-test.

Pipeline: MC_TmplSem (TLC enumerates the shapes, fills them, checks the theorems on every case, exports
cases.ndjson with the source text written by the TLA+ printer) -> harness/cmd/x01 (build + run, log) ->
Trace_TmplSem (TLC re-prints and re-interprets every echoed tree and compares) -> confirm in a fresh process ->
self-test -> diagnostics.   Run: ./check X01 [--tier thorough]   (VERIF_SEED rotates the fills).
"""
import json, os, re, random, shutil, time
from concurrent.futures import ThreadPoolExecutor
from pathlib import Path
import rig
from rig import Infra

META = {
    "title": "MiniTmpl: reference semantics of the template control constructs (extension, decides no listed property)",
    "engine": "TmplSem",
    "technique": "TLA+ reference interpreter (big-step, recursive operators) of text / comment / raw / show / if / for in its three-clause, condition-only and condition-less forms / range and for in over slices, strings and one-key maps, with else / switch with fallthrough / select with a default clause / break / continue / var and assignments / macro declarations (string, int, bool parameters, bounded recursion) and calls / using in its once and macro forms / default on names and on macro calls / and-or-not with Scriggo's truth of values / import, extends and render by translation to one file; TLC enumerates every shape of templates up to a node bound, fills the expression slots by rotation, checks sanity theorems of the reference on every case, prints the source; the real renderer runs every case; a TLC Trace spec re-interprets every tree and compares outputs",
    "level": "model_checking",
    "level_text": "Quick: every shape (tree of construct kinds) of <= 3 nodes with 2 fills each, 6000 pseudo-random shapes of 4..8 nodes, 3600 expression cases (every and / or / not / comparison / arithmetic expression of depth 1 over atoms of every type + a band of depth 2, as condition and as show operand), 12 hand-written probes x 3 global configurations; thorough: every shape of <= 4 nodes (62 318) + 20 000 pseudo-random shapes of 5..9 nodes. About a third of the cases that are valid in HTML run as index.html, the others as index.txt; three configurations of host globals. TLC checks seven sanity theorems of the reference on every case (two states per case), the real BuildTemplate + Run renders every case, TLC re-prints and re-interprets every tree and compares.",
    "level_note": "Diagnostic family: its mismatches are classified by hand (reference wrong / Scriggo departs from its documentation or from Go).",
    "design_ref": "extension X01",
}
FAMS = ["tmplsem"]
THEOREMS = ["ThInDomain", "ThIfTrue", "ThForZeroElse", "ThUsingShow", "ThMacroCall", "ThOnceVsMacro", "ThLayout", "ThSize"]

# ---- hand classification of the mismatches seen so far (pattern on the signature computed by Trace_TmplSem; "*" and
# sub-dict matching as in known-findings.json).  class: "known" = a departure of Scriggo that is already recorded for a
# listed property, "scriggo" = Scriggo departs from its own documentation / tests or from Go (reported to the integrator),
# anything unmatched is printed as "unclassified".
CLASSIFIED = [
    {"signature": {"cause": "fallthrough-after-macro-or-using-refused"}, "class": "scriggo",
     "what": "regression of 304e9cf: a fallthrough that IS the last statement of its clause is refused ('fallthrough statement out of place') when the "
             "clause contains a using statement or a macro declaration, because checkNodes replaces `nodes` with a transformed copy before the identity "
             "test `&cas.Body[0] == &nodes[0]`.  Go: fallthrough may be the last statement of a clause.  Fix: /tmp/x01_fix_fallthrough_after_using.diff"},
    {"signature": {"cause": "continue-after-or-in-for-without-condition"}, "class": "scriggo",
     "what": "`for { }` / `for ;; post { }` (no condition): the emitter never pops the loop's label from rangeLabels and uses the head (not the post "
             "statement) as the continue target: a continue AFTER such a loop in an enclosing loop targets the finished inner loop (the run ends silently "
             "or loops), and a continue inside `for i := 0; ; i++` skips i++ (infinite loop).  Fix: /tmp/x01_fix_for_without_condition.diff"},
    {"signature": {"cause": "map-range-key-in-wrong-register"}, "class": "scriggo",
     "what": "`for k := range m` / `for k in m` over a map with non-int keys: emitForRange allocates the key variable with newRegister(reflect.Int) whatever "
             "its type, so a string key is written to / read from the string register of that NUMBER: it clobbers another string variable "
             "(`s := \"k\"; for w := range map[string]int{\"a\": 7} { s += w }` gives \"aa\", gc \"ka\").  Fix: /tmp/x01_fix_range_map_key_register.diff"},
    {"signature": {"cause": "run-error-in-nested-macro-call-panics-into-host"}, "class": "scriggo",
     "what": "a run-time error inside a block-level macro (closure) called from another block-level macro makes Template.Run PANIC into the host instead "
             "of returning a *PanicError: the inner closure runs in a nested VM whose PanicError is rethrown as a fatalError "
             "(`{% macro Q %}{{ l[5] }}{% end %}{% macro Main %}{{ Q() }}{% end %}{{ Main() }}`).  Fix: /tmp/x01_fix_closure_panic_not_fatal.diff"},
    {"signature": {"cause": "context-not-restored-after-end-using"}, "class": "scriggo",
     "what": "lexer: the `using` of `{% end using %}` is taken for the start of a using statement and pushes a context that nothing pops; inside a "
             "macro / using body with a written type (string) the HTML context is then not restored after the outer {% end %}: the rest of the "
             "file is lexed as text - a following macro declaration is refused ('macro not in HTML content') and, worse, values shown after it "
             "are NOT HTML-escaped (`{% macro N() string %}V{% show itea; using %}O{% end using %}x{% end macro %}{{ \"<b>\" }}` renders <b>). "
             "Proposed fix: /tmp/x01_fix_end_using_context.diff"},
    {"signature": {"cause": "break-in-range-nested-in-for-or-switch"}, "class": "scriggo",
     "what": "a break in a range / for-in loop nested in a three-clause for or in a switch leaves the ENCLOSING for / switch (emitForRange does not "
             "reset emitter.breakable / breakLabel); across a macro / using body it jumps to a label of another function and the run does not end. "
             "Go: a break terminates the innermost for / switch.  Proposed fix: /tmp/x01_fix_nested_loops.diff"},
    {"signature": {"cause": "continue-in-for-nested-in-range"}, "class": "scriggo",
     "what": "a continue in a three-clause for nested in a range / for-in loop ends the whole run silently, without an error (case *ast.For does not "
             "reset emitter.inForRange, so the continue is emitted as OpContinue with the address of the for's post statement, which no active range "
             "recognises).  Go: a continue begins the next iteration of the innermost for.  Proposed fix: /tmp/x01_fix_nested_loops.diff"},
    {"signature": {"cause": "one-loop-variable-for-all-iterations"}, "class": "known",
     "what": "closures (macros stored by `using macro`) created in a loop share ONE loop variable for all iterations (pre-Go-1.22 semantics); "
             "same root cause as the C01 known finding {fam: minigo, shape: closures:loopvar}"},
]

# ---- the token table of the printer (spec/tmplsem/TmplText.tla), regenerated at every run from the sources
ENV_NAMES = ["n", "m", "s", "t", "b", "c", "l", "q", "i", "v", "w", "u", "p", "k", "y", "f", "M", "P", "K", "W", "xs", "N", "O", "Q", "itea", "zz", "yy", "ZZ",
             "Main", "V", "Body", "Side", "R", "Top"]
OTHER_TOKENS = ["_", "gs", "gn", "gu", "+", "-", "*", "/", "%", "==", "!=", "<", "<=", ">", ">=", "=", "+=", "-=", "++", "--",
                "int", "string", "bool", "...int", "...", "a", "html", "txt", "if", "for", "switch", "select", "raw", "macro", "using", "break", "continue", "index", "f", "l", "p", "q"]


def text_module(srcs):
    keys = []
    for s in srcs:
        for m in re.finditer(r'TtS\("((?:[^"\\]|\\.)*)"\)', s):
            if m.group(1) not in keys:
                keys.append(m.group(1))
    for k in ENV_NAMES + OTHER_TOKENS:
        if k not in keys:
            keys.append(k)
    rows = ['  ("%s" :> <<%s>>)' % (k, ", ".join(str(b) for b in k.encode())) for k in keys]
    return "\n".join([
        "------------------------------ MODULE TmplText ------------------------------",
        "(* Token texts of the template language as byte sequences (TLC cannot index TLA+ strings): every string literal",
        "   that the specification passes to TtS, the names of the fixed name universe, the operators, type names and",
        "   keywords.  GENERATED by checks/x01.py (text_module) from the specification's sources; rewritten at every run. *)",
        "EXTENDS Integers, Sequences, TLC",
        "TtNames == {" + ", ".join('"%s"' % n for n in ENV_NAMES) + "}",
        "TtTab ==",
        " @@\n".join(rows),
        "TtS(k) == TtTab[k]",
        "=============================================================================",
    ]) + "\n"


def stage(ctx, step, cfg=None):
    wd = ctx.stage(step, FAMS)
    srcs = [(rig.SPEC / "tmplsem" / f).read_text() for f in ("TmplSem.tla", "MC_TmplSem.tla", "Trace_TmplSem.tla")]
    (wd / "TmplText.tla").write_text(text_module(srcs))
    if cfg:
        (wd / "TmplSemCfg.tla").write_text(
            "----------------------------- MODULE TmplSemCfg -----------------------------\n"
            + "".join(f"{k} == {rig.tla_value(v)}\n" for k, v in cfg.items())
            + "=============================================================================\n")
    return wd


def params(ctx):
    # quick: every shape of <= 4 nodes, one fill each; thorough: <= 4 nodes with 3 fills + every 12th shape of <= 5 nodes
    # quick: every shape of <= 3 nodes (2 fills each) + 6000 pseudo-random shapes of 4..8 nodes
    # thorough: every shape of <= 4 nodes + 20000 pseudo-random shapes of 5..9 nodes
    base = ctx.pick({"TmplMaxNodes": 3, "TmplVariants": 2, "TmplStride": 1, "TmplDeep": 6000, "TmplDeepMin": 4, "TmplDeepMax": 8, "TmplFamilies": "all"},
                    {"TmplMaxNodes": 4, "TmplVariants": 1, "TmplStride": 1, "TmplDeep": 20000, "TmplDeepMin": 5, "TmplDeepMax": 9, "TmplFamilies": "all"})
    parts = ctx.pick(1, 3)      # parallel TLC processes (the generation of a process is single-threaded)
    return [dict(base, TmplParts=parts, TmplPart=k) for k in range(parts)]


def generate(ctx, k, p):
    """MC_TmplSem, phase "gen" (one worker; measured: with several workers TLC evaluates the single-threaded generation about
    6 times slower): enumerates the shapes, fills and prints them, exports cases.ndjson and frame.ndjson"""
    wd = stage(ctx, f"mc{k}", dict(p, TmplSeed=ctx.seed, TmplPhase="gen"))
    rig.write_cfg(wd / "MC_TmplSem.cfg", invariants=[])
    g = ctx.tlc(wd, "MC_TmplSem", workers=1, timeout=ctx.pick(600, 2400), heap="6g")
    if not g.ok or not (wd / "cases.ndjson").exists() or not (wd / "frame.ndjson").exists():
        raise Infra(f"MC_TmplSem (generation) did not complete: {wd}/MC_TmplSem.out\n" + rig.tail(g.out, 25))
    shutil.copy(wd / "MC_TmplSem.out", wd / "MC_TmplSem.gen.out")
    cases = rig.read_ndjson(wd / "cases.ndjson")
    return {"wd": wd, "p": p, "k": k, "cases": cases, "gen_wall_s": round(g.wall, 1), "shapes_filled": len({c["shape"] for c in cases if c["fam"] == "ctl"}),
            "bounds": f"shapes of <= {p['TmplMaxNodes']} nodes (every {p['TmplStride']}-th, offset by the seed), {p['TmplVariants']} fill(s) per shape; "
                      f"{p['TmplDeep']} pseudo-random shapes of {p['TmplDeepMin']}..{p['TmplDeepMax']} nodes; families {p['TmplFamilies']}"}


def theorems(ctx, g):
    """MC_TmplSem, phase "check": reads the exported cases back and checks the sanity theorems of the reference on every one"""
    wd = g["wd"]
    stage(ctx, f"mc{g['k']}", dict(g["p"], TmplSeed=ctx.seed, TmplPhase="check"))
    rig.write_cfg(wd / "MC_TmplSem.cfg", invariants=THEOREMS)
    r = ctx.tlc(wd, "MC_TmplSem", workers=max(2, rig.NCPU // 2), timeout=ctx.pick(600, 2400), extra=["-continue"], heap="6g")
    done = re.search(r"\d+ states generated, \d+ distinct states found, 0 states left on queue", r.out)
    if not done or r.distinct == 0:
        raise Infra(f"MC_TmplSem (theorems) did not complete: {wd}/MC_TmplSem.out\n" + rig.tail(r.out, 25))
    viol = {}
    for name in r.invariant_violated:
        viol[name] = viol.get(name, 0) + 1
    if viol:
        raise Infra(f"sanity theorems of the reference violated (the reference is inconsistent): {viol}; see {wd}/MC_TmplSem.out")
    if r.distinct != 2 * len(g["cases"]):
        raise Infra(f"MC_TmplSem checked {r.distinct} states for {len(g['cases'])} cases (expected two states per case)")
    return {"states": r.distinct, "transitions": r.generated, "wall_s": round(r.wall, 1)}


OBS_KEYS = ("id", "fam", "fmt", "lay", "pre", "glob", "tree", "src", "outcome", "out")


def judge(ctx, step, observations, shards=None):
    """Trace_TmplSem over the observations, sharded over parallel TLC processes -> (bad records with obs, summed stats)"""
    shards = shards or max(1, min(rig.NCPU, 8, len(observations) // 4000 + 1))
    size = (len(observations) + shards - 1) // shards or 1
    parts = [observations[i:i + size] for i in range(0, max(len(observations), 1), size)]

    def one(k):
        wd = stage(ctx, f"{step}_{k}")
        rig.write_ndjson(wd / "obs.ndjson", [{x: o[x] for x in OBS_KEYS} for o in parts[k]])
        rig.write_cfg(wd / "Trace_TmplSem.cfg", invariants=["Done"], postcondition="Consumed")
        r = ctx.tlc(wd, "Trace_TmplSem", workers=1, timeout=ctx.pick(600, 2400), heap="3g")
        if not r.ok or not (wd / "bad.ndjson").exists() or not (wd / "stats.ndjson").exists():
            raise Infra(f"Trace_TmplSem did not complete cleanly: {wd}/Trace_TmplSem.out\n" + rig.tail(r.out, 25))
        bad = rig.read_ndjson(wd / "bad.ndjson")
        for b in bad:
            b["obs"] = parts[k][b["k"] - 1]
        return bad, rig.read_ndjson(wd / "stats.ndjson")[0]

    with ThreadPoolExecutor(max_workers=len(parts)) as ex:
        res = list(ex.map(one, range(len(parts))))
    bads = [b for r in res for b in r[0]]
    stats = {}
    for _, s in res:
        for k, v in s.items():
            stats[k] = stats.get(k, 0) + v
    return bads, stats


def corrupted(allobs, seed):
    """observations the judge must reject: an output byte flipped, an output byte dropped, a run reported as build error,
    an error-free run of a template whose reference run fails is not constructible here, so: an ok run turned into runerror"""
    rng = random.Random(seed + 7)
    ok = [o for o in allobs if o["outcome"] == "ok" and o["out"]]
    rng.shuffle(ok)
    out = []

    def clone(o, kind):
        c = json.loads(json.dumps(o))
        c["id"] = 9000000 + len(out)
        c["_kind"] = kind
        return c
    for o in ok[:2]:
        c = clone(o, "flip-output-byte")
        c["out"][len(c["out"]) // 2] ^= 1
        out.append(c)
    for o in ok[2:4]:
        c = clone(o, "drop-output-byte")
        del c["out"][-1]
        out.append(c)
    for o in ok[4:5]:
        c = clone(o, "ok-reported-as-builderror")
        c["outcome"], c["out"] = "builderror", []
        out.append(c)
    for o in ok[5:6]:
        c = clone(o, "ok-reported-as-runerror")
        c["outcome"] = "runerror"
        out.append(c)
    return out


def show(o):
    return {"fmt": o["fmt"], "fam": o["fam"], "layout": o["lay"], "globals": {g["n"]: (rig.b2s(g["s"]) if g["t"] == "str" else g["i"]) for g in o["glob"]},
            "src": rig.b2s(o["src"]), "outcome": o["outcome"], "out": rig.b2s(o["out"]), "msg": o.get("msg", "")[:200]}


def classify(sig):
    for k in CLASSIFIED:
        if rig.sig_match(k["signature"], sig):
            return k
    return None


def evidence_path(ctx):
    d = rig.ROOT / "evidence-extra" if str(rig.REPO) == "/repo" else ctx.work
    d.mkdir(exist_ok=True)
    return d / "X01.json"


def run(ctx, only_cases=None, frame=None):
    os.environ.setdefault("JAVA_TOOL_OPTIONS", "-XX:ParallelGCThreads=4")
    # this family's evidence never goes to evidence/ (that directory describes the listed properties)
    ctx.write_evidence = lambda violations=0: write_evidence(ctx)
    ctx.level = "model_checking"
    pool = ThreadPoolExecutor(max_workers=8)
    thm = []
    if only_cases is None:
        ps = params(ctx)
        gens = list(pool.map(lambda kp: generate(ctx, *kp), enumerate(ps)))
        # the theorems are checked while the cases are driven and judged
        thm = [pool.submit(theorems, ctx, g) for g in gens]
        cases, seen = [], set()
        for g in gens:
            for c in g["cases"]:
                key = (c["fmt"], c["lay"], json.dumps(c["glob"]), bytes(c["src"]))
                if key not in seen:
                    seen.add(key)
                    cases.append(c)
        frame = gens[0]["wd"] / "frame.ndjson"
        ctx.cov.update(gen_wall_s=max(g["gen_wall_s"] for g in gens), shapes_filled=sum(g["shapes_filled"] for g in gens),
                       bounds=gens[0]["bounds"] + (f" (generated by {len(gens)} TLC processes)" if len(gens) > 1 else ""))
    else:
        cases = only_cases
    ctx.cov["layouts"] = {fr["lay"]: {f["name"] + ".txt": rig.b2s(f["head"]) + ("<TREE>" if f["hole"] else "") + rig.b2s(f["tail"]) for f in fr["files"]}
                          for fr in rig.read_ndjson(frame) if fr["fmt"] == "txt"}
    cfile = ctx.work / "cases.ndjson"
    rig.write_ndjson(cfile, cases)
    obs = ctx.work / "obs.ndjson"
    t0 = time.time()
    ctx.drive("x01", cfile, obs, args=["-frame", frame])
    allobs = rig.read_ndjson(obs)
    if len(allobs) != len(cases):
        raise Infra(f"driver returned {len(allobs)} observations for {len(cases)} cases")
    t1 = time.time()
    # the sensitivity self-test rides along: corrupted copies of observations (ids >= 9000000) must be rejected by the same judge
    st = corrupted(allobs, ctx.seed)
    if not st and only_cases is None:
        raise Infra("sensitivity self-test: no observation to corrupt")
    bads, stats = judge(ctx, "trace", allobs + st)
    rej = {b["id"] for b in bads if b["id"] >= 9000000}
    ctx.cov["sensitivity_selftest"] = {"corrupted": len(st), "rejected": len(rej), "kinds": sorted({o["_kind"] for o in st})}
    if len(rej) < len(st):
        raise Infra(f"sensitivity self-test failed: {len(st)} corrupted observations, only {len(rej)} rejected")
    bads = [b for b in bads if b["id"] < 9000000]
    stats["records"] -= len(st)
    stats["bad"] -= len(st)
    ctx.cov["drive_wall_s"], ctx.cov["judge_wall_s"] = round(t1 - t0, 1), round(time.time() - t1, 1)
    if thm:
        res = [f.result() for f in thm]
        ctx.cov.update(states=sum(r["states"] for r in res), transitions=sum(r["transitions"] for r in res),
                       mc_wall_s=max(r["wall_s"] for r in res), mc_invariants=THEOREMS)
    judged = stats["records"] - stats["ref_undefined"]
    count = lambda key: {k: sum(1 for o in allobs if key(o) == k) for k in sorted({key(o) for o in allobs})}
    ctx.cov.update(
        evaluations=len(allobs), traces_validated_against_impl=judged, ref_undefined=stats["ref_undefined"],
        reference_runerror_cases=stats["ref_runerror"], outcomes=count(lambda o: o["outcome"]), per_format=count(lambda o: o["fmt"]),
        per_family=count(lambda o: o["fam"]), distinct_nontrivial=len({(o["fmt"], bytes(o["src"])) for o in allobs if o["outcome"] == "ok" and o["out"]}),
        rule="every shape of the grammar up to the node bound is enumerated, its expression slots are filled by rotation (a sample of the "
             "product of the alternatives: not exhaustive); plus pseudo-random deeper shapes, every expression of the expr family, the probes; "
             "non-trivial = built, run and rendered at least one byte",
        exhaustive=False, samples=[show(o) for o in rig.pick_samples([o for o in allobs if o["outcome"] == "ok"] or allobs, 4, ctx.seed)],
        judged_bad_first_pass=stats["bad"], agreement_rate=round(1 - stats["bad"] / max(judged, 1), 6))
    if stats["ref_undefined"]:
        raise Infra(f"the reference has no opinion on {stats['ref_undefined']} of its own cases (printer / interpreter out of step with the generator)")
    # ---- reproduction guard: the mismatching cases again in a fresh driver process, judged by one more run of the same Trace spec
    by_id = {c["id"]: c for c in cases}
    cobs = []
    if bads:
        cc = ctx.work / "confirm_cases.ndjson"
        rig.write_ndjson(cc, [by_id[i] for i in sorted({b["id"] for b in bads})])
        co = ctx.work / "confirm_obs.ndjson"
        ctx.drive("x01", cc, co, args=["-frame", frame])
        cobs = rig.read_ndjson(co)
    confirmed = []
    if cobs:
        b2, _ = judge(ctx, "trace_confirm", cobs, shards=1)
        again = {(b["id"], json.dumps(b["sig"], sort_keys=True)) for b in b2}
        confirmed = [b for b in bads if (b["id"], json.dumps(b["sig"], sort_keys=True)) in again]
    ctx.cov["unreproduced"] = len(bads) - len(confirmed)
    # ---- diagnostics: one line per signature, the shortest witness first
    groups = {}
    for b in sorted(confirmed, key=lambda b: (len(b["obs"]["src"]), b["id"])):
        groups.setdefault(json.dumps(b["sig"], sort_keys=True), []).append(b)
    by_cause = {}
    diags = []
    for sk, lst in groups.items():
        b = lst[0]
        k = classify(b["sig"])
        by_cause.setdefault(b["sig"]["cause"], []).append((sk, lst))
        diags.append({"signature": b["sig"], "cases": len(lst), "class": k["class"] if k else "unclassified", "what": k["what"] if k else "",
                      "witness": dict(show(b["obs"]), id=b["id"], reference_outcome=b["refoutcome"], reference_out=rig.b2s(b["refout"]))})
    shown = 0
    for cause, sigs in sorted(by_cause.items()):
        for sk, lst in sigs[:6]:
            d = next(x for x in diags if json.dumps(x["signature"], sort_keys=True) == sk)
            w = d["witness"]
            print(f"DIAGNOSTIC tmplsem {sk} [{len(lst)} case(s); {d['class']}]")
            print(f"  source ({w['fmt']}, layout {w['layout']}, globals {w['globals']}): {w['src']}")
            print(f"  reference: {w['reference_outcome']} {w['reference_out']!r}   real: {w['outcome']} {w['out']!r} {w['msg']}")
            shown += 1
        if len(sigs) > 6:
            print(f"DIAGNOSTIC tmplsem cause={cause}: {len(sigs) - 6} more signature(s), see evidence-extra/X01.json")
    rroot = evidence_path(ctx).parent / "X01-replays"
    if only_cases is None:
        shutil.rmtree(rroot, ignore_errors=True)
    for n, d in enumerate(diags[:40] if only_cases is None else [], 1):
        rdir = rroot / str(n)
        rdir.mkdir(parents=True)
        (rdir / "case.json").write_text(json.dumps(by_id[d["witness"]["id"]]))
        shutil.copy(frame, rdir / "frame.ndjson")
        (rdir / "diagnostic.json").write_text(json.dumps(d, indent=1))
        d["replay"] = f"./check X01 --replay {rdir}"
    ctx.cov["diagnostics"] = diags[:200]
    ctx.cov["diagnostic_signatures"] = len(diags)
    ctx.cov["diagnostic_cases_by_cause"] = {c: sum(len(l) for _, l in s) for c, s in by_cause.items()}
    ctx.cov["diagnostic_cases_by_class"] = {}
    for d in diags:
        ctx.cov["diagnostic_cases_by_class"][d["class"]] = ctx.cov["diagnostic_cases_by_class"].get(d["class"], 0) + d["cases"]
    ctx.cov["violations_distinct_signatures"] = 0       # decides no listed property
    ctx.nviol = 0
    print(f"X01: {len(allobs)} cases, {judged} judged, {stats['bad']} mismatches ({len(confirmed)} reproduced, {len(diags)} signatures), "
          f"agreement {ctx.cov['agreement_rate']:.4%}; evidence {evidence_path(ctx)}")
    return 0


def write_evidence(ctx):
    ev = {"property_id": "X01", "tier": ctx.tier, "seed": ctx.seed, "level": ctx.level, "coverage": ctx.cov,
          "assumptions": ["decides no listed property: mismatches are diagnostics, classified by hand"],
          "wall_s": round(time.time() - ctx.t0, 2), "violations": 0}
    evidence_path(ctx).write_text(json.dumps(ev, indent=1, sort_keys=True) + "\n")


def replay(ctx, path):
    c = json.loads((Path(path) / "case.json").read_text())
    return run(ctx, only_cases=[c], frame=Path(path) / "frame.ndjson")

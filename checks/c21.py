"""C21 - build errors point at a real location in the reported file (DESIGN 7/C21)."""
import rig

META = {
    "engine": "Pos",
    "technique": "TLA+ reference LineCol (lib/Utf8) + model of the lexer's line/column counters model-checked by TLC over all sequences of position-shifting pieces; the same piece sequences followed by error fragments (programs and templates) plus seeded corpus mutations are built by the real code and every *BuildError's path/offsets/line/column is judged by a TLC Trace spec",
    "level": "model_checking",
    "level_text": "TLC checks that the lexer's counting rule (newline -> next line, every character start byte -> next column) agrees with the reference LineCol on every sequence of <=3 (quick) / <=4 (thorough) pieces drawn from: ASCII, LF, CRLF, tab, 2- and 3-byte characters, multi-line block comment, line comment, multi-line raw string, string, template comment. Each sequence is then used as the prefix of 5 program and 5 template error fragments and built for real; a second TLC-exported space puts 1-2 position-shifting pieces (rune, string and raw-string literals with multi-byte characters, a comment) inside the expression before the token in error; and seeded mutations of the repository corpus are added; for every *BuildError: the path is a file of the build, 0 <= start <= len, end within the file, and (line, column) is the line/column of a byte offset in [start, end].",
    "level_note": "Reading of 'line and column are those of the start offset' chosen so that intended behaviour passes: for expressions the code reports the operator's line/column with the whole expression's byte range, so the judge accepts any offset within [start,end] (documented in spec/pos/Pos.tla); the strict reading is reported as drift. Multi-file builds (errors in imported/extended files) are covered only through C18/C04 corpora, not here. Corpus files with 7+ digit literals are skipped (huge arrays make the compiler allocate gigabytes: a C04 finding).",
    "design_ref": "7/C21",
}


def run(ctx, replay_ids=None):
    return rig.functional(
        ctx, fams=["pos"], mc_module="MC_Pos", mc_consts={"MaxPieces": ctx.pick(3, 4)},
        mc_invs=["CountersMatchLineCol"], sub="c21", trace_module="Trace_Pos",
        extra=ctx.pick(3000, 30000), driver_args=["-j", 6],
        case_from_obs=lambda o: {"id": o["id"], "kind": o["kind"], "entry": o["entry"], "files": o["files"]},
        corrupt=corrupt,
        nontrivial=lambda o: o["outcome"] == "builderror" and o["line"] > 1,
        sample=lambda o: {"src": rig.b2s(o["file"])[:300], "path": o["path"], "line": o["line"], "column": o["column"], "start": o["start"], "end": o["end"], "msg": o["msg"]},
        rule="every sequence of <=MaxPieces position-shifting pieces x 5 error fragments, as program and as template (exported by TLC), plus seeded corpus mutations; non-trivial = a *BuildError beyond line 1",
        replay_ids=replay_ids, mc_workers=8, exhaustive=True,
    )


def corrupt(o):
    if o["outcome"] != "builderror":
        return None
    o["line"] += 1
    return o


def replay(ctx, path):
    import json
    c = json.loads((path / "case.json").read_text())
    return run(ctx, replay_ids={c["id"]})

"""C22 - native package and importer lookups follow their documented contracts (DESIGN 7/C22)."""
import json, rig
from rig import Infra

META = {
    "engine": "Lookup",
    "technique": "TLA+ state machine of the LookupFunc/Lookup/Import contracts; TLC explores all configurations x callback scripts x map iteration orders; event logs of the real native.Package/CombinedPackage/CombinedImporter are validated by a TLC trace spec that infers the unlogged iteration order",
    "level": "model_checking",
    "level_text": "The contract is a small nondeterministic state machine (Lookup.tla). TLC checks its invariants (once per distinct name, stop at first error, return contract, termination) for every configuration of <=3 packages over 3-4 names, every callback script and every iteration order, exports every configuration as a case, and then validates the event log of the real code for every case against the same actions (trace validation with inferred nondeterminism).",
    "level_note": "Trusted: TLC, Json module, the driver that scripts the callback and logs events (no oracle in Go). Nested CombinedPackage values and user-defined ImportablePackage implementations are not generated.",
    "design_ref": "7/C22, Appendix E",
}

FAMS = ["lookup"]


def run(ctx, only_ids=None):
    consts = {"Names": {"a", "b", "c"} if ctx.quick else {"a", "b", "c", "d"}, "MaxPkgs": ctx.pick(2, 3), "MaxAt": ctx.pick(3, 4)}
    wd = ctx.stage("mc", FAMS)
    rig.write_cfg(wd / "MC_Lookup.cfg", spec="Spec", constants=consts,
                  invariants=["OncePerName", "StopsAtFirstError", "ReturnContract"],
                  properties=["NoCallAfterStop", "Terminates"])
    r = ctx.tlc(wd, "MC_Lookup", workers=rig.NCPU, timeout=1500, coverage=not ctx.quick, must_pass=True)
    ctx.cov.update(states=r.distinct, transitions=r.generated, mc_wall_s=round(r.wall, 1),
                   mc_properties=["OncePerName", "StopsAtFirstError", "ReturnContract", "NoCallAfterStop", "Terminates"],
                   bounds=str(consts))
    if not ctx.quick:
        ctx.cov["actions_never_taken"] = r.coverage_zero()
    cases = wd / "cases.ndjson"
    if only_ids is not None:
        rig.write_ndjson(cases, [c for c in rig.read_ndjson(cases) if c["id"] in only_ids])
    obs = ctx.work / "obs.ndjson"
    ctx.drive("c22", cases, obs)
    events = rig.read_ndjson(obs)
    traces = {}
    for e in events:
        traces.setdefault(e["t"], []).append(e)
    bads = judge(ctx, "trace", obs, consts)
    ctx.cov.update(evaluations=len(traces), traces_validated_against_impl=len(traces), events=len(events),
                   distinct_nontrivial=len({json.dumps(t, sort_keys=True) for t in traces.values()
                                            if sum(1 for e in t if e["ev"] == "call") >= 1 or t[0]["ev"] == "import" and len(t[0]["chain"]) > 0}),
                   rule="every configuration (kind, package contents, callback script) and importer chain exported by TLC; a trace is non-trivial if the callback was called at least once / the chain is non-empty",
                   exhaustive=True,
                   samples=[traces[k] for k in list(traces)[:: max(1, len(traces) // 3)][:3]])
    confirmed = []
    if bads:
        ids = sorted({b["id"] for b in bads})
        cc = ctx.work / "confirm_cases.ndjson"
        allc = {c["id"]: c for c in rig.read_ndjson(cases)}
        rig.write_ndjson(cc, [allc[i] for i in ids])
        co = ctx.work / "confirm_obs.ndjson"
        ctx.drive("c22", cc, co)
        b2 = judge(ctx, "trace_confirm", co, consts)
        ok_ids = {b["id"] for b in b2}
        confirmed = [b for b in bads if b["id"] in ok_ids]
        ctx.cov["unreproduced"] = len(bads) - len(confirmed)
        for b in confirmed:
            b["what"] = "trace %s rejected at event %s: %s" % (b["id"], b["sig"]["ev"], json.dumps(traces[b["id"]])[:300])
            b["case"] = allc[b["id"]]
    # sensitivity: (1) flip a return value, (2) drop a call event, (3) duplicate a call
    st = selftest_events(traces)
    p = ctx.work / "selftest_obs.ndjson"
    rig.write_ndjson(p, [e for t in st for e in t])
    b3 = judge(ctx, "trace_selftest", p, consts)
    rej = {b["id"] for b in b3}
    ctx.cov["sensitivity_selftest"] = {"corrupted": len(st), "rejected": len(rej)}
    if len(rej) < len(st):
        raise Infra("sensitivity self-test: corrupted traces accepted")

    def rw(rdir, b):
        (rdir / "case.json").write_text(json.dumps(b.get("case")))
    return ctx.report(confirmed, replay_writer=rw)


def judge(ctx, step, obs, consts):
    wd = ctx.stage(step, FAMS)
    import shutil
    shutil.copy(obs, wd / "obs.ndjson")
    rig.write_cfg(wd / "Trace_Lookup.cfg", init="TInit", next_="TNext", constants=consts, invariants=["Done", "TraceInv"], postcondition="Consumed")
    r = ctx.tlc(wd, "Trace_Lookup", workers=1, timeout=900, dfs=True)
    if not r.ok or not (wd / "bad.ndjson").exists():
        raise Infra(f"Trace_Lookup failed: {wd}/Trace_Lookup.out\n" + rig.tail(r.out, 25))
    return rig.read_ndjson(wd / "bad.ndjson")


def selftest_events(traces):
    out = []
    pick = [t for t in traces.values() if t[0]["ev"] == "reset" and sum(1 for e in t if e["ev"] == "call") >= 2]
    if not pick:
        return out
    t = json.loads(json.dumps(pick[len(pick) // 2]))
    a = json.loads(json.dumps(t))
    for e in a:
        e["t"] = 900001
        if e["ev"] == "ret":
            e["val"] = "err" if e["val"] == "nil" else "nil"
    out.append(a)
    b = json.loads(json.dumps(t))
    for e in b:
        e["t"] = 900002
    calls = [i for i, e in enumerate(b) if e["ev"] == "call"]
    b.insert(calls[0] + 1, json.loads(json.dumps(b[calls[0]])))   # same name offered twice
    out.append(b)
    c = json.loads(json.dumps(t))
    for e in c:
        e["t"] = 900003
        if e["ev"] == "lookup" and e["decl"][0] != 0:
            e["decl"][0] += 1
    out.append(c)
    return out


def replay(ctx, path):
    c = json.loads((path / "case.json").read_text())
    return run(ctx, only_ids={c["id"]})

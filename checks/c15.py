"""C15 - template text is emitted verbatim except for the documented removals (DESIGN 7/C15)."""
import json, random, re, shutil
from concurrent.futures import ThreadPoolExecutor
from pathlib import Path
import rig
from rig import Infra

META = {
    "title": "Template text is emitted verbatim except for the documented removals",
    "engine": "Cut",
    "technique": "TLA+ two-sided envelope (must-keep / may-remove / must-remove) as the reference; the parser's line/firstText/numTokenInLine/cutSpacesToken machine with cutSpaces transcribed action per branch and model-checked by TLC against the envelope for every piece sequence; the same sequences (and seeded longer ones) are rendered by the real BuildTemplate+Run in six formats and every output is judged by the TLA+ envelope in a TLC trace spec",
    "level": "model_checking",
    "level_text": "A template is a sequence of pieces (text fragments incl. spaces, tabs, LF, CRLF, BOM, braces, '#', '%', '<b>'; shows of constants, {{ render }}, if/end, var, {%% %%}, comments incl. nested and multi-line, raw blocks with and without marker, a leading shebang). TLC explores the implementation-shaped cut machine for every sequence up to length 4 over 9 piece classes (quick) / length 5 over 7 and length 4 over 13 classes (thorough), under two transcriptions of the parser's line block (as written / as proposed), checking model output in envelope, slice bounds of the cuts and agreement of the action-wise and functional forms; every balanced sequence is replayed through the real code (all in .txt; in the other five formats those of length<=2 quick / <=3 thorough) plus seeded sequences up to length 8 over the whole catalogue, and TLC judges each real output against the envelope.",
    "level_note": "Trusted: TLC, the Json community module, the Go driver that only concatenates, builds, runs and logs. The envelope reads 'line' as physical line and classes a {{ render }} alone on its line with the statements (lenient readings, written next to the predicates). It does not demand that a content-free line IS removed (var/const declarations keep theirs today), so a statement kind that forgets cutSpacesToken shows up only as model drift. Statements whose output depends on evaluation (if false, for, else, macros, extends/import) are not generated; text is limited to the catalogue alphabet, so format-specific lexer contexts (attributes, script/style, Markdown code blocks beyond a leading tab) are barely exercised.",
    "design_ref": "7/C15",
}

# Defects demonstrated on the unchanged tree by this check (see the report to the integrator).
PROPOSED_KNOWN = []   # every defect found by this check was fixed in /repo (known-findings.json, kind "fixed")

FAMS = ["cut"]
QUICK_ALPHA = {"x", "sp", "nl", "cmt", "cmtml", "if", "end", "show7", "stmtsml"}
THOROUGH_ALPHA = QUICK_ALPHA | {"var", "render", "rawnl", "shebang"}
DEEP_ALPHA = QUICK_ALPHA - {"if", "end"}
ALL_FMTS = ["txt", "html", "md", "js", "css", "json"]
TEXT_NAMES = ["x", "sp", "tab", "nl", "spnl", "nlsp", "xnl", "crnl", "cr", "lb", "rb", "hash", "pct", "bom", "b"]
SYNTAX_NAMES = ["show7", "shows", "render", "if", "ifml", "end", "assign", "var", "stmts", "stmtsml", "cmt", "cmtn", "cmtml",
                "raw", "rawm", "rawnl", "rawe", "rawp", "rawps", "rawpn", "rawbb", "rawh"]
RAW_NAMES = {"raw", "rawm", "rawnl", "rawe", "rawp", "rawps", "rawpn", "rawbb", "rawh"}
INVS = ["EnvelopeHead", "EnvelopeFix", "NoOvercutHead", "NoOvercutFix", "SliceHead", "SliceFix", "SameAsFunctional"]


def spaces(ctx):
    """(alphabet, max length) of the sequence spaces explored by TLC and replayed, per tier"""
    return ctx.pick([(QUICK_ALPHA, 4)], [(DEEP_ALPHA, 5), (THOROUGH_ALPHA, 4)])


def run(ctx, only_case=None):
    sp = spaces(ctx)
    with ThreadPoolExecutor(max_workers=len(sp)) as ex:
        if only_case:
            futs = [ex.submit(model_check, ctx, 0, sp[0][0], 0, 0)]      # catalogue only
        else:
            futs = [ex.submit(model_check, ctx, k, a, n, n) for k, (a, n) in enumerate(sp)]
        res = [f.result() for f in futs]
    gens = [(r["catalogue"], r["seqs"]) for r in res]
    mcs = [] if only_case else res
    catalogue = gens[0][0]
    seqs, seen = [], set()
    for _, ss in gens:
        for ns in ss:
            if tuple(ns) not in seen:
                seen.add(tuple(ns))
                seqs.append(ns)
    mc = None
    if mcs:
        cex = {}
        for m in mcs:
            for k, v in m["model_counterexamples"].items():
                cex[k] = cex.get(k, 0) + v
        mc = {"states": sum(m["states"] for m in mcs), "transitions": sum(m["transitions"] for m in mcs),
              "mc_wall_s": max(m["mc_wall_s"] for m in mcs), "mc_invariants": INVS, "model_counterexamples": cex,
              "bounds": "; ".join(m["bounds"] for m in mcs), "mc_runs": [{k: m[k] for k in ("states", "mc_wall_s", "bounds")} for m in mcs]}
        if not ctx.quick:      # an action counts as never taken only if no run took it
            mc["actions_never_taken"] = sorted(set.intersection(*[set(m["actions_never_taken"]) for m in mcs]))
    if mc:
        ctx.cov.update(mc)
    # ---- cases: every judgeable sequence exported by TLC x formats, plus seeded longer sequences
    if only_case is not None:
        cases = [only_case]
    else:
        cases = assemble(ctx, catalogue, seqs)
    for c in cases:
        c["parts"] = [catalogue[(n, i + 1, c["fmt"])] for i, n in enumerate(c["names"])]
    cfile = ctx.work / "cases.ndjson"
    rig.write_ndjson(cfile, cases)
    obs = ctx.work / "obs.ndjson"
    ctx.drive("c15", cfile, obs)
    allobs = rig.read_ndjson(obs)
    if len(allobs) != len(cases):
        raise Infra(f"driver returned {len(allobs)} observations for {len(cases)} cases")
    bads, stats = judge(ctx, "trace", allobs)
    by_id = {c["id"]: c for c in cases}
    ctx.cov.update(
        evaluations=len(allobs), traces_validated_against_impl=stats["judged"],
        skipped_not_built_or_run=stats["not_ok_on_defined"], ref_undefined=stats["ref_undefined"],
        outcomes=count(allobs, lambda o: o["outcome"]), per_format=count(allobs, lambda o: o["fmt"]),
        distinct_nontrivial=len({(o["fmt"], tuple(o["src"])) for o in allobs if nontrivial(o)}),
        rule="every structurally judgeable piece sequence over the class representatives exported by TLC (all in .txt; "
             "in the other formats up to the tier's length) plus seeded sequences up to length 8 over the whole catalogue; "
             "non-trivial = built and run, and the template has a raw block / show / render or a syntax piece together with white-space text",
        exhaustive=True, samples=[sample(o) for o in rig.pick_samples([o for o in allobs if nontrivial(o)] or allobs, 4, ctx.seed)],
        judged_bad_first_pass=len(bads),
        # which transcription of the parser's line block IS the code under test (0 = it matches every judged output)
        model_vs_code_mismatches={"head (line block as written)": stats["drift_head"], "fix (line block as proposed)": stats["drift_fix"]},
    )
    variant = "Head" if stats["drift_head"] <= stats["drift_fix"] else "Fix"
    ctx.cov["model_variant_matching_code"] = variant.lower()
    drift = min(stats["drift_head"], stats["drift_fix"])
    if drift:
        ctx.cov["model_drift"] = f"{drift} judged outputs differ from the implementation-shaped model under both transcriptions of the line block (diagnostic only)"
    if mc:
        cex = ctx.cov["model_counterexamples"]
        n_env, n_over, n_sl = cex.get("Envelope" + variant, 0), cex.get("NoOvercut" + variant, 0), cex.get("Slice" + variant, 0)
        if n_env or n_sl:
            ctx.cov["model_counterexample"] = (f"the transcription that matches the code ({variant.lower()}) has {n_env} sequences whose model output is "
                                               f"outside the envelope ({n_over} of them remove text that must stay, the others keep a one-token content-free line) "
                                               f"and {n_sl} with overlapping cuts (design-level, diagnostic; the verdict is from the real code)")
    # ---- reproduction guard (the failing cases again in a fresh driver process) and sensitivity self-test
    # (corrupted observations must be rejected), judged together by one more run of the same Trace spec
    cobs = []
    if bads:
        cc = ctx.work / "confirm_cases.ndjson"
        rig.write_ndjson(cc, [by_id[i] for i in sorted({b["id"] for b in bads})])
        co = ctx.work / "confirm_obs.ndjson"
        ctx.drive("c15", cc, co)
        cobs = rig.read_ndjson(co)
    st = corrupted(allobs, ctx.seed)
    confirmed, sres = [], None
    if cobs or st:
        b2, _ = judge(ctx, "trace_confirm", cobs + st, shards=1)
        again = {(b["id"], json.dumps(b["sig"], sort_keys=True)) for b in b2 if b["id"] < 9000000}
        confirmed = [b for b in bads if (b["id"], json.dumps(b["sig"], sort_keys=True)) in again]
        if st:
            sres = st, {b["id"] for b in b2 if b["id"] >= 9000000}
    if bads:
        ctx.cov["unreproduced"] = len(bads) - len(confirmed)
    confirmed.sort(key=lambda b: (len(b["obs"]["src"]), b["id"]))      # shortest witness first
    for b in confirmed:
        b["what"] = sample(b["obs"])
        b["case"] = {k: by_id[b["id"]][k] for k in ("id", "fmt", "names")}
    if sres:
        st, rej = sres
        ctx.cov["sensitivity_selftest"] = {"corrupted": len(st), "rejected": len(rej), "kinds": sorted({o["_kind"] for o in st})}
        if len(rej) < len(st):
            raise Infra(f"sensitivity self-test failed: {len(st)} corrupted observations, only {len(rej)} rejected")
    elif only_case is None:
        raise Infra("sensitivity self-test: no observation to corrupt")

    def rw(rdir, b):
        (rdir / "case.json").write_text(json.dumps(b["case"]))
        (rdir / "obs.json").write_text(json.dumps(b["obs"]))
    return ctx.report(confirmed, replay_writer=rw)


# ------------------------------------------------------------------------------------------------
def model_check(ctx, k, alpha, maxlen, genlen):
    """One TLC run: exhaustive exploration of the cut machine over the sequence space + export of the
    balanced sequences (names) and of the piece catalogue."""
    wd = ctx.stage(f"mc{k}", FAMS)
    c = {"MaxLen": maxlen, "MCAlpha": alpha, "GenLen": genlen, "GenAlpha": alpha, "WideLen": 2 if genlen and k == 0 else 0}
    rig.write_cfg(wd / "MC_Cut.cfg", constants=c, invariants=INVS)
    r = ctx.tlc(wd, "MC_Cut", workers=max(2, rig.NCPU // 2), timeout=ctx.pick(300, 840), coverage=not ctx.quick, extra=["-continue"])
    done = re.search(r"\d+ states generated, \d+ distinct states found, 0 states left on queue", r.out)
    if not done or r.distinct == 0:
        raise Infra(f"MC_Cut did not complete: {wd}/MC_Cut.out\n" + rig.tail(r.out, 25))
    cex = {}
    for name in r.invariant_violated:
        cex[name] = cex.get(name, 0) + 1
    if "SameAsFunctional" in cex:
        raise Infra("MC_Cut: the action-wise cut machine and its functional form (used by Trace_Cut) disagree")
    out = {"states": r.distinct, "transitions": r.generated, "mc_wall_s": round(r.wall, 1), "model_counterexamples": cex,
           "bounds": f"all sequences of length <= {maxlen} over {len(alpha)} piece classes {sorted(alpha)} x 2 transcriptions of the line block"}
    if not ctx.quick:
        out["actions_never_taken"] = r.coverage_zero()
    if not (wd / "catalogue.ndjson").exists() or not (wd / "cases.ndjson").exists():
        raise Infra("MC_Cut exported no cases / no catalogue")
    out["catalogue"] = {(e["name"], e["pos"], e["fmt"]): e["s"] for e in rig.read_ndjson(wd / "catalogue.ndjson")}
    out["seqs"] = [c["names"] for c in rig.read_ndjson(wd / "cases.ndjson")]
    return out


def assemble(ctx, catalogue, seqs):
    """TLC's judgeable name sequences x formats, plus seeded random longer sequences over the whole catalogue.
    Only names are chosen here; bytes come from TLC's catalogue, verdicts from Trace_Cut."""
    cases, n = [], 0
    core = set().union(*[a for a, _ in spaces(ctx)])
    for q, ns in enumerate(seqs):
        for fi, f in enumerate(ALL_FMTS):
            # every sequence in .txt; in the other five formats those of length <= 2 (quick) / <= 3 (thorough);
            # quick: a pair over the whole catalogue that is not over the tier's classes gets one other format, in rotation
            if f != "txt" and len(ns) > ctx.pick(2, 3):
                continue
            if f != "txt" and ctx.quick and not set(ns) <= core and fi != 1 + q % 5:
                continue
            if f in ("js", "css", "json") and "shows" in ns:
                continue
            n += 1
            cases.append({"id": n, "fmt": f, "names": ns})
    ctx.cov["sequences_exported_by_tlc"] = len(seqs)
    rng = random.Random(ctx.seed)
    extra = ctx.pick(800, 5000)
    for k in range(extra):
        ln = rng.randint(3, 8)
        ns, depth = [], 0
        if rng.random() < 0.1:
            ns.append("shebang")
        while len(ns) < ln:
            if rng.random() < 0.5:
                nm = rng.choice(TEXT_NAMES)
            else:
                nm = rng.choice(SYNTAX_NAMES)
            if nm == "end":
                if depth == 0:
                    continue
                depth -= 1
            if nm in ("if", "ifml"):
                if len(ns) + 2 + depth > ln:
                    continue
                depth += 1
            # literal text must not form syntax with its neighbour (Cut!NoAccidentalSyntax)
            if ns and ns[-1] == "lb" and (nm in ("lb", "pct", "hash") or nm in SYNTAX_NAMES):
                continue
            if ns and ns[-1] == "hash" and nm == "rb":
                continue
            ns.append(nm)
        ns += ["end"] * depth
        if len(ns) > 9:
            continue
        f = rng.choice(ALL_FMTS)
        if f in ("js", "css", "json") and "shows" in ns:
            f = "txt"
        cases.append({"id": 1000000 + k, "fmt": f, "names": ns})
    ctx.cov["seeded_sequences"] = sum(1 for c in cases if c["id"] >= 1000000)
    return cases


def judge(ctx, step, observations, shards=None):
    """Trace_Cut over the observations, sharded over parallel TLC processes. Returns (bad records with obs, summed stats)."""
    shards = shards or min(6, len(observations) // 6000 + 1)
    size = (len(observations) + shards - 1) // shards or 1
    parts = [observations[i:i + size] for i in range(0, max(len(observations), 1), size)]

    def one(k):
        wd = ctx.stage(f"{step}_{k}", FAMS)
        rig.write_ndjson(wd / "obs.ndjson", [{x: o[x] for x in ("id", "fmt", "names", "src", "outcome", "out", "errclass")} for o in parts[k]])
        rig.write_cfg(wd / "Trace_Cut.cfg", invariants=["Done"], postcondition="Consumed")
        r = ctx.tlc(wd, "Trace_Cut", workers=1, timeout=ctx.pick(400, 850), heap="3g")
        if not r.ok or not (wd / "bad.ndjson").exists() or not (wd / "stats.ndjson").exists():
            raise Infra(f"Trace_Cut did not complete cleanly: {wd}/Trace_Cut.out\n" + rig.tail(r.out, 25))
        bad = rig.read_ndjson(wd / "bad.ndjson")
        for b in bad:
            b["obs"] = parts[k][b["k"] - 1]
        return bad, rig.read_ndjson(wd / "stats.ndjson")[0]

    with ThreadPoolExecutor(max_workers=len(parts)) as ex:
        res = list(ex.map(one, range(len(parts))))
    bads = [b for r in res for b in r[0]]
    stats = {}
    for _, s in res:
        for k, v in s.items():
            stats[k] = stats.get(k, 0) + v
    if stats.get("bad", 0) != len(bads):
        raise Infra(f"Trace_Cut counted {stats.get('bad')} bad records but listed {len(bads)}")
    return bads, stats


# ------------------------------------------------------------------------------------------------
WS_NAMES = {"sp", "tab", "nl", "spnl", "nlsp", "xnl", "crnl", "cr"}


def nontrivial(o):
    """built and run, and the cut rules or raw/show handling were in play: at least one syntax piece
    next to white-space text, or a raw block / show / render"""
    if o["outcome"] != "ok":
        return False
    ns = set(o["names"])
    return bool(ns & (RAW_NAMES | {"show7", "shows", "render"})) or bool(ns & set(SYNTAX_NAMES + ["shebang"])) and bool(ns & WS_NAMES)


def count(obs, key):
    d = {}
    for o in obs:
        d[key(o)] = d.get(key(o), 0) + 1
    return d


def sample(o):
    return {"fmt": o["fmt"], "names": o["names"], "src": rig.b2s(o["src"]), "outcome": o["outcome"], "out": rig.b2s(o["out"]),
            "errclass": o["errclass"]}


def corrupted(allobs, seed):
    """Three kinds: a non-space byte of the output flipped, a non-space byte deleted, and the defect class itself
    (a space deleted from the output of a one-line template with content)."""
    rng = random.Random(seed + 7)
    ok = [o for o in allobs if o["outcome"] == "ok" and any(b not in (32, 9, 10, 13) for b in o["out"])]
    rng.shuffle(ok)
    out = []

    def clone(o, kind, i):
        c = json.loads(json.dumps(o))
        c["id"] = 9000000 + i
        c["_kind"] = kind
        return c
    for o in ok[:2]:
        c = clone(o, "flip-nonspace-byte", len(out))
        i = next(i for i, b in enumerate(c["out"]) if b not in (32, 9, 10, 13))
        c["out"][i] ^= 1
        out.append(c)
    for o in ok[2:4]:
        c = clone(o, "delete-nonspace-byte", len(out))
        i = next(i for i, b in enumerate(c["out"]) if b not in (32, 9, 10, 13))
        del c["out"][i]
        out.append(c)
    oneline = [o for o in ok if 10 not in o["src"] and 32 in o["out"]]
    for o in oneline[:2]:
        c = clone(o, "delete-space-of-line-with-content", len(out))
        c["out"].remove(32)
        out.append(c)
    for o in ok[4:5]:
        c = clone(o, "append-syntax-byte", len(out))
        c["out"] = c["out"] + [123]
        out.append(c)
    return out


def replay(ctx, path):
    c = json.loads((Path(path) / "case.json").read_text())
    return run(ctx, only_case={"id": c["id"], "fmt": c["fmt"], "names": c["names"]})

"""C17 - template variables passed to Run are the values every reference sees (DESIGN 7/C17)."""
import json, re, shutil, time
import rig
from rig import Infra

META = {
    "title": "Globals",
    "engine": "Globals",
    "technique": "TLA+ register semantics (reference) + implementation-shaped model of per-function global recording "
                 "(predefVarIndex / setFunctionVarRefs) and of the binding in initGlobalVariables; TLC model-checks the "
                 "mechanism against the register for every bounded reference sequence and exports the sequences; a Go "
                 "driver synthesises the template file set of each sequence, builds it, runs it twice with a value or a "
                 "pointer and logs output, UsedVars and the caller's variables; a TLC Trace spec judges the logs",
    "level": "model_checking",
    "level_text": "TLC explores every sequence of references to a global of type int (by value, by pointer) or any (by pointer), plain or "
                  "extends file shape, where a reference is {read, read through `default`, write} in a scope {top|layout, macro, closure, "
                  "imported macro, rendered file, extending-file macro}, directly or nested in a further literal/macro, alone or joined to "
                  "the macro/file of the previous reference, declaration hoisted or not; the alphabet shrinks with the length (quick: all "
                  "features to length 1, nesting+joining to 2, plain scopes to 3, two globals to 2; thorough: 2, 3, 4 and 3). TLC checks that "
                  "the transcribed mechanism (as now in the tree) is a register on that space and exports it; every sequence plus seeded "
                  "random sequences of 3-5 references over all features is replayed into the real BuildTemplate/Run/UsedVars (run twice) and "
                  "judged by the register semantics in TLA+.",
    "level_note": "Trusted: TLC, the Json module, the Go driver that only synthesises templates from the case and logs. "
                  "Types int and any (holding ints); nesting depth 1; a literal refers to one global (joined references put several in "
                  "one macro); no package-level var initialisers of the extending file, no concurrency of Runs; a non-pointer value "
                  "for a global of type any is not judged. The historical variants of the mechanism (before the two fixes found by this "
                  "check) are still model-checked on a small space.",
    "design_ref": "7/C17",
}

FAMS = ["globals"]

# Defects demonstrated on the unchanged tree (minimal inputs, code locations and proposed fixes are in the family
# report); the integrator fixes /repo or moves these into known-findings.json.  The signatures are computed by
# Trace_Globals.Sig and name the root-cause circumstance:
#   firstref = scope of the first reference to the variable that the compiler meets in the body file
#   cross    = the latest write to the variable is in another compiled function than the failing read
#   got      = what was seen instead of the register's value (zero: never bound; supplied / stale-write: a write was lost)
D1 = "value passed to Run ignored when the first reference to the global in the body file is inside a %s " \
     "(checker_expressions.go records the upvar with NativePkg: ident.Name, so initGlobalVariables never binds the " \
     "body's Global: its reads see the zero value and its writes are lost)"
D2 = "non-pointer value supplied to Run: every package-level function (body, imported macro, rendered file, " \
     "extending-file macro) gets its own copy (predefVarIndex appends one Global per function), so a write in one " \
     "is not seen in another"
D3 = "`X default e` with a declared global X inside a function literal (a macro declared in a body, or a macro nested in a " \
     "macro): checkDefault looks the identifier up without recording it as an upvar of the enclosing literals, so the emitter " \
     "uses the index of the Global as an index into the literal's own variables"
# D1 and D2 (found by this check) were fixed in /repo (known-findings.json, kind "fixed").  D3 is demonstrated on the
# unchanged tree: `{% macro M %}[{{ X default 7 }}]{% end %}{{ M() }}` (proposed fix in the family report).
PROPOSED_KNOWN = []   # every defect found by this check was fixed in /repo (known-findings.json, kind "fixed")

CORE = ["FixedMeetsRef", "UsedVarsReportedFixed"]
THEOREMS = ["FixedMeetsRef", "AsWrittenDeviatesOnlyIf", "PkgFixLeavesOnlyCross", "DedupFixLeavesOnlyLitFirst",
            "UnitOrderIrrelevant", "UsedVarsReported"]


def text(a):
    return rig.b2s(a)


def sample(o):
    s = {"typ": o["typ"], "sup": o["sup"], "ext": o["ext"],
         "refs": " ".join("%s%s%s:%s%s%s%s" % ("+" if r.get("join") else "", r["sc"], {0: "", 1: "-c", 2: "-m"}[r.get("nest", 0)],
                                                r["op"], r["var"], ("=%d" % r["v"]) if r["op"] == "w" else "", "^" if r["hoist"] else "")
                          for r in o["refs"]),
         "outcome": o["outcome"], "out1": text(o["out1"]), "out2": text(o["out2"]), "used": o["used"],
         "caller1": o["caller1"], "caller2": o["caller2"]}
    if o.get("files"):
        s["files"] = o["files"]
    if o.get("err"):
        s["err"] = o["err"][:200]
    return s


def case_of(o):
    return {"id": o["id"], "typ": o["typ"], "sup": o["sup"], "ext": o["ext"], "init": o["init"], "refs": o["refs"]}


def nontrivial(o):
    g = [r for r in o["refs"] if r["sc"] != "pkgvar"]
    return len(g) >= 2 and any(r["sc"] not in ("top", "layout") for r in g)


def judge(ctx, step, obs_path, drift_every=1):
    """Run Trace_Globals over an observation file.  Returns (bad records [{k,id,sig}], drift dict)."""
    wd = ctx.stage(step, FAMS)
    shutil.copy(obs_path, wd / "obs.ndjson")
    rig.write_cfg(wd / "Trace_Globals.cfg", constants={"DriftEvery": drift_every}, invariants=["Done"], postcondition="Consumed")
    r = ctx.tlc(wd, "Trace_Globals", workers=1, timeout=1500, heap="3g")
    if not r.ok:
        raise Infra(f"Trace spec Trace_Globals did not complete cleanly: {wd}/Trace_Globals.out\n" + rig.tail(r.out, 30))
    if not (wd / "bad.ndjson").exists() or not (wd / "drift.ndjson").exists():
        raise Infra(f"Trace spec Trace_Globals wrote no bad.ndjson/drift.ndjson ({wd})")
    return rig.read_ndjson(wd / "bad.ndjson"), rig.read_ndjson(wd / "drift.ndjson")[0]


def bounds(ctx):
    return {"MaxLenF": ctx.pick(1, 2), "MaxLenOld": ctx.pick(2, 3), "MaxLenE": ctx.pick(2, 3), "MaxLenLite": ctx.pick(3, 4),
            "MaxLen2": ctx.pick(2, 3)}


def small_bounds(ctx):
    return {"MaxLenF": 1, "MaxLenOld": 2, "MaxLenE": ctx.pick(1, 2), "MaxLenLite": ctx.pick(2, 3), "MaxLen2": ctx.pick(0, 2)}


def diag_run(ctx, step, consts, inv):
    wd = ctx.stage(step, FAMS)
    rig.write_cfg(wd / "MC_Globals.cfg", constants=dict(consts, Mode="aswritten"), invariants=[inv])
    rr = ctx.tlc(wd, "MC_Globals", workers=1, timeout=900, heap="2g")
    if rr.invariant_violated:
        st = re.findall(r"(?ms)^c = (.*?)(?=^\s*$|\Z)", rr.out)
        return {"violated": True, "last_state": " ".join((st[-1] if st else "").split())[:700], "states_to_counterexample": rr.distinct}
    if rr.ok:
        return {"violated": False, "states": rr.distinct}
    raise Infra(f"MC_Globals diagnostic run failed: {wd}\n" + rig.tail(rr.out, 30))


def all_theorems_run(ctx):
    """The six theorems (incl. each fix alone, and independence of the order functions are emitted in) on the
    smaller space; in the thorough tier with -coverage (which actions were never taken)."""
    consts = small_bounds(ctx)
    wd = ctx.stage("mc_all", FAMS)
    rig.write_cfg(wd / "MC_Globals.cfg", constants=dict(consts, Mode="all"), invariants=["AllTheorems"])
    r = ctx.tlc(wd, "MC_Globals", workers=ctx.pick(2, 4), timeout=900, coverage=not ctx.quick, heap="3g")
    out = {"bounds": str(consts), "states": r.distinct, "invariants": THEOREMS, "holds": bool(r.ok)}
    if not r.ok:
        if not r.invariant_violated:
            raise Infra(f"MC_Globals (all theorems) failed: {wd}\n" + rig.tail(r.out, 30))
        rig.write_cfg(wd / "MC_Globals_named.cfg", constants=dict(consts, Mode="named"), invariants=THEOREMS)
        r3 = ctx.tlc(wd, "MC_Globals", cfg="MC_Globals_named.cfg", workers=4, timeout=900, extra=["-continue"], heap="3g")
        out["violated"] = sorted(set(r3.invariant_violated))
    if not ctx.quick:
        out["actions_never_taken"] = r.coverage_zero()
    return out


def model_check(ctx, pool):
    consts = bounds(ctx)
    # diagnostics, in the background: the mechanism AS WRITTEN (and with only the package fix) against the
    # register semantics.  A counterexample is expected while the defects are in the tree; it is the minimal
    # witness, not a verdict.
    fut = {"AsWrittenMeetsRef": pool.submit(diag_run, ctx, "mc_diag_a", consts, "AsWrittenMeetsRef")}
    if not ctx.quick:
        fut["OnlyPkgFixedMeetsRef"] = pool.submit(diag_run, ctx, "mc_diag_b", consts, "OnlyPkgFixedMeetsRef")
    fut["all_theorems"] = pool.submit(all_theorems_run, ctx)
    # the design-level theorems over the whole space + export of the space
    wd = ctx.stage("mc", FAMS)
    rig.write_cfg(wd / "MC_Globals.cfg", constants=dict(consts, Mode="theorems"), invariants=["CoreTheorems"])
    r = ctx.tlc(wd, "MC_Globals", workers=max(2, rig.NCPU // 2), timeout=1500)
    ctx.cov.update(states=r.distinct, transitions=r.generated, mc_wall_s=round(r.wall, 1), mc_invariants=CORE, bounds=str(consts))
    if not r.ok:
        if r.invariant_violated:
            # diagnostic: the transcription (or a stated theorem about it) is off; the verdict is from the real code.
            # Name the theorem(s) that fail.
            wd3 = ctx.stage("mc_named", FAMS)
            rig.write_cfg(wd3 / "MC_Globals.cfg", constants=dict(consts, Mode="named"), invariants=CORE)
            r3 = ctx.tlc(wd3, "MC_Globals", workers=rig.NCPU, timeout=1500, extra=["-continue"])
            ctx.cov["model_theorem_violated"] = {"invariants": sorted(set(r3.invariant_violated)) or r.invariant_violated,
                                                 "tlc_out": str(wd3 / "MC_Globals.out")}
        else:
            raise Infra(f"MC_Globals failed: {wd}/MC_Globals.out\n" + rig.tail(r.out, 30))
    cases = wd / "cases.ndjson"
    if not cases.exists():
        raise Infra("no cases.ndjson exported by MC_Globals")
    return cases, fut


def run(ctx, only_cases=None):
    from concurrent.futures import ThreadPoolExecutor
    pool = ThreadPoolExecutor(max_workers=max(4, rig.NCPU - 2))
    fut = {}
    import os
    # many short TLC processes run side by side here: keep each JVM's GC thread pool small
    os.environ.setdefault("JAVA_TOOL_OPTIONS", "-XX:ParallelGCThreads=3")
    phase, tp, cp = {}, time.time(), sum(os.times()[2:4])

    def mark(name):   # wall seconds / CPU seconds of child processes (TLC, driver; includes the background runs)
        nonlocal tp, cp
        c = sum(os.times()[2:4])
        phase[name] = [round(time.time() - tp, 1), round(c - cp, 1)]
        tp, cp = time.time(), c
    if only_cases is None:
        cases, fut = model_check(ctx, pool)
        ncases = sum(1 for _ in open(cases))
        ctx.cov["cases_exported"] = ncases
        if "model_theorem_violated" not in ctx.cov and ncases != ctx.cov["states"]:
            raise Infra(f"exported cases ({ncases}) differ from the explored state space ({ctx.cov['states']})")
    else:
        cases = ctx.work / "replay_cases.ndjson"
        rig.write_ndjson(cases, only_cases)
    mark("model_check_and_export")
    # replay into the real code
    obs = ctx.work / "obs.ndjson"
    nextra = ctx.pick(2000, 25000) if only_cases is None else 0
    ctx.drive("c17", cases, obs, args=["-extra", str(nextra)], timeout=900)
    rawlines = [l for l in open(obs) if l.strip()]
    allobs = [json.loads(l) for l in rawlines]
    mark("build_driver_and_replay")
    outcomes = {}
    for o in allobs:
        outcomes[o["outcome"]] = outcomes.get(o["outcome"], 0) + 1
    nobuild = [o for o in allobs if o["outcome"] in ("builderror", "hostpanic-build")]
    ctx.cov.update(evaluations=len(allobs), traces_validated_against_impl=len(allobs) - len(nobuild), outcomes=outcomes,
                   distinct_nontrivial=len({(o["typ"], o["sup"], o["ext"], tuple((r["sc"], r["op"], r["var"], r["hoist"], r["nest"], r["join"]) for r in o["refs"]))
                                            for o in allobs if nontrivial(o)}),
                   rule="every reference sequence of the bounded space exported by TLC (exhaustive) plus seeded random sequences of "
                        "3-5 references over the whole alphabet (ids >= 1000000), each built once and run twice; "
                        "non-trivial = at least two references to a global and at least one of them outside the top level of the body file",
                   exhaustive=only_cases is None, random_extra=nextra,
                   by_scope={sc: sum(1 for o in allobs if any(r["sc"] == sc for r in o["refs"]))
                             for sc in ("top", "layout", "macro", "closure", "imported", "rendered", "extending", "pkgvar")})
    # judge: shards in parallel TLC processes
    nshard = max(1, min(rig.NCPU - 4, len(allobs) // 5000))
    size = (len(allobs) + nshard - 1) // nshard if allobs else 1
    drift_every = ctx.pick(4, 16) if only_cases is None else 1
    jobs = []
    for k in range(0, max(len(allobs), 1), size):
        part = allobs[k:k + size]
        p = ctx.work / f"obs_{k // size}.ndjson"
        p.write_text("".join(rawlines[k:k + size]))
        jobs.append((part, pool.submit(judge, ctx, f"trace_{k // size}", p, drift_every)))
    allbad, drift = [], {"aswritten": 0, "fixed": 0, "records": 0, "refundef": 0}
    for part, f in jobs:
        b, d = f.result()
        for x in b:
            x["obs"] = part[x["k"] - 1]
        allbad += b
        for key in drift:
            drift[key] += d[key]
    ctx.cov["judge_shards"] = len(jobs)
    ctx.cov["ref_undefined"] = drift["refundef"]       # sequences the reference part is not defined for: skipped, never failed
    ctx.cov["not_judged_value_for_any"] = sum(1 for o in allobs if o["typ"] == "any" and o["sup"] == "value")
    mark("judge")
    badids = {b["id"] for b in allbad}
    merged = {}
    for b in allbad:   # one representative (the first) per signature
        key = json.dumps(b["sig"], sort_keys=True)
        if key in merged:
            merged[key]["count"] += 1
        else:
            merged[key] = dict(b, count=1)
    bads = list(merged.values())
    ctx.cov["judged_bad_first_pass"] = len(allbad)
    ctx.cov["bad_signatures_first_pass"] = len(bads)
    # which transcription predicts the real code (diagnostic)
    n = drift["records"]
    ctx.cov["impl_model_predicts_code"] = {"as_written": n - drift["aswritten"], "with_proposed_fixes": n - drift["fixed"],
                                           "records_compared": n, "every": drift_every}
    if drift["aswritten"] and drift["fixed"]:
        ctx.cov["model_drift"] = "neither transcription (as written / with the proposed fixes) predicts all observations: " \
                                 f"{drift['aswritten']} / {drift['fixed']} of {n} differ (diagnostic only)"
    # samples: a few cases with their sources
    smp = rig.pick_samples([o for o in allobs if nontrivial(o)] or allobs, 4, ctx.seed)
    sc = ctx.work / "sample_cases.ndjson"
    rig.write_ndjson(sc, [case_of(o) for o in smp])
    so = ctx.work / "sample_obs.ndjson"
    ctx.drive("c17", sc, so, args=["-files"])
    ctx.cov["samples"] = [sample(o) for o in rig.read_ndjson(so)]
    # reproduction guard (fresh process, judged again) and sensitivity self-test (corrupted copies of accepted
    # observations must be rejected), judged by the same Trace spec in one TLC run
    second = []
    if bads:
        cc = ctx.work / "confirm_cases.ndjson"
        rig.write_ndjson(cc, [case_of(b["obs"]) for b in bads])
        co = ctx.work / "confirm_obs.ndjson"
        ctx.drive("c17", cc, co, args=["-files"])
        second = rig.read_ndjson(co)
    st = selftest([o for o in allobs if o["id"] not in badids], ctx.seed)
    if not st and only_cases is None:
        raise Infra("sensitivity self-test: no accepted observation to corrupt")
    confirmed = []
    if second or st:
        p = ctx.work / "second_obs.ndjson"
        rig.write_ndjson(p, second + st)
        b2, _ = judge(ctx, "trace_second", p)
        keys2 = {json.dumps(b["sig"], sort_keys=True) for b in b2 if b["id"] < 9000000}
        byid = {o["id"]: o for o in second}
        confirmed = [b for b in bads if json.dumps(b["sig"], sort_keys=True) in keys2]
        ctx.cov["unreproduced"] = len(bads) - len(confirmed)
        for b in confirmed:
            b["obs"] = byid.get(b["id"], b["obs"])
            b["what"] = json.dumps(sample(b["obs"]))
        rej = len({b["id"] for b in b2 if b["id"] >= 9000000})
        if st:
            ctx.cov["sensitivity_selftest"] = {"corrupted": len(st), "rejected": rej,
                                               "clauses": ["read", "caller", "usedvars", "read-run2", "run-failed"]}
            if rej < len(st):
                raise Infra(f"sensitivity self-test failed: {len(st)} corrupted observations, only {rej} rejected")
    mark("confirm_and_selftest")
    for name, f in fut.items():
        if name == "all_theorems":
            res = f.result()
            if "actions_never_taken" in res:
                ctx.cov["actions_never_taken"] = res.pop("actions_never_taken")
            ctx.cov["mc_all_theorems"] = res
            if not res["holds"]:
                ctx.cov.setdefault("model_theorem_violated", {"invariants": res.get("violated")})
        else:
            ctx.cov.setdefault("model_counterexample", {})[name] = f.result()
    pool.shutdown()
    mark("wait_for_diagnostics")
    ctx.cov["phase_wall_s"] = phase
    if nobuild:
        raise Infra(f"{len(nobuild)} synthesised templates did not build, e.g. {json.dumps(sample(nobuild[0]))[:500]}")
    known, _ = ctx.classify(confirmed)
    ctx.cov["known_finding_records"] = [{"signature": k["signature"], "records": sum(b["count"] for b in lst)}
                                        for _, (k, lst) in sorted(known.items())]

    def rw(rdir, b):
        (rdir / "case.json").write_text(json.dumps(case_of(b["obs"])))
        (rdir / "obs.json").write_text(json.dumps(b["obs"]))
    return ctx.report(confirmed, replay_writer=rw, max_violations=12)


def selftest(allobs, seed):
    """Take observations the judge accepted and break one clause of the property in each."""
    import random
    rnd = random.Random(seed + 7)
    out = []
    pool = [o for o in allobs if o["outcome"] == "ok" and o["out1"] and nontrivial(o)]
    if not pool:
        return out
    # (a) another digit in a printed read
    o = json.loads(json.dumps(rnd.choice(pool)))
    i = max(k for k, c in enumerate(o["out1"]) if 48 <= c <= 57)
    o["out1"][i] = 48 + (o["out1"][i] - 48 + 1) % 10
    o["id"] = 9000001
    out.append(o)
    # (b) the caller's variable changed / not changed
    o = json.loads(json.dumps(rnd.choice(pool)))
    o["caller1"][0] += 1
    o["id"] = 9000002
    out.append(o)
    # (c) the name missing from UsedVars
    o = json.loads(json.dumps(rnd.choice(pool)))
    o["used"] = []
    o["id"] = 9000003
    out.append(o)
    # (d) the second Run's output differs
    o = json.loads(json.dumps(rnd.choice(pool)))
    i = max(k for k, c in enumerate(o["out2"]) if 48 <= c <= 57) if any(48 <= c <= 57 for c in o["out2"]) else None
    if i is not None:
        o["out2"][i] = 48 + (o["out2"][i] - 48 + 1) % 10
        o["id"] = 9000004
        out.append(o)
    # (e) Run failed
    o = json.loads(json.dumps(rnd.choice(pool)))
    o["outcome"] = "hostpanic-run"
    o["id"] = 9000005
    out.append(o)
    return out


def replay(ctx, path):
    c = json.loads((path / "case.json").read_text())
    return run(ctx, only_cases=[c])

"""C17 - template variables passed to Run are the values every reference sees (DESIGN 7/C17)."""
import json, re, shutil
import rig
from rig import Infra

META = {
    "title": "Globals",
    "engine": "Globals",
    "technique": "TLA+ register semantics (reference) + implementation-shaped model of per-function global recording "
                 "(predefVarIndex / setFunctionVarRefs) and of the binding in initGlobalVariables; TLC model-checks the "
                 "mechanism against the register for every bounded reference sequence and exports the sequences; a Go "
                 "driver synthesises the template file set of each sequence, builds it, runs it twice with a value or a "
                 "pointer and logs output, UsedVars and the caller's variables; a TLC Trace spec judges the logs",
    "level": "model_checking",
    "level_text": "TLC explores every sequence of <=3 (quick) / <=4 (thorough) references to one global and <=2 / <=3 references to "
                  "two globals over the scopes {top|layout, macro, closure, imported macro, rendered file, extending-file macro} x "
                  "{read, write} x {declaration hoisted or not} x {value, pointer} x {plain, extends}, checks that the "
                  "transcribed mechanism with the proposed fixes is a register, that the mechanism as written leaves the "
                  "register semantics only when the first reference of the body is inside a function literal or when a "
                  "value is written in one compiled function and read in another, and exports every sequence; each is "
                  "replayed into the real BuildTemplate/Run/UsedVars and judged by the register semantics in TLA+.",
    "level_note": "Trusted: TLC, the Json module, the Go driver that only synthesises templates from the case and logs. "
                  "One int type; each reference has its own macro/closure/file; no nesting (closure inside an imported macro, "
                  "macro of a rendered file), no package-level var initialisers of the extending file, no concurrency of Runs.",
    "design_ref": "7/C17",
}

FAMS = ["globals"]

# Defects demonstrated on the unchanged tree (see the report / replays); the integrator fixes /repo or moves
# these into known-findings.json.  Both signatures name the root-cause circumstance computed by Trace_Globals.Sig:
#   firstref = scope of the first reference to the variable that the compiler meets in the body file
#   cross    = the latest write to the variable is in another compiled function than the failing read
PROPOSED_KNOWN = [
    {"kind": "known", "signature": {"fam": "globals", "firstref": "macro"},
     "what": "value passed to Run ignored when the first reference to the global in the body file is inside a macro "
             "(checker_expressions.go records the upvar with NativePkg: ident.Name, so initGlobalVariables never binds it)"},
    {"kind": "known", "signature": {"fam": "globals", "firstref": "closure"},
     "what": "value passed to Run ignored when the first reference to the global in the body file is inside a function literal "
             "(checker_expressions.go records the upvar with NativePkg: ident.Name, so initGlobalVariables never binds it)"},
    {"kind": "known", "signature": {"fam": "globals", "clause": "read", "sup": "value", "cross": True, "got": "supplied"},
     "what": "non-pointer value supplied to Run: every package-level function (imported macro, rendered file, extending-file macro, body) "
             "gets its own copy (predefVarIndex appends one Global per function), so a write in one is not seen in another"},
    {"kind": "known", "signature": {"fam": "globals", "clause": "read", "sup": "value", "cross": True, "got": "stale-write"},
     "what": "non-pointer value supplied to Run: every package-level function (imported macro, rendered file, extending-file macro, body) "
             "gets its own copy (predefVarIndex appends one Global per function), so a write in one is not seen in another"},
]

THEOREMS = ["FixedMeetsRef", "AsWrittenDeviatesOnlyIf", "PkgFixLeavesOnlyCross", "DedupFixLeavesOnlyLitFirst",
            "UnitOrderIrrelevant", "UsedVarsReported"]
SHARD = 60000


def text(a):
    return rig.b2s(a)


def sample(o):
    s = {"sup": o["sup"], "ext": o["ext"],
         "refs": " ".join("%s:%s%s%s%s" % (r["sc"], r["op"], r["var"], ("=%d" % r["v"]) if r["op"] == "w" else "", "^" if r["hoist"] else "")
                          for r in o["refs"]),
         "outcome": o["outcome"], "out1": text(o["out1"]), "out2": text(o["out2"]), "used": o["used"],
         "caller1": o["caller1"], "caller2": o["caller2"]}
    if o.get("files"):
        s["files"] = o["files"]
    if o.get("err"):
        s["err"] = o["err"][:200]
    return s


def case_of(o):
    return {"id": o["id"], "sup": o["sup"], "ext": o["ext"], "init": o["init"], "refs": o["refs"]}


def nontrivial(o):
    g = [r for r in o["refs"] if r["sc"] != "pkgvar"]
    return len(g) >= 2 and any(r["sc"] not in ("top", "layout") for r in g)


def judge(ctx, step, obs_path):
    bads, r = rig.trace_judge(ctx, step, FAMS, "Trace_Globals", obs_path, timeout=1500)
    d = rig.read_ndjson(ctx.work / step / "drift.ndjson")[0]
    d["badids"] = rig.read_ndjson(ctx.work / step / "badids.ndjson")[0]["ids"]
    return bads, d


def model_check(ctx):
    consts = {"MaxLen": ctx.pick(3, 4), "MaxLen2": ctx.pick(2, 3)}
    # (1) the design-level theorems over the whole space + export of the space
    wd = ctx.stage("mc", FAMS)
    rig.write_cfg(wd / "MC_Globals.cfg", constants=dict(consts, Mode="theorems"), invariants=THEOREMS)
    r = ctx.tlc(wd, "MC_Globals", workers=rig.NCPU, timeout=1500, coverage=not ctx.quick)
    ctx.cov.update(states=r.distinct, transitions=r.generated, mc_wall_s=round(r.wall, 1), mc_invariants=THEOREMS,
                   bounds="MaxLen(one global)=%d MaxLen2(two globals)=%d" % (consts["MaxLen"], consts["MaxLen2"]))
    if not r.ok:
        if r.invariant_violated:
            # diagnostic: the transcription (or a stated theorem about it) is off; the verdict below is from the real code
            ctx.cov["model_theorem_violated"] = {"invariants": r.invariant_violated, "tlc_out": str(wd / "MC_Globals.out")}
        else:
            raise Infra(f"MC_Globals failed: {wd}/MC_Globals.out\n" + rig.tail(r.out, 30))
    if not ctx.quick:
        ctx.cov["actions_never_taken"] = r.coverage_zero()
    cases = wd / "cases.ndjson"
    if not cases.exists():
        raise Infra("no cases.ndjson exported by MC_Globals")
    # (2) diagnostic: the mechanism AS WRITTEN against the register semantics (a counterexample is expected
    #     while the defects are in the tree; it is the minimal witness, not a verdict)
    wd2 = ctx.stage("mc_aswritten", FAMS)
    rig.write_cfg(wd2 / "MC_Globals.cfg", constants=dict(consts, Mode="aswritten"), invariants=["AsWrittenMeetsRef"])
    r2 = ctx.tlc(wd2, "MC_Globals", workers=1, timeout=900)
    rig.write_cfg(wd2 / "MC_Globals_b.cfg", constants=dict(consts, Mode="aswritten"), invariants=["OnlyPkgFixedMeetsRef"])
    r3 = ctx.tlc(wd2, "MC_Globals", cfg="MC_Globals_b.cfg", workers=1, timeout=900)
    cex = {}
    for name, rr in (("AsWrittenMeetsRef", r2), ("OnlyPkgFixedMeetsRef", r3)):
        if rr.invariant_violated:
            st = re.findall(r"(?ms)^c = (.*?)(?=^\s*$|\Z)", rr.out)
            cex[name] = {"violated": True, "last_state": " ".join((st[-1] if st else "").split())[:700],
                         "states_to_counterexample": rr.distinct}
        elif rr.ok:
            cex[name] = {"violated": False}
        else:
            raise Infra(f"MC_Globals diagnostic run failed: {wd2}\n" + rig.tail(rr.out, 30))
    ctx.cov["model_counterexample"] = cex
    return cases


def run(ctx, only_cases=None):
    if only_cases is None:
        cases = model_check(ctx)
        ncases = sum(1 for _ in open(cases))
        ctx.cov["cases_exported"] = ncases
        if ctx.cov.get("states") and "model_theorem_violated" not in ctx.cov and ncases != ctx.cov["states"]:
            raise Infra(f"exported cases ({ncases}) differ from the explored state space ({ctx.cov['states']})")
    else:
        cases = ctx.work / "replay_cases.ndjson"
        rig.write_ndjson(cases, only_cases)
    # replay into the real code
    obs = ctx.work / "obs.ndjson"
    ctx.drive("c17", cases, obs, timeout=900)
    allobs = rig.read_ndjson(obs)
    outcomes = {}
    for o in allobs:
        outcomes[o["outcome"]] = outcomes.get(o["outcome"], 0) + 1
    nobuild = [o for o in allobs if o["outcome"] in ("builderror", "hostpanic-build")]
    ctx.cov.update(evaluations=len(allobs), traces_validated_against_impl=len(allobs) - len(nobuild), outcomes=outcomes,
                   distinct_nontrivial=len({json.dumps(case_of(o), sort_keys=True) for o in allobs if nontrivial(o)}),
                   rule="every reference sequence of the bounded space exported by TLC (exhaustive), each built once and run twice; "
                        "non-trivial = at least two references to a global and at least one of them outside the top level of the body file",
                   exhaustive=only_cases is None,
                   by_scope={sc: sum(1 for o in allobs if any(r["sc"] == sc for r in o["refs"]))
                             for sc in ("top", "layout", "macro", "closure", "imported", "rendered", "extending", "pkgvar")})
    # judge (sharded)
    bads, drift, badids = [], {"aswritten": 0, "fixed": 0, "records": 0}, set()
    for k in range(0, max(len(allobs), 1), SHARD):
        part = allobs[k:k + SHARD]
        p = ctx.work / f"obs_{k // SHARD}.ndjson"
        rig.write_ndjson(p, part)
        b, d = judge(ctx, f"trace_{k // SHARD}", p)
        for x in b:
            x["obs"] = part[x["k"] - 1]
        bads += b
        for key in drift:
            drift[key] += d[key]
        badids.update(d["badids"])
    merged = {}
    for b in bads:   # one line per signature and shard -> one per signature
        key = json.dumps(b["sig"], sort_keys=True)
        if key in merged:
            merged[key]["count"] += b["count"]
        else:
            merged[key] = b
    bads = list(merged.values())
    ctx.cov["judged_bad_first_pass"] = sum(b["count"] for b in bads)
    ctx.cov["bad_signatures_first_pass"] = len(bads)
    # which transcription predicts the real code (diagnostic)
    n = drift["records"]
    ctx.cov["impl_model_predicts_code"] = {"as_written": n - drift["aswritten"], "with_proposed_fixes": n - drift["fixed"], "records": n}
    if drift["aswritten"] and drift["fixed"]:
        ctx.cov["model_drift"] = "neither transcription (as written / with the proposed fixes) predicts all observations: " \
                                 f"{drift['aswritten']} / {drift['fixed']} of {n} differ (diagnostic only)"
    # samples: a few cases with their sources
    smp = rig.pick_samples([o for o in allobs if nontrivial(o)] or allobs, 4, ctx.seed)
    sc = ctx.work / "sample_cases.ndjson"
    rig.write_ndjson(sc, [case_of(o) for o in smp])
    so = ctx.work / "sample_obs.ndjson"
    ctx.drive("c17", sc, so, args=["-files"])
    ctx.cov["samples"] = [sample(o) for o in rig.read_ndjson(so)]
    # reproduction guard: fresh process, judged again
    confirmed = []
    if bads:
        cc = ctx.work / "confirm_cases.ndjson"
        rig.write_ndjson(cc, [case_of(b["obs"]) for b in bads])
        co = ctx.work / "confirm_obs.ndjson"
        ctx.drive("c17", cc, co, args=["-files"])
        byid = {o["id"]: o for o in rig.read_ndjson(co)}
        b2, _ = judge(ctx, "trace_confirm", co)
        keys2 = {json.dumps(b["sig"], sort_keys=True) for b in b2}
        confirmed = [b for b in bads if json.dumps(b["sig"], sort_keys=True) in keys2]
        ctx.cov["unreproduced"] = len(bads) - len(confirmed)
        for b in confirmed:
            b["obs"] = byid.get(b["id"], b["obs"])
            b["what"] = json.dumps(sample(b["obs"]))
    # sensitivity self-test: corrupted observations must be rejected by the same Trace spec
    st = selftest([o for o in allobs if o["id"] not in badids], ctx.seed)
    if st:
        p = ctx.work / "selftest_obs.ndjson"
        rig.write_ndjson(p, st)
        b3, _ = judge(ctx, "trace_selftest", p)
        rej = sum(b["count"] for b in b3)
        ctx.cov["sensitivity_selftest"] = {"corrupted": len(st), "rejected": rej}
        if rej < len(st):
            raise Infra(f"sensitivity self-test failed: {len(st)} corrupted observations, only {rej} rejected")
    elif only_cases is None:
        raise Infra("sensitivity self-test: no accepted observation to corrupt")
    if nobuild:
        raise Infra(f"{len(nobuild)} synthesised templates did not build, e.g. {json.dumps(sample(nobuild[0]))[:500]}")

    def rw(rdir, b):
        (rdir / "case.json").write_text(json.dumps(case_of(b["obs"])))
        (rdir / "obs.json").write_text(json.dumps(b["obs"]))
    return ctx.report(confirmed, replay_writer=rw, max_violations=12)


def selftest(allobs, seed):
    """Take observations the judge accepted and break one clause of the property in each."""
    import random
    rnd = random.Random(seed + 7)
    out = []
    pool = [o for o in allobs if o["outcome"] == "ok" and o["out1"] and nontrivial(o)]
    if not pool:
        return out
    # (a) another digit in a printed read
    o = json.loads(json.dumps(rnd.choice(pool)))
    i = max(k for k, c in enumerate(o["out1"]) if 48 <= c <= 57)
    o["out1"][i] = 48 + (o["out1"][i] - 48 + 1) % 10
    o["id"] = 9000001
    out.append(o)
    # (b) the caller's variable changed / not changed
    o = json.loads(json.dumps(rnd.choice(pool)))
    o["caller1"][0] += 1
    o["id"] = 9000002
    out.append(o)
    # (c) the name missing from UsedVars
    o = json.loads(json.dumps(rnd.choice(pool)))
    o["used"] = []
    o["id"] = 9000003
    out.append(o)
    # (d) the second Run's output differs
    o = json.loads(json.dumps(rnd.choice(pool)))
    i = max(k for k, c in enumerate(o["out2"]) if 48 <= c <= 57) if any(48 <= c <= 57 for c in o["out2"]) else None
    if i is not None:
        o["out2"][i] = 48 + (o["out2"][i] - 48 + 1) % 10
        o["id"] = 9000004
        out.append(o)
    # (e) Run failed
    o = json.loads(json.dumps(rnd.choice(pool)))
    o["outcome"] = "hostpanic-run"
    o["id"] = 9000005
    out.append(o)
    return out


def replay(ctx, path):
    c = json.loads((path / "case.json").read_text())
    return run(ctx, only_cases=[c])

"""C10 - compiled programs and templates run in isolation, repeatedly and concurrently (DESIGN 7/C10)."""
import json, shutil, rig
from rig import Infra

META = {
    "engine": "RunIsolation",
    "technique": "TLA+ spec of the shared-artefact / per-run state discipline (argument-slice pool ownership, isolation) model-checked by TLC over all interleavings; every interleaving of the gate events exported as a schedule and FORCED on the real VM through blocking -tags verif hooks (replay with gates); unconstrained concurrent runs (2..32 goroutines, GOMAXPROCS 1..16) and sequential histories added; hook event logs validated by a TLC trace spec; each run compared with a single run of a freshly built copy; driver built with -race",
    "level": "model_checking",
    "level_text": "RunIsolation.tla is checked for all interleavings of 2 runs x 2 native calls (quick) / 3 runs x 1 call and 2x2 (thorough): a pooled argument slice is held by at most one in-flight call, never while in the pool, and every host call sees its own run's arguments; the variant that returns the slice before the call must fail (non-vacuity). Each of the 924 (2x2) / 1680 (3x1) schedules is replayed on the real VM, as a template and as a program, with the callNative/argsPool hooks acting as gates; the logged events must be a behaviour of the spec, and every run's output/error/prints must equal a single run of a freshly built copy. Free-running batches and sequential histories (value vs pointer variables) are judged the same way. The race detector must stay silent.",
    "level_note": "Trusted: TLC, hook placement (args-get logged after Pool.Get returned, args-put before Pool.Put, so logged holds are sub-intervals of real holds), the gate implementation (a schedule that cannot be forced within 3 s is skipped and counted, never failed), Go's race detector for data-race freedom itself.",
    "design_ref": "7/C10",
}
FAMS = ["runiso"]
INVS = ["Exclusive", "NoHeldInPool", "Isolation", "DetachedNotPooled", "HistIsSchedule"]


def run(ctx, only_ids=None):
    configs = ctx.pick([(2, 2)], [(2, 2), (3, 1)])
    allcases = []
    states = trans = 0
    for (runs, calls) in configs:
        wd = ctx.stage(f"mc_{runs}x{calls}", FAMS)
        rig.write_cfg(wd / "MC_RunIsolation.cfg", spec="Spec", constants={"Runs": runs, "Calls": calls, "PutBeforeCall": False, "PutAfterGo": False}, invariants=INVS)
        r = ctx.tlc(wd, "MC_RunIsolation", workers=8, timeout=1200, must_pass=True)
        states += r.distinct
        trans += r.generated
        cs = rig.read_ndjson(wd / "cases.ndjson")
        for c in cs:
            c["id"] = c["id"] + 10000 * runs + 100000 * calls
        allcases += cs
    wd2 = ctx.stage("mc_putearly", FAMS)
    rig.write_cfg(wd2 / "MC_RunIsolation.cfg", spec="Spec", constants={"Runs": 2, "Calls": 1, "PutBeforeCall": True, "PutAfterGo": False}, invariants=INVS[:3])
    r2 = ctx.tlc(wd2, "MC_RunIsolation", workers=4, timeout=600)
    if not r2.invariant_violated:
        raise Infra("RunIsolation invariants are vacuous: the put-before-call variant was accepted")
    wd3 = ctx.stage("mc_putaftergo", FAMS)
    rig.write_cfg(wd3 / "MC_RunIsolation.cfg", spec="Spec", constants={"Runs": 2, "Calls": 1, "PutBeforeCall": False, "PutAfterGo": True}, invariants=["DetachedNotPooled", "Isolation"])
    r3 = ctx.tlc(wd3, "MC_RunIsolation", workers=4, timeout=600)
    if not r3.invariant_violated:
        raise Infra("RunIsolation: the variant returning the slice of a go call to the pool was accepted")
    ctx.cov["nonvacuity_variant_put_after_go_rejected"] = True
    ctx.cov.update(states=states, transitions=trans, mc_properties=INVS, nonvacuity_variant_put_before_call_rejected=True,
                   bounds=str(configs))
    if ctx.quick:
        allcases = rig.pick_samples(allcases, 260, ctx.seed)      # every schedule in thorough, a seeded sample in quick
    if only_ids is not None:
        allcases = [c for c in allcases if c["id"] in only_ids]
    rig.write_ndjson(ctx.work / "cases.ndjson", allcases)
    obs = ctx.work / "obs.ndjson"
    racedir = ctx.work / "race"
    racedir.mkdir(exist_ok=True)
    extra = 0 if only_ids is not None else ctx.pick(45, 300)
    ctx.drive("c10", ctx.work / "cases.ndjson", obs, race=True, timeout=3000, args=["-extra", extra],
              env={"GORACE": f"log_path={racedir}/r halt_on_error=0 exitcode=0"})
    events = rig.read_ndjson(obs)
    from checks.c14 import race_records
    races = race_records(racedir)
    for i, rc in enumerate(races):
        events.append({"t": 9000000 + i, "ev": "reset", "kind": "race", "runs": 1, "calls": 0, "form": rc["where"]})
        events.append({"t": 9000000 + i, "ev": "result", "run": 1, "same": False, "outcome": "datarace:" + rc["where"], "out": rc["text"][:600], "ref": "", "err": ""})
    rig.write_ndjson(obs, events)
    traces = {}
    for e in events:
        traces.setdefault(e["t"], []).append(e)
    bads = judge(ctx, "trace", obs)
    skipped = sum(1 for t in traces.values() if any(e["ev"] == "result" and e["outcome"] == "gate-timeout" for e in t))
    kinds = {}
    for t in traces.values():
        kinds[t[0]["kind"]] = kinds.get(t[0]["kind"], 0) + 1
    ctx.cov.update(evaluations=len(traces), traces_validated_against_impl=len(traces) - skipped, events=len(events), gate_timeouts_skipped=skipped,
                   trace_kinds=kinds, race_reports=len(races),
                   distinct_nontrivial=len({json.dumps([e.get("run") for e in t if e["ev"] == "gate"]) + t[0]["form"] for t in traces.values() if t[0]["kind"] in ("sched", "free") and t[0]["runs"] > 1}),
                   rule="TLC-exported interleavings of the gate events (forced through blocking hooks), seeded free-running concurrent batches and sequential histories, each as template and as program; non-trivial = more than one run; distinct by the order of gate events actually logged",
                   exhaustive=not ctx.quick,
                   samples=[compact(traces[k]) for k in list(traces)[:: max(1, len(traces) // 3)][:3]])
    if skipped > len(traces) // 4:
        raise Infra(f"too many schedules could not be forced ({skipped}/{len(traces)})")
    confirmed = []
    if bads:
        byid = {c["id"]: c for c in allcases}
        ids = sorted({b["id"] % 5000000 for b in bads if b["id"] % 5000000 in byid})
        if ids:
            rig.write_ndjson(ctx.work / "confirm_cases.ndjson", [byid[i] for i in ids])
            co = ctx.work / "confirm_obs.ndjson"
            racedir3 = ctx.work / "race3"
            racedir3.mkdir(exist_ok=True)
            ctx.drive("c10", ctx.work / "confirm_cases.ndjson", co, race=True, timeout=3000,
                      env={"GORACE": f"log_path={racedir3}/r halt_on_error=0 exitcode=0"})
            ev3 = rig.read_ndjson(co)
            for i, rc in enumerate(race_records(racedir3)):
                ev3.append({"t": 9000000 + i, "ev": "reset", "kind": "race", "runs": 1, "calls": 0, "form": rc["where"]})
                ev3.append({"t": 9000000 + i, "ev": "result", "run": 1, "same": False, "outcome": "datarace:" + rc["where"], "out": "", "ref": "", "err": ""})
            rig.write_ndjson(co, ev3)
            b2 = judge(ctx, "trace_confirm", co)
        else:   # failures only in seeded extra batches / race reports: re-run those
            co = ctx.work / "confirm_obs.ndjson"
            rig.write_ndjson(ctx.work / "confirm_cases.ndjson", [])
            racedir2 = ctx.work / "race2"
            racedir2.mkdir(exist_ok=True)
            ctx.drive("c10", ctx.work / "confirm_cases.ndjson", co, race=True, timeout=3000, args=["-extra", extra],
                      env={"GORACE": f"log_path={racedir2}/r halt_on_error=0 exitcode=0"})
            ev2 = rig.read_ndjson(co)
            for i, rc in enumerate(race_records(racedir2)):
                ev2.append({"t": 9000000 + i, "ev": "reset", "kind": "race", "runs": 1, "calls": 0, "form": rc["where"]})
                ev2.append({"t": 9000000 + i, "ev": "result", "run": 1, "same": False, "outcome": "datarace:" + rc["where"], "out": "", "ref": "", "err": ""})
            rig.write_ndjson(co, ev2)
            b2 = judge(ctx, "trace_confirm", co)
        keys = {json.dumps(b["sig"], sort_keys=True) for b in b2}
        confirmed = [b for b in bads if json.dumps(b["sig"], sort_keys=True) in keys]
        ctx.cov["unreproduced"] = len(bads) - len(confirmed)
        for b in confirmed:
            b["what"] = compact(traces[b["id"]])
            b["case"] = byid.get(b["id"] % 5000000, {"id": b["id"]})
    st = selftest(traces)
    p = ctx.work / "selftest_obs.ndjson"
    rig.write_ndjson(p, [e for t in st for e in t])
    b3 = judge(ctx, "trace_selftest", p)
    rej = {b["id"] for b in b3}
    ctx.cov["sensitivity_selftest"] = {"corrupted": len(st), "rejected": len(rej)}
    if len(rej) < len(st):
        raise Infra("sensitivity self-test: corrupted traces accepted")

    def rw(rdir, b):
        (rdir / "case.json").write_text(json.dumps(b.get("case")))
    return ctx.report(confirmed, replay_writer=rw)


def judge(ctx, step, obs):
    wd = ctx.stage(step, FAMS)
    shutil.copy(obs, wd / "obs.ndjson")
    rig.write_cfg(wd / "Trace_RunIsolation.cfg", init="TInit", next_="TNext",
                  constants={"Runs": 0, "Calls": 0, "PutBeforeCall": False, "PutAfterGo": False}, invariants=["Done", "TraceInv"], postcondition="Consumed")
    r = ctx.tlc(wd, "Trace_RunIsolation", workers=1, timeout=1500)
    if not r.ok or not (wd / "bad.ndjson").exists():
        raise Infra(f"Trace_RunIsolation failed: {wd}/Trace_RunIsolation.out\n" + rig.tail(r.out, 25))
    return rig.read_ndjson(wd / "bad.ndjson")


def compact(t):
    out = []
    for e in t:
        if e["ev"] == "gate":
            out.append(f"r{e['run']}:{'go ' if e.get('go') else ''}{e['g']}" + (f"#{e['ptr']}" if e["ptr"] else ""))
        elif e["ev"] == "reset":
            out.append(f"[{e['kind']} {e.get('form')} runs={e['runs']} calls={e['calls']}]")
        elif e["ev"] == "host":
            out.append(f"r{e['run']}:{'async-' if e.get('async') else ''}host(saw r{e['seen']})")
        elif e["ev"] == "result":
            out.append(f"r{e['run']}:{'same' if e['same'] else 'DIFF out=' + repr(e.get('out'))[:80] + ' ref=' + repr(e.get('ref'))[:80]}:{e['outcome']}")
        else:
            out.append(json.dumps(e)[:80])
    return " ".join(out)[:900]


def selftest(traces):
    out = []
    good = [t for t in traces.values() if t[0]["kind"] == "sched" and t[0]["runs"] == 2 and all(e.get("outcome", "ok") == "ok" for e in t)]
    if not good:
        return out
    t = good[len(good) // 2]
    a = json.loads(json.dumps(t))        # host function saw the other run's arguments
    for e in a:
        e["t"] = 8000001
    h = next(e for e in a if e["ev"] == "host")
    h["seen"] = 3 - h["seen"]
    out.append(a)
    b = json.loads(json.dumps(t))        # two runs hold the same slice
    for e in b:
        e["t"] = 8000002
    gets = [e for e in b if e["ev"] == "gate" and e["g"] == "args-get"]
    puts = [i for i, e in enumerate(b) if e["ev"] == "gate" and e["g"] == "args-put"]
    first_put = puts[0]
    dup = dict(gets[0]); dup["run"] = 3 - gets[0]["run"]
    # insert a get of the same slice by the other run while it is still held (only valid if that run is at 'get')
    idx = b.index(gets[0]) + 1
    b.insert(idx, {"t": 8000002, "ev": "gate", "run": dup["run"], "g": "native-call", "ptr": 0})
    b.insert(idx + 1, dup)
    out.append(b)
    c = json.loads(json.dumps(t))        # output differs from a fresh copy
    for e in c:
        e["t"] = 8000003
        if e["ev"] == "result":
            e["same"] = False
    out.append(c)
    return out


def replay(ctx, path):
    c = json.loads((path / "case.json").read_text())
    return run(ctx, only_ids={c["id"]})

"""C05 - running compiled code never panics into the host (DESIGN section 7 C05)."""
import collections, json, shutil
from concurrent.futures import ThreadPoolExecutor
import rig
from rig import Infra

META = {
    "title": "Run never panics into the host",
    "engine": "Faults",
    "technique": "TLA+ table fault class x instruction class x syntactic situation x form -> outcome class (reference) and a transcription of convertPanic / runFunc / the nested callback VM / nextCall's renderer restore (implementation-shaped), model-checked by TLC over the whole grid; TLA+ machine of the renderer's URL state (inURL, query, addAmpersand, removeQuestionMark) with actions Text/Show/EndURL model-checked over all item sequences; one generated program or template per case replayed into the real code under a host recover(); outcomes judged by TLC trace specs",
    "level": "model_checking",
    "level_text": "Faults.tla: 135 concrete faults (integer division by zero for every integer kind, nil dereference through pointer/field/index/slice/range/interface method, index and slice bounds on slices/arrays/strings with constant and variable operands, failed and nil type assertions, close/send on nil/closed channels, nil-map write, unhashable keys in map read/write/delete/literal, negative and huge make sizes, slice-to-array-pointer conversion, comparison of uncomparable interface values, nil function calls, append overflow, explicit panics, panics and run-time errors raised inside native callbacks, Scriggo functions called back from native code, finite deep recursion, unshowable values), runs ended by env.Stop) x 22 situations (top level, callee, deferred call, closure, function value, template show/statement/block/macro, and four multi-step panic/recover sequences - fault in flight while a nested call raises and recovers another panic, fault raised and recovered in a nested call of a deferred call, fault raised by a deferred call while another panic is in flight, fault raised after a deferred call recovered - in programs and in template blocks) x 3 forms (plain, recover in the function, recover in the caller) x 2 run options (no context, cancelable context): every cell is a script of panic events whose reference outcome is computed with the ideal conversion; TLC explores the NextEvent->convertPanic->End machine (with the close(stop) bookkeeping) for every cell and exhibits the cells where the transcribed convertPanic falls through to fatalError; every cell is one generated program/template run through scriggo.Build/BuildTemplate + Run under recover(), and TLC judges each logged outcome (never hostpanic; where the reference outcome is nil under a recover form, nil). Show grid: 36 odd values (structs embedding unexported structs, nil pointers to Stringers, channels, funcs, nil interface, maps with odd keys, self-referencing pointer/map/slice - those in a child process, whose death is an observation) x 23 template contexts x static type own|any, judged never hostpanic / processdeath. URLState.tla: every sequence of <=3 (quick) / <=4 (thorough) items (8 pieces as text or as shown value) in href/src/srcset: TLC checks the field-comment invariants, decode-back of every shown value and agreement of the action-wise and functional forms, exhibits the out-of-range reads; every sequence is rendered by the real code and judged (no host panic), the rendered attribute is compared with the model (drift).",
    "level_note": "Trusted: TLC, the Json module, the Go driver (string templates + recover + logging, no expected values). `Raised` (which Go panic value reaches convertPanic for each fault) is transcribed from run.go and from the panic messages of the Go toolchain in use; a drift between the model's outcome and the real one is reported as model_drift and never decides. Not covered: context cancellation and Stop (C11, C12), writer errors (C13), faults inside goroutines started by `go`, programs from the C01 generator, float faults.",
    "design_ref": "7/C05",
}

FAMS = ["faults"]

# Host panics demonstrated on the unchanged /repo (each reported to the integrator with a minimal input and a fix);
# signatures are computed by Trace_Faults.Sig / Trace_URLState.Sig.
# eleven of the thirteen causes found by this check were fixed in /repo (known-findings.json, kind "fixed"); the two below are
# deliberate-looking behaviour of native calls (no documented contract) and stay listed as known findings
PROPOSED_KNOWN = []   # integrated into known-findings.json


# ---------------------------------------------------------------------------------------------- helpers
def judge(ctx, step, module, obs_path):
    bads, r = rig.trace_judge(ctx, step, FAMS, module, obs_path)
    diag = rig.read_ndjson(ctx.work / step / "diag.ndjson")[0]
    return bads, diag


def sample_fault(o):
    if o["kind"] == "show":
        return {"value": o["value"], "ctx": o["ctx"], "box": o["box"], "outcome": o["outcome"], "msg": o["msg"][:160],
                "src": o["src"], "out": o.get("out", "")[:120]}
    return {"fault": o["fault"], "situation": o["situation"], "form": o["form"], "opt": o["opt"], "outcome": o["outcome"],
            "msg": o["msg"][:160], "src": o["src"]}


def show_items(items):
    return " ".join(("T" if k == 0 else "S") + json.dumps(rig.b2s(p)) for k, p in items)


def sample_url(o):
    return {"attr": o["attr"], "items": show_items(o["items"]), "src": o["src"], "outcome": o["outcome"],
            "msg": o["msg"][:160], "out": rig.b2s(o["out"])}


def confirm(ctx, tag, module, bads, obs_by_id, case_of, sample):
    """Reproduction guard: re-run the failing cases in a fresh process and judge again."""
    if not bads:
        return []
    ids = sorted({b["id"] for b in bads})
    cc = ctx.work / f"{tag}_confirm_cases.ndjson"
    rig.write_ndjson(cc, [case_of(obs_by_id[i]) for i in ids])
    co = ctx.work / f"{tag}_confirm_obs.ndjson"
    ctx.drive("c05", cc, co)
    b2, _ = judge(ctx, f"{tag}_trace_confirm", module, co)
    again = {(b["id"], json.dumps(b["sig"], sort_keys=True)) for b in b2}
    out = []
    for b in bads:
        if (b["id"], json.dumps(b["sig"], sort_keys=True)) in again:
            o = obs_by_id[b["id"]]
            b["obs"], b["case"], b["what"] = o, case_of(o), sample(o)
            out.append(b)
    return out


# ---------------------------------------------------------------------------------------------- faults
def case_of_fault(o):
    if o["kind"] == "show":
        return {"id": o["id"], "kind": "show", "value": o["value"], "ctx": o["ctx"], "box": o["box"],
                "isolate": o["value"].startswith("cyclic")}
    return {"id": o["id"], "kind": "fault", "fault": o["fault"], "situation": o["situation"], "form": o["form"], "opt": o["opt"]}


def faults_part(ctx, only=None):
    cov = {}
    if only is None:
        wd = ctx.stage("mc_faults", FAMS)
        rig.write_cfg(wd / "MC_Faults.cfg", init="MCInit", next_="FNext", constants={"Quick": ctx.quick}, invariants=["TypeOK", "FunctionalAgrees", "StopClosedOnce", "ReferenceSane"], deadlock=True)
        r = ctx.tlc(wd, "MC_Faults", workers=4, timeout=600, coverage=not ctx.quick, must_pass=True)
        holes = rig.read_ndjson(wd / "model_holes.ndjson")
        cov.update(states=r.distinct, transitions=r.generated, mc_wall_s=round(r.wall, 1),
                   mc_invariants=["TypeOK", "FunctionalAgrees", "StopClosedOnce", "ReferenceSane", "StructWalkSafe", "no deadlock before done"])
        if not ctx.quick:
            cov["actions_never_taken"] = r.coverage_zero()
        if holes:
            by = collections.Counter((h["class"], h["op"], h["pv"]) for h in holes if h["model"] == "hostpanic")
            cov["model_counterexample"] = {
                "invariant": "ModelMeetsReference (model outcome in the reference's outcome set) - evaluated by TLC for every cell",
                "cells": len(holes),
                "by_fault_class_op_panicvalue": sorted("%s @ %s / %s: %d cells" % (k + (v,)) for k, v in by.items()),
            }
        cases = wd / "cases.ndjson"
    else:
        cases = ctx.work / "faults_cases.ndjson"
        rig.write_ndjson(cases, [only])
    obs = ctx.work / "faults_obs.ndjson"
    ctx.drive("c05", cases, obs)
    allobs = rig.read_ndjson(obs)
    noconc = [o for o in allobs if o["outcome"] == "noconcretisation"]
    if noconc:
        raise Infra("driver has no concretisation for %d grid cells, e.g. %s" % (len(noconc), case_of_fault(noconc[0])))
    notbuilt = [o for o in allobs if o["outcome"] == "builderror"]
    # (a show whose static type the checker refuses is a build error by design: those are only counted)
    nb_fault = [o for o in notbuilt if o["kind"] == "fault"]
    nfault = sum(1 for o in allobs if o["kind"] == "fault")
    if len(nb_fault) * 20 > max(nfault, 1) and only is None:
        notbuilt = nb_fault
        raise Infra("%d of %d generated programs do not build, e.g. %s: %s" % (
            len(notbuilt), len(allobs), case_of_fault(notbuilt[0]), notbuilt[0]["msg"]))
    # "for any program that builds": the others are skipped and counted
    run_obs = [o for o in allobs if o["outcome"] != "builderror"]
    rig.write_ndjson(obs, run_obs)
    by_id = {o["id"]: o for o in run_obs}
    # sensitivity self-test: corrupted copies of three observations ride along (ids >= 900000) and must be rejected
    st = []
    if only is None:
        fo = [o for o in run_obs if o["kind"] == "fault"]
        a = next((o for o in fo if o["form"] == "plain" and o["outcome"] == "panicerror"), None)
        b = next((o for o in fo if o["form"] != "plain" and o["outcome"] == "nil" and o["recovered"]), None)
        c = next((o for o in fo if o["fault"] == "nofault" and o["outcome"] == "nil"), None)
        d = next((o for o in fo if o["situation"].startswith("seq_") and o["form"] == "recover" and o["outcome"] == "nil"), None)
        e = next((o for o in run_obs if o["kind"] == "show" and o["outcome"] == "nil"), None)
        if d:
            st.append(dict(d, id=900004, outcome="panicerror", msg="corrupted"))
        if e:
            st.append(dict(e, id=900005, outcome="processdeath", msg="corrupted"))
        if a:
            st.append(dict(a, id=900001, outcome="hostpanic", msg="corrupted"))
        if b:
            st.append(dict(b, id=900002, outcome="panicerror", msg="corrupted"))
        if c:
            st.append(dict(c, id=900003, outcome="hostpanic", msg="corrupted"))
        rig.write_ndjson(obs, run_obs + st)
    bads, diag = judge(ctx, "faults_trace", "Trace_Faults", obs)
    rejected = {b["id"] for b in bads if b["id"] >= 900000}
    bads = [b for b in bads if b["id"] < 900000]
    for k in ("drift", "refmiss"):
        diag[k] = [i for i in diag[k] if i < 900000]
    if only is None:
        cov["sensitivity_selftest"] = {"corrupted": len(st), "rejected": len(rejected)}
        if len(rejected) < len(st) or not st:
            raise Infra("faults: sensitivity self-test failed (%d corrupted, %d rejected)" % (len(st), len(rejected)))
    cov.update(evaluations=len(run_obs), not_built=len(notbuilt), ref_undefined=diag["ref_undefined"],
               outcomes=dict(collections.Counter(o["outcome"] for o in run_obs)),
               nontrivial=len({(o["fault"], o["situation"], o["form"], o["opt"]) for o in run_obs
                               if o["kind"] == "fault" and (o["outcome"] != "nil" or o["recovered"])}) +
               len({(o["value"], o["ctx"], o["box"]) for o in run_obs if o["kind"] == "show" and (o["outcome"] != "nil" or o["box"] == "any")}),
               fault_cases=sum(1 for o in run_obs if o["kind"] == "fault"), show_cases=sum(1 for o in run_obs if o["kind"] == "show"),
               judged_bad_first_pass=len(bads),
               drift=len(diag["drift"]), outcome_not_the_reference_one=len(diag["refmiss"]))
    if notbuilt:
        cov["not_built_example"] = {"case": case_of_fault(notbuilt[0]), "msg": notbuilt[0]["msg"][:200]}
    if diag["drift"]:
        cov["drift_examples"] = [sample_fault(by_id[i]) for i in diag["drift"][:3]]
    if diag["refmiss"]:
        cov["outcome_not_the_reference_one_examples"] = [sample_fault(by_id[i]) for i in diag["refmiss"][:3]]
    confirmed = confirm(ctx, "faults", "Trace_Faults", bads, by_id, case_of_fault, sample_fault)
    cov["unreproduced"] = len(bads) - len(confirmed)
    cov["samples"] = [sample_fault(o) for o in rig.pick_samples([o for o in run_obs if o["outcome"] != "nil"] or run_obs, 3, ctx.seed)]
    return cov, confirmed


# ---------------------------------------------------------------------------------------------- URL state
def case_of_url(o):
    return {"id": o["id"], "kind": "url", "attr": o["attr"], "items": o["items"]}


def url_part(ctx, only=None):
    cov = {}
    consts = {"MaxLen": ctx.pick(3, 4), "GenLen": ctx.pick(3, 4)}
    if only is None:
        wd = ctx.stage("mc_url", FAMS)
        invs = ["InvFieldComments", "InvNoActionFault", "InvValuesDecodeBack", "InvEndResets", "InvFunctionalAgrees"]
        rig.write_cfg(wd / "MC_URLState.cfg", constants=consts, invariants=invs)
        r = ctx.tlc(wd, "MC_URLState", workers=ctx.pick(4, 8), timeout=1500, coverage=not ctx.quick, must_pass=True)
        holes = rig.read_ndjson(wd / "url_model_holes.ndjson")
        cov.update(states=r.distinct, transitions=r.generated, mc_wall_s=round(r.wall, 1), mc_invariants=invs, bounds=str(consts))
        if not ctx.quick:
            cov["actions_never_taken"] = r.coverage_zero()
        if holes:
            kinds = collections.Counter((a, k) for h in holes for a, k in h["kinds"].items() if k)
            first = {}
            for h in holes:
                for a, k in h["kinds"].items():
                    if k and (a, k) not in first:
                        first[(a, k)] = show_items(h["items"])
            cov["model_counterexample"] = {
                "invariants": "InvNoActionFault / InvQueryValuesConfined, evaluated by TLC on every sequence of <= 3 items",
                "sequences": len(holes),
                "by_attr_and_kind": sorted("%s: %s: %d, shortest: %s" % (a, k, n, first[(a, k)]) for (a, k), n in kinds.items()),
            }
        cases = wd / "cases.ndjson"
    else:
        cases = ctx.work / "url_cases.ndjson"
        rig.write_ndjson(cases, [only])
    obs = ctx.work / "url_obs.ndjson"
    ctx.drive("c05", cases, obs)
    allobs = rig.read_ndjson(obs)
    notrun = [o for o in allobs if o["outcome"] in ("noconcretisation", "builderror")]
    if notrun:
        raise Infra("url: %d templates were not run, e.g. %s: %s" % (len(notrun), notrun[0].get("src"), notrun[0]["msg"]))
    by_id = {o["id"]: o for o in allobs}
    st = []
    if only is None:
        a = next((o for o in allobs if o["outcome"] == "nil" and len(o["items"]) >= 2), None)
        if a:
            st.append(dict(a, id=900011, outcome="hostpanic", msg="corrupted"))
    bads, ndrift, drift_ids, undef = [], 0, [], 0
    shard = 60000
    parts = [allobs[k:k + shard] for k in range(0, len(allobs), shard)] or [[]]
    parts[0] = parts[0] + st

    def one(i):
        p = ctx.work / f"url_obs_{i}.ndjson"
        rig.write_ndjson(p, parts[i])
        return judge(ctx, f"url_trace_{i}", "Trace_URLState", p)
    with ThreadPoolExecutor(max_workers=4) as ex:
        for b, d in ex.map(one, range(len(parts))):
            bads += b
            ndrift += d["ndrift"]
            drift_ids += d["drift"]
            undef += d["ref_undefined"]
    rejected = {b["id"] for b in bads if b["id"] >= 900000}
    bads = [b for b in bads if b["id"] < 900000]
    drift_ids = [i for i in drift_ids if i < 900000]
    if only is None:
        ndrift -= len(st)      # the corrupted copy also differs from the model
        cov["sensitivity_selftest"] = {"corrupted": len(st), "rejected": len(rejected)}
        if len(rejected) < len(st) or not st:
            raise Infra("url: sensitivity self-test failed")
    cov.update(evaluations=len(allobs), ref_undefined=undef,
               outcomes=dict(collections.Counter(o["outcome"] for o in allobs)),
               nontrivial=len({(o["attr"], json.dumps(o["items"])) for o in allobs
                               if any(k == 1 for k, _ in o["items"]) and (o["outcome"] != "nil" or b"%" in bytes(o["out"]) or b"&amp;" in bytes(o["out"]))}),
               judged_bad_first_pass=len(bads), drift=ndrift)
    if drift_ids:
        cov["drift_examples"] = [sample_url(by_id[i]) for i in drift_ids[:3]]
    confirmed = confirm(ctx, "url", "Trace_URLState", bads, by_id, case_of_url, sample_url)
    cov["unreproduced"] = len(bads) - len(confirmed)
    cov["samples"] = [sample_url(o) for o in rig.pick_samples([o for o in allobs if len(o["items"]) >= 2], 3, ctx.seed)]
    return cov, confirmed


# ---------------------------------------------------------------------------------------------- run
def run(ctx, only=None):
    ctx.build_driver("c05")
    if only is not None:
        part = faults_part if only["kind"] == "fault" else url_part
        _, confirmed = part(ctx, only=only)
        return ctx.report(confirmed, replay_writer=replay_writer)
    with ThreadPoolExecutor(max_workers=2) as ex:
        f1, f2 = ex.submit(faults_part, ctx), ex.submit(url_part, ctx)
        fcov, fbad = f1.result()
        ucov, ubad = f2.result()
    ctx.cov.update(
        states=fcov["states"] + ucov["states"], transitions=fcov["transitions"] + ucov["transitions"],
        evaluations=fcov["evaluations"] + ucov["evaluations"],
        traces_validated_against_impl=fcov["evaluations"] + ucov["evaluations"],
        distinct_nontrivial=fcov["nontrivial"] + ucov["nontrivial"],
        rule="faults: every applicable cell fault x situation x form of Faults.tla (exported by TLC), one generated program/template each; "
             "non-trivial = the run did not simply return nil (a fault was raised: an error came back, or it was recovered, or the host saw a panic). "
             "url: every sequence of <= GenLen items (8 pieces x text|shown value) x {href, src, srcset} exported by TLC; "
             "non-trivial = has a shown value and the renderer escaped something (%XX or &amp; in the output) or the run did not return nil",
        exhaustive=True,
        bounds="faults: 135 faults x 22 situations (8 of them multi-step sequences) x 3 forms x 2 run options (applicable cells; quick: the cancelable-context half only for top level / deferred / multi-step / template block); show: 36 values x 23 contexts x 2 static types; url: " + ucov.get("bounds", ""),
        samples=fcov["samples"] + ucov["samples"],
        sensitivity_selftest={"faults": fcov.get("sensitivity_selftest"), "url": ucov.get("sensitivity_selftest")},
        unreproduced=fcov["unreproduced"] + ucov["unreproduced"],
        ref_undefined=fcov["ref_undefined"] + ucov["ref_undefined"],
        faults=fcov, url=ucov,
    )
    drift = fcov["drift"] + ucov["drift"]
    if drift:
        ctx.cov["model_drift"] = "%d observations differ from the implementation-shaped models (faults %d, url %d); diagnostic only" % (
            drift, fcov["drift"], ucov["drift"])
    mc = {k: v["model_counterexample"] for k, v in (("faults", fcov), ("url", ucov)) if "model_counterexample" in v}
    if mc:
        ctx.cov["model_counterexample"] = mc
    if not ctx.quick:
        ctx.cov["actions_never_taken"] = fcov.get("actions_never_taken", []) + ucov.get("actions_never_taken", [])
    return ctx.report(fbad + ubad, replay_writer=replay_writer, max_violations=20)


def replay_writer(rdir, b):
    (rdir / "case.json").write_text(json.dumps(b.get("case")))
    (rdir / "obs.json").write_text(json.dumps(b.get("obs")))
    src = (b.get("obs") or {}).get("src")
    if src:
        (rdir / "source.txt").write_text(src)


def replay(ctx, path):
    c = json.loads((path / "case.json").read_text())
    return run(ctx, only=c)

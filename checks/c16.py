"""C16 - render, import and extends compose like their documented expansions (DESIGN 7/C16)."""
import json, re, shutil, time
import rig
from rig import Infra

META = {
    "title": "Compose",
    "engine": "Compose",
    "technique": "TLA+ reference (documented expansion semantics by structural recursion: the value of render / of a macro "
                 "call has a format type and is shown by the ordinary show rules; extends = layout + child's macros; import = "
                 "local declaration) + implementation-shaped model of the emitter's show decisions (canOptimizeShowMacro, the "
                 "{{ render }} fast path, generic emitShow) and of the VM's renderer stack in OpCallMacro/OpReturn; TLC "
                 "model-checks the model against the reference over the bounded case space and writes, for every case, the "
                 "source text of its variants (direct, via variable, partial alone, hand-expanded forms); a Go driver builds "
                 "and runs every variant and logs the bytes; a TLC Trace spec judges the real outputs relationally",
    "level": "model_checking",
    "level_text": "TLC explores every case of the space {render, local macro call, import, extends} x host format {txt, html, md, js} "
                  "x placement {content, quoted attribute value, <script>} x partial/macro/imported/layout format x every body of "
                  "<=1 (quick) / <=2 (thorough) items over {text, text with a tag, show of an escapable constant, render q.F, the "
                  "same via a variable, typed macro declaration + call} (+ directory layouts up to 2 deep, the three import forms, "
                  "render nesting 3 deep with alternating formats (html->md->html->md with the bracketing converter; quick: the two "
                  "HTML/Markdown alternations in the render and call kinds, thorough: every pair in every kind), a partial in another "
                  "directory shared by two files or referenced twice by one file and followed by a relative reference, "
                  "a layout redeclaring the macro, seeded longer bodies) and checks on each: the reference satisfies the "
                  "property's relations, the mechanism with the two proposed fixes equals the reference, the mechanism as written "
                  "leaves it only through a {{ render }} of a mismatching format or a tag in a foreign-typed macro. Every case's "
                  "variants are built and run by the real BuildTemplate/Run and the outputs judged by the relations in TLA+.",
    "level_note": "Trusted: TLC, the Json module, the Go driver that only concatenates source fragments, builds, runs and logs. "
                  "One escapable constant, fixed text atoms, <=3 nesting levels of render below the main file, macros without parameters, four of the "
                  "six formats (no css/json), quoted attributes only, a bracketing fixture instead of a CommonMark converter. "
                  "Escape spellings are transcribed from today's code and used for the drift diagnostics only.",
    "design_ref": "7/C16",
}

FAMS = ["compose"]

# --------------------------------------------------------------------------------------------------------------
# Defects demonstrated on the unchanged tree (minimal inputs, code locations and proposed fixes are in the family
# report); the integrator fixes /repo or moves these into known-findings.json.  Signatures are computed by
# Trace_Compose!Sig: failing relation(s) + host format (outer) + format of the rendered/imported/layout file or
# macro type (inner) + placement (ctx) + whether the direct form contains the partial's own output verbatim.
D1 = ("{{ render \"p\" }} is emitted through a fast path that writes the rendered file RAW into the output whenever its format "
      "is not the context's (emitter_statements.go `case *ast.Show`: no format/context test, unlike canOptimizeShowMacro; "
      "run.go OpCallMacro `newRenderer(vm.renderer.out)`), while {%% var v = render \"p\" %%}{{ v }} and the macro form escape "
      "it: %s partial in a %s host, %s")
D2 = ("inside a macro with an explicit result type the lexer falls back to the FILE's tag context after an HTML tag "
      "(lexer.go `l.ctx = l.tag.ctx; l.tag.ctx = fileContext`), so the hand-expanded form "
      "`{%% macro K %s %%}...<i>...{{ s }}{%% end %%}` in a %s file shows s in context %s (the file's own context from the second "
      "tag of a .txt/.js file on) instead of the macro's: the %s")
FMT_TYPE = {"txt": "string", "html": "html", "md": "markdown", "js": "js"}
PLACE = {"text": "content", "attr": "quoted attribute value", "script": "<script>"}


def _ctx_of(hf, pl):
    return hf if pl == "text" else ("attr" if pl == "attr" else "js")


def _can_optimize(frm, ctx):
    return ctx != "attr" and (frm == ctx or (frm == "md" and ctx == "html"))


def _tag_ctx(f):
    return "md" if f == "md" else "html"


def _placements(f):
    return ("text", "attr", "script") if f in ("html", "md") else ("text",)


def _proposed():
    out = []
    # D1: every (host, placement, partial format) the fast path writes raw although the show rules escape.
    # (rels: direct=viaVar, and direct=expanded when the body has an expanded form; tag: irrelevant here)
    for hf in ("html", "md", "js"):
        for pl in _placements(hf):
            for pf in ("txt", "html", "md", "js"):
                if not _can_optimize(pf, _ctx_of(hf, pl)):
                    out.append({"kind": "known",
                                "signature": {"fam": "compose", "kind": "render", "rels": "*", "outer": hf, "inner": pf,
                                              "ctx": pl, "how": "output", "direct": "raw-inclusion", "tag": "*"},
                                "what": D1 % ("." + pf, "." + hf, PLACE[pl])})
    # D2: a tag in the body of a macro whose explicit type is html/markdown and not the file's format (after a tag the
    # lexer is in the file's tag context: Markdown in a Markdown file, HTML elsewhere - and, in .txt/.js files, the file's
    # own context from the second tag on).  Only the hand-expanded forms declare such macros.
    for kind, rel, what in (("import", "import=local", "imported macro differs from its local declaration"),
                            ("render", "direct=expanded", "rendered file differs from its macro expansion")):
        for hf in ("txt", "html", "md", "js"):
            for pf in ("html", "md"):
                if pf == hf:
                    continue
                for pl in _placements(hf):
                    # (render: where D1 applies too the direct form is a raw inclusion and D1's signature covers the case)
                    out.append({"kind": "known",
                                "signature": {"fam": "compose", "kind": kind, "rels": [rel], "outer": hf, "inner": pf, "ctx": pl,
                                              "how": "output", "tag": True, "direct": "*"},
                                "what": D2 % (FMT_TYPE[pf], "." + hf, _tag_ctx(hf), what)})
    for pl in _placements("html"):
        out.append({"kind": "known",
                    "signature": {"fam": "compose", "kind": "extends", "rels": ["extends=expanded"], "outer": "md", "inner": "html",
                                  "ctx": pl, "how": "output", "tag": True, "direct": "n/a"},
                    "what": D2 % ("markdown", ".html", "html", "extending file differs from the layout with the child's macros")})
    return out


PROPOSED_KNOWN = []   # D2 was fixed in /repo (caecd73); the 22 D1 combinations are listed in known-findings.json (kind "known"); _proposed() is kept as their generator

THEOREMS = ["RefRelations", "FixedMeetsRef", "AsWrittenDeviatesOnlyIf", "RenderFixLeavesOnlyTag", "RefDefined"]


def text(a):
    return rig.b2s(a)


def sample(o):
    d = o["d"]
    s = {"case": "%s host=.%s ctx=%s inner=%s lay=%d imp=%s body=%s" % (
        d["kind"], d["hf"], d["pl"], d["pf"], d["lay"], d["imp"], " ".join(i["k"] + (":" + i["f"] if i["f"] else "") + ("/" + i["g"] if i.get("g") else "") for i in d["body"]))}
    for v in o["variants"]:
        s[v["name"]] = v["outcome"] + ": " + text(v["out"]) if v["outcome"] == "ok" else v["outcome"] + ": " + v.get("err", "")[:160]
    v0 = o["variants"][0]
    s["files(" + v0["name"] + ")"] = {f["path"]: "".join(f["src"]) for f in v0["files"]}
    return s


def case_of(o):
    return {"id": o["id"], "d": o["d"],
            "variants": [{"name": v["name"], "main": v["main"], "files": v["files"]} for v in o["variants"]]}


def nontrivial(o):
    return o["d"]["kind"] != "calib" and len(o["d"]["body"]) > 0 and all(v["outcome"] == "ok" for v in o["variants"])


def corrupt(o):
    # one byte more in the output of the first variant (it takes part in every relation of its case)
    o["variants"][0]["out"] = o["variants"][0]["out"] + [120]
    o["variants"][0]["outcome"] = "ok"
    return o


def bounds(ctx):
    return {"MaxLen": ctx.pick(1, 2), "NSample": ctx.pick(100, 600), "Seed": ctx.seed, "Full": not ctx.quick}


def judge(ctx, step, allobs, drift_every, pool=None, shard=2500):
    """Run Trace_Compose over the observations (in parallel shards).  Returns (bad records with 'obs', summed drift)."""
    parts = [allobs[k:k + shard] for k in range(0, max(len(allobs), 1), shard)]

    def one(i):
        p = ctx.work / f"{step}_{i}.ndjson"
        rig.write_ndjson(p, parts[i])
        bads, _ = rig.trace_judge(ctx, f"{step}_{i}", FAMS, "Trace_Compose", p, consts={"DriftEvery": drift_every}, timeout=1500)
        dp = ctx.work / f"{step}_{i}" / "drift.ndjson"
        if not dp.exists():
            raise Infra(f"Trace_Compose wrote no drift.ndjson ({dp.parent})")
        for b in bads:
            b["obs"] = parts[i][b["k"] - 1]
        return bads, rig.read_ndjson(dp)[0]
    res = list(pool.map(one, range(len(parts)))) if pool and len(parts) > 1 else [one(i) for i in range(len(parts))]
    bads, drift = [], {}
    for b, d in res:
        bads += b
        for k, v in d.items():
            drift[k] = drift.get(k, [] if isinstance(v, list) else 0) + v
    return bads, drift


def mc_theorems(ctx, consts):
    """The design-level theorems over the whole space (no export)."""
    wd = ctx.stage("mc", FAMS)
    mode = ctx.pick("noexport", "all")      # "all": also the render-fix-alone theorem (thorough tier)
    rig.write_cfg(wd / "MC_Compose.cfg", constants=dict(consts, Mode=mode), invariants=["Theorems"])
    r = ctx.tlc(wd, "MC_Compose", workers=max(2, rig.NCPU // 2), timeout=1500)
    out = {"states": r.distinct, "transitions": r.generated, "wall": round(r.wall, 1), "holds": bool(r.ok), "named": None}
    if not r.ok:
        if not r.invariant_violated:
            raise Infra(f"MC_Compose failed: {wd}/MC_Compose.out\n" + rig.tail(r.out, 30))
        wd2 = ctx.stage("mc_named", FAMS)
        rig.write_cfg(wd2 / "MC_Compose.cfg", constants=dict(consts, Mode="noexport"), invariants=THEOREMS if not ctx.quick else [t for t in THEOREMS if t != "RenderFixLeavesOnlyTag"])
        r2 = ctx.tlc(wd2, "MC_Compose", workers=4, timeout=1500, extra=["-continue"])
        out["named"] = sorted(set(r2.invariant_violated)) or r.invariant_violated
        out["tlc_out"] = str(wd2 / "MC_Compose.out")
    return out


def mc_coverage(ctx):
    """Thorough tier: TLC -coverage on the space of bodies of <= 1 item: which actions were never taken and which
    expressions of the reference / implementation-shaped model (Compose.tla) were never evaluated."""
    wd = ctx.stage("mc_cov", FAMS)
    rig.write_cfg(wd / "MC_Compose.cfg", constants={"MaxLen": 1, "NSample": 0, "Seed": 1, "Mode": "all", "Full": True}, invariants=["Theorems"])
    r = ctx.tlc(wd, "MC_Compose", workers=2, timeout=1500, coverage=True, must_pass=True)
    never, lo, hi = [], None, None
    src = (wd / "Compose.tla").read_text().splitlines()
    for k, line in enumerate(src, 1):       # the model part of the module: from the reference to the case constructors
        if line.startswith("RECURSIVE RefFile"):
            lo = k
        if line.startswith("ImplOut(v, V)"):
            hi = k
    for m in re.finditer(r"line (\d+), col (\d+) to line (\d+), col (\d+) of module Compose: 0\s*$", r.out, re.M):
        if lo and hi and lo <= int(m.group(1)) <= hi:
            never.append(f"{m.group(1)}:{m.group(2)}-{m.group(4)}")
    return {"states": r.distinct, "actions_never_taken": r.coverage_zero(), "model_expressions_never_evaluated": sorted(set(never))[:40]}


def mc_diag(ctx, step, inv):
    """Diagnostic: the mechanism AS WRITTEN against the property's relations, at the model level.  A counterexample is
    expected while the defects are in the tree: it is the minimal model-level witness, not a verdict."""
    wd = ctx.stage(step, FAMS)
    rig.write_cfg(wd / "MC_Compose.cfg", constants={"MaxLen": 1, "NSample": 0, "Seed": 1, "Mode": "diag", "Full": False}, invariants=[inv])
    r = ctx.tlc(wd, "MC_Compose", workers=2, timeout=900, heap="2g")
    if r.invariant_violated:
        st = re.findall(r"(?ms)^c = (.*?)(?=^\s*$|\Z)", r.out)
        return {"violated": True, "last_state": " ".join((st[-1] if st else "").split())[:500], "states_to_counterexample": r.distinct}
    if r.ok:
        return {"violated": False, "states": r.distinct}
    raise Infra(f"MC_Compose diagnostic run failed: {wd}\n" + rig.tail(r.out, 30))


def export_cases(ctx, consts):
    wd = ctx.stage("gen", FAMS)
    rig.write_cfg(wd / "MC_Compose.cfg", constants=dict(consts, Mode="exportonly"))
    r = ctx.tlc(wd, "MC_Compose", workers=1, timeout=1500)
    if not r.ok or not (wd / "cases.ndjson").exists():
        raise Infra(f"MC_Compose (export) failed: {wd}/MC_Compose.out\n" + rig.tail(r.out, 30))
    return wd / "cases.ndjson"


def run(ctx, only_cases=None):
    from concurrent.futures import ThreadPoolExecutor
    import os
    os.environ.setdefault("JAVA_TOOL_OPTIONS", "-XX:ParallelGCThreads=4")
    pool = ThreadPoolExecutor(max_workers=6)
    jpool = ThreadPoolExecutor(max_workers=6)
    consts = bounds(ctx)
    fut = {}
    t = time.time()
    ctx.assumptions += [
        "TLC, the Json community module and the Go driver (concatenates source fragments, BuildTemplate, Run, logs bytes) are trusted",
        "the verdict is relational on real outputs; the reference/implementation-shaped outputs are compared with them as diagnostics only",
        "the Markdown converter is a fixture that brackets its input ([md: ... :md]); CommonMark conversion itself is C26/C29's business",
        "hand-expanded forms declare macros with the explicit result type of the file they came from",
    ]
    if only_cases is None:
        drv = pool.submit(ctx.build_driver, "c16")
        fut["theorems"] = pool.submit(mc_theorems, ctx, consts)
        fut["diag_render"] = pool.submit(mc_diag, ctx, "mc_diag_r", "AsWrittenRenderRelations")
        if not ctx.quick:
            fut["diag_other"] = pool.submit(mc_diag, ctx, "mc_diag_o", "AsWrittenOtherRelations")
            fut["coverage"] = pool.submit(mc_coverage, ctx)
        cases = export_cases(ctx, consts)
        ctx.cov["cases_exported"] = sum(1 for _ in open(cases))
        drv.result()
    else:
        cases = ctx.work / "replay_cases.ndjson"
        rig.write_ndjson(cases, only_cases)
    ctx.cov["export_wall_s"] = round(time.time() - t, 1)
    # replay into the real code
    obs = ctx.work / "obs.ndjson"
    ctx.drive("c16", cases, obs, timeout=900)
    allobs = rig.read_ndjson(obs)
    outcomes = {}
    for o in allobs:
        for v in o["variants"]:
            outcomes[v["outcome"]] = outcomes.get(v["outcome"], 0) + 1
    ctx.cov.update(evaluations=sum(len(o["variants"]) for o in allobs), traces_validated_against_impl=len(allobs),
                   variant_outcomes=outcomes,
                   distinct_nontrivial=len({json.dumps(o["d"], sort_keys=True) for o in allobs if nontrivial(o)}),
                   rule="every case of the space exported by TLC (exhaustive up to the bounds, plus NSample seeded longer bodies); one "
                        "record per case with all its variants built and run; non-trivial = non-empty body and every variant ran",
                   exhaustive=True, bounds=str(consts),
                   samples=[sample(o) for o in rig.pick_samples([o for o in allobs if nontrivial(o)] or allobs, 4, ctx.seed)])
    # sensitivity self-test (in the background): a corrupted observation must be rejected by the same Trace spec
    st = [corrupt(json.loads(json.dumps(o))) for o in rig.pick_samples([o for o in allobs if nontrivial(o)] or allobs, 3, ctx.seed + 7)]
    for k, o in enumerate(st):
        o["id"] = -1 - k            # judged together with the reproduction run below
    # judge
    drift_every = ctx.pick(3, 7)
    bads, drift = judge(ctx, "trace", allobs, drift_every, pool=jpool, shard=ctx.pick(6000, 3000))
    ctx.cov["judged_bad_first_pass"] = len(bads)
    if drift["calib_bad"]:
        raise Infra(f"the atom table of Compose.tla does not describe the real output of {drift['calib_bad']} calibration file(s)")
    ctx.cov["model_drift"] = {"records": drift["records"], "every": drift_every, "aswritten_model_mispredicts": drift["aswritten"],
                                                            "fixed_model_mispredicts": drift["fixed"], "reference_differs": drift["ref"],
                              "ref_undefined": drift["ref_undefined"], "records_with_a_variant_not_built": drift["not_built"],
                              "aswritten_model_mispredicts_ids": drift["aswritten_ids"][:20]}
    # reproduction guard: re-run the failing cases in a fresh process and judge again (together with the corrupted
    # observations of the self-test)
    confirmed = []
    reobs = []
    if bads:
        cc = ctx.work / "confirm_cases.ndjson"
        rig.write_ndjson(cc, [case_of(b["obs"]) for b in bads])
        co = ctx.work / "confirm_obs.ndjson"
        ctx.drive("c16", cc, co, timeout=900)
        reobs = rig.read_ndjson(co)
    if only_cases is not None:
        st = []
    if reobs or st:
        b2, _ = judge(ctx, "trace_confirm", reobs + st, 1000000, pool=jpool, shard=ctx.pick(6000, 3000))
        again = {(b["id"], json.dumps(b["sig"], sort_keys=True)) for b in b2}
        confirmed = [b for b in bads if (b["id"], json.dumps(b["sig"], sort_keys=True)) in again]
        ctx.cov["unreproduced"] = len(bads) - len(confirmed)
        for b in confirmed:
            b["what"] = sample(b["obs"])
        if st:
            rejected = len({b["id"] for b in b2 if b["id"] < 0})
            ctx.cov["sensitivity_selftest"] = {"corrupted": len(st), "rejected": rejected}
            if rejected < len(st):
                raise Infra(f"sensitivity self-test failed: {len(st)} corrupted observations, only {rejected} rejected")
    # model-level results
    for k, f in fut.items():
        res = f.result()
        if k == "theorems":
            ctx.cov.update(states=res["states"], transitions=res["transitions"], mc_wall_s=res["wall"],
                           mc_invariants=[t for t in THEOREMS if not (ctx.quick and t == "RenderFixLeavesOnlyTag")])
            if not res["holds"]:
                ctx.cov["model_theorem_violated"] = {"invariants": res["named"], "tlc_out": res.get("tlc_out")}
        elif k == "coverage":
            ctx.cov["actions_never_taken"] = res["actions_never_taken"]
            ctx.cov["model_coverage"] = res
        else:
            ctx.cov.setdefault("model_counterexample", {})[k] = res

    def rw(rdir, b):
        (rdir / "case.json").write_text(json.dumps(case_of(b["obs"])))
        (rdir / "obs.json").write_text(json.dumps(b["obs"]))
    return ctx.report(confirmed, replay_writer=rw, max_violations=12)


def replay(ctx, path):
    c = json.loads((path / "case.json").read_text())
    return run(ctx, only_cases=[c])

"""C01 - interpreted programs behave exactly like the same program compiled by gc (DESIGN 7/C01).

Four sub-parts, one check (the defer/panic/recover part, PanicFlow, lives under C12):
  intalu     IntALU.tla     integer arithmetic at every width / shifts / conversions / division faults
  initorder  InitOrder.tla  package-level initialisation order and initialisation cycles
  conv       StrConv.tla    int -> string, []byte / []rune <-> string
  minigo     MiniGo.tla     reference interpreter of a structured mini language, seeded programs
The reference is the TLA+ specification; gc is only the oracle guard on the violation path.
"""
import json, os, re, random, shutil, subprocess, concurrent.futures as cf
import rig
from rig import Infra

META = {
    "title": "Interpreted programs behave like gc",
    "engine": "GoSem",
    "technique": "TLA+ reference of Go semantics (IntALU over BigInt, InitOrder, StrConv over Utf8, MiniGo interpreter) + implementation-shaped models of the VM's per-kind truncation switches and of the checker's declaration sort, model-checked exhaustively by TLC; TLC exports the case space (and, for MiniGo, runs every seeded program to completion to obtain its output); a Go driver writes each case as Go source, builds and runs it with the real scriggo.Build/Run; a TLC Trace spec judges every observation against the reference; gc is consulted only for failing cases (oracle guard)",
    "level": "model_checking",
    "level_text": "TLC model-checks Impl(op,kind,x,y) against Ref for all 11 integer kinds x 17 binary + 2 unary operators + conversions x boundary operands x shift counts of every count kind (register and constant-operand forms); the declaration-sort algorithm of the checker against the Go spec's initialisation algorithm for all dependency graphs over 3 variables + 1 function (4 + 1 / sampled 4 + 2 thorough); the same cases are run through the real Build/Run in up to three source forms each and every printed value / panic message / build outcome is judged by the TLA+ reference. MiniGo programs (labelled loops, switch/fallthrough, goto, closures, arrays/structs/slices/maps, strings, run-time faults) are interpreted by TLC and their output compared with the real run.",
    "level_note": "Trusted: TLC, lib/BigInt.tla and lib/Utf8.tla, the concretiser (record -> Go source by string templates) and the print capture of the driver. gc is not on the passing path. Not covered: floating point and complex numbers, print formatting of floats, the // run corpus, goroutines (C14), defer/panic/recover bookkeeping (C12 PanicFlow), methods on Scriggo-defined types and generics (outside Scriggo's subset), register-allocation pressure beyond the generated programs.",
    "design_ref": "7/C01",
}
FAMS = ["gosem"]

# Genuine defects demonstrated on the unchanged tree (see the report of this family); the integrator
# fixes them in /repo or moves the entries into known-findings.json.
PROPOSED_KNOWN = [
    {"kind": "known", "signature": {"fam": "intalu", "op": "shl", "cause": "negative-count-no-panic"},
     "what": "x << y with a negative run-time count gives 0 silently instead of the run-time panic 'negative shift amount' (run.go OpShl: uint(count))"},
    {"kind": "known", "signature": {"fam": "intalu", "op": "shr", "cause": "negative-count-no-panic"},
     "what": "x >> y with a negative run-time count gives 0 / -1 silently instead of the run-time panic 'negative shift amount' (run.go OpShr: uint(count))"},
    {"kind": "known", "signature": {"fam": "initorder", "cause": "function-dependencies-not-followed"},
     "what": "package-level variables are sorted by their DIRECT dependencies only (checker_package.go sortDeclarations treats every function as resolved): var a = f(); var b = 1; func f() int { return b } initialises a before b"},
    {"kind": "known", "signature": {"fam": "initorder", "cause": "recursion-reported-as-cycle"},
     "what": "a recursive function (or mutually recursive functions) reachable from a package-level variable initialiser is rejected as 'typechecking loop' (checker_package.go checkDepsPath reports any repeated node on the path, not only the variable itself)"},
    {"kind": "known", "signature": {"fam": "intalu", "op": "not", "k": "uintptr", "cause": "hostpanic"},
     "what": "^x with x of type uintptr panics in the emitter (constant.go maxUnsigned has no entry for reflect.Uintptr): Build panics into the host"},
]

BASE = {"intalu": 0, "initorder": 1000000, "conv": 2000000, "minigo": 3000000}


# ------------------------------------------------------------------------------------------ parts
def part_intalu(ctx):
    wd = ctx.stage("mc_intalu", FAMS)
    rig.write_cfg(wd / "MC_IntALU.cfg", constants={"Tier": ctx.tier}, invariants=["ImplMeetsRef", "ConstFormSame"])
    r = ctx.tlc(wd, "MC_IntALU", workers=rig.NCPU, timeout=1500, extra=["-continue"], coverage=False)
    if "Model checking completed" not in r.out:
        raise Infra(f"MC_IntALU did not complete: {wd}/MC_IntALU.out\n" + rig.tail(r.out, 25))
    cases = rig.read_ndjson(wd / "cases.ndjson")
    info = {"states": r.distinct, "transitions": r.generated, "mc_wall_s": round(r.wall, 1), "cases": len(cases),
            "mc_invariants": ["ImplMeetsRef", "ConstFormSame"]}
    # model-level counterexamples (diagnostic): classify the violating states printed by -continue
    viol = {}
    for m in re.finditer(r"Invariant (\w+) is violated\.(.*?)(?=\nError: Invariant|\nModel checking completed|\Z)", r.out, re.S):
        st = m.group(2).split("State 2:")[-1]
        op = re.search(r'op \|-> "(\w+)"', st)
        ys = re.search(r"y \|-> \[s \|-> (-?\d)", st)
        key = m.group(1) + ":" + (op.group(1) if op else "?") + (":negative-count" if ys and ys.group(1) == "-1" and op and op.group(1) in ("shl", "shr") else "")
        viol[key] = viol.get(key, 0) + 1
    if viol:
        info["model_counterexample"] = {"violating_states_by_class": viol, "tlc_out": str(wd / "MC_IntALU.out"),
                                        "replayed": "every violating state is a case of the exported space and is run on the real code"}
    return cases, info


def mc_violations(out):
    """names of the invariants violated in a -continue run, with counts"""
    v = {}
    for name in re.findall(r"Invariant (\w+) is violated", out):
        v[name] = v.get(name, 0) + 1
    return v


def part_initorder(ctx):
    runs = ctx.pick([(3, 1, 4)], [(3, 1, 16), (4, 2, 4)])
    cases, info = [], {"states": 0, "transitions": 0, "mc_wall_s": 0, "bounds": [], "mc_invariants": ["ImplMeetsRef", "RefTotal"]}
    viol = {}
    for k, (nv, nf, me) in enumerate(runs):
        wd = ctx.stage(f"mc_initorder_{k}", FAMS)
        rig.write_cfg(wd / "MC_InitOrder.cfg", constants={"NV": nv, "NF": nf, "MaxEdges": me}, invariants=["ImplMeetsRef", "RefTotal"])
        r = ctx.tlc(wd, "MC_InitOrder", workers=rig.NCPU, timeout=1500, extra=["-continue"])
        if "Model checking completed" not in r.out:
            raise Infra(f"MC_InitOrder did not complete: {wd}/MC_InitOrder.out\n" + rig.tail(r.out, 25))
        cs = rig.read_ndjson(wd / "cases.ndjson")
        for c in cs:
            c["id"] += k * 100000
        cases += cs
        info["states"] += r.distinct
        info["transitions"] += r.generated
        info["mc_wall_s"] += round(r.wall, 1)
        info["bounds"].append({"variables": nv, "functions": nf, "max_edges": me, "graphs": len(cs)})
        for name, n in mc_violations(r.out).items():
            viol[name] = viol.get(name, 0) + n
    info["cases"] = len(cases)
    if viol:
        info["model_counterexample"] = {"violating_states_by_invariant": viol,
                                        "replayed": "every graph of the space is run on the real code"}
    return cases, info


def part_conv(ctx):
    wd = ctx.stage("mc_conv", FAMS)
    invs = ["ImplMeetsRef", "EncDec", "DecEnc", "RangeIdx"]
    rig.write_cfg(wd / "MC_StrConv.cfg", constants={"MaxPieces": ctx.pick(2, 3)}, invariants=invs)
    r = ctx.tlc(wd, "MC_StrConv", workers=4, timeout=1500)
    info = {"states": r.distinct, "transitions": r.generated, "mc_wall_s": round(r.wall, 1), "mc_invariants": invs}
    if not r.ok:
        if r.invariant_violated:
            info["model_counterexample"] = {"invariants": r.invariant_violated, "tlc_out": str(wd / "MC_StrConv.out")}
        else:
            raise Infra(f"MC_StrConv failed: {wd}/MC_StrConv.out\n" + rig.tail(r.out, 25))
    cases = rig.read_ndjson(wd / "cases.ndjson")
    info["cases"] = len(cases)
    return cases, info


PARTS = [("intalu", part_intalu), ("initorder", part_initorder), ("conv", part_conv)]


# ------------------------------------------------------------------------------------------ helpers
def case_from_obs(o):
    if o["fam"] == "intalu":
        return {k: o[k] for k in ("id", "fam", "op", "k", "k2", "x", "y", "forms")}
    if o["fam"] == "initorder":
        return {k: o[k] for k in ("id", "fam", "nv", "nf", "deps")}
    if o["fam"] == "conv":
        return {k: o[k] for k in ("id", "fam", "op", "k", "v", "a")}
    raise Infra("unknown family in observation: %r" % o.get("fam"))


def bigdec(b):
    if not b["l"]:
        return "0"
    s = str(b["l"][-1]) + "".join("%04d" % v for v in reversed(b["l"][:-1]))
    return ("-" if b["s"] < 0 else "") + s


def sample(o):
    if o["fam"] == "intalu":
        return {"fam": "intalu", "expr": f'{o["k"]}({bigdec(o["x"])}) {o["op"]} {o["k2"]}({bigdec(o["y"])})', "form": o["form"],
                "observed": o["t"], "value": bigdec(o["v"]), "widened": bigdec(o["w"]), "msg": o["msg"]}
    if o["fam"] == "initorder":
        return {"fam": "initorder", "variables": o["nv"], "functions": o["nf"], "deps": o["deps"], "outcome": o["outcome"],
                "printed_order": o["order"], "msg": o["msg"][:200]}
    return {k: v for k, v in o.items() if k not in ("src", "raw")}


def nontrivial(o):
    if o["fam"] == "intalu":   # the operation overflowed / panicked / shifted out: the result is not the plain mathematical one
        return o["t"] == "panic" or o["op"] in ("div", "rem", "shl", "shr", "conv", "not") or len(o["v"]["l"]) >= 2
    if o["fam"] == "initorder":   # at least one dependency edge
        return any(o["deps"])
    if o["fam"] == "conv":        # something other than ASCII is involved
        return o["v"] > 127 or o["v"] < 0 or any(x > 127 or x < 0 for x in o["a"])
    return True


def corrupt(o):
    o = json.loads(json.dumps(o))
    if o["fam"] == "intalu":
        if o["t"] == "panic":
            o["t"], o["msg"] = "int", ""
        elif o["t"] == "bool":
            o["v"] = o["w"] = ({"s": 0, "l": []} if o["v"]["s"] else {"s": 1, "l": [1]})
        else:
            v = {"s": 1, "l": [1]} if not o["v"]["l"] else {"s": o["v"]["s"], "l": [(o["v"]["l"][0] + 1) % 10000 or 1] + o["v"]["l"][1:]}
            o["v"] = o["w"] = v
        return o
    if o["fam"] == "conv":
        o["out"] = (o["out"][:-1] + [o["out"][-1] ^ 1]) if o["out"] else [65]
        o["outcome"] = "ok"
        return o
    if o["fam"] == "initorder":
        if o["outcome"] == "ok" and o["order"]:
            o["order"][0] = o["order"][0] % o["nv"] + 1 if o["nv"] > 1 else 7
        else:
            o["outcome"], o["order"] = "ok", list(range(1, o["nv"] + 1)) + [0]
        return o
    return None


def judge(ctx, step, recs, shards=1):
    """Judge records with Trace_GoSem in `shards` parallel TLC runs; returns bad records (with 'obs')."""
    if not recs:
        return []
    n = max(1, min(shards, (len(recs) + 1999) // 2000))
    size = (len(recs) + n - 1) // n
    parts = [recs[i:i + size] for i in range(0, len(recs), size)]

    def one(i):
        p = ctx.work / f"{step}_obs_{i}.ndjson"
        rig.write_ndjson(p, parts[i])
        b, _ = rig.trace_judge(ctx, f"{step}_{i}", FAMS, "Trace_GoSem", p, timeout=1500)
        for x in b:
            x["obs"] = parts[i][x["k"] - 1]
        return b
    with cf.ThreadPoolExecutor(max_workers=n) as ex:
        out = []
        for b in ex.map(one, range(len(parts))):
            out += b
    return out


def gc_raw(ctx, src, n):
    """Oracle guard: build and run src with gc; returns the normalised output text."""
    d = ctx.work / "gc" / str(n)
    d.mkdir(parents=True, exist_ok=True)
    (d / "main.go").write_text(src)
    (d / "go.mod").write_text("module c01guard\n\ngo 1.25.0\n")
    try:
        p = subprocess.run(["go", "run", "main.go"], cwd=d, env=rig.goenv(), stdout=subprocess.PIPE, stderr=subprocess.STDOUT,
                           text=True, timeout=300)
    except subprocess.TimeoutExpired:
        return None
    return normalise_gc(p.stdout, p.returncode)


def normalise_gc(text, rc):
    out = []
    lines = text.splitlines()
    if rc != 0 and not any(l.startswith("panic: ") or l.startswith("fatal error: ") for l in lines):
        return "builderror\n"       # compile error
    for l in lines:
        if l.startswith("panic: "):
            out.append(re.sub(r" \[recovered\]$", "", l))
            break
        if l.startswith("fatal error: "):
            out.append(l)
            break
        if l.startswith("exit status"):
            continue
        out.append(l)
    return "\n".join(out) + "\n"


def normalise_scriggo(raw):
    m = re.search(r"^builderror: ", raw, re.M)
    if m:
        return "builderror\n"
    return raw


# ------------------------------------------------------------------------------------------ run
def run(ctx, replay_cases=None):
    infos = {}
    if replay_cases is None:
        cases = []
        with cf.ThreadPoolExecutor(max_workers=len(PARTS)) as ex:
            futs = {name: ex.submit(fn, ctx) for name, fn in PARTS}
            for name, _ in PARTS:
                cs, info = futs[name].result()
                for c in cs:
                    c["id"] += BASE[name]
                cases += cs
                infos[name] = info
    else:
        cases = replay_cases
    rig.write_ndjson(ctx.work / "cases.ndjson", cases)
    obs_p = ctx.work / "obs.ndjson"
    ctx.drive("c01", ctx.work / "cases.ndjson", obs_p, timeout=1500)
    allobs = rig.read_ndjson(obs_p)
    by_fam = {}
    for o in allobs:
        by_fam.setdefault(o["fam"], []).append(o)
    for name in by_fam:
        infos.setdefault(name, {})["records_judged"] = len(by_fam[name])
    ctx.cov.update(
        states=sum(i.get("states", 0) for i in infos.values()),
        transitions=sum(i.get("transitions", 0) for i in infos.values()),
        parts=infos,
        evaluations=len(allobs), traces_validated_against_impl=len(allobs),
        distinct_nontrivial=len({json.dumps(case_from_obs(o), sort_keys=True) + o.get("form", "") for o in allobs if nontrivial(o)}),
        rule="conv: all conversions of the 12-value rune set / strings of <= MaxPieces well- and ill-formed UTF-8 pieces; non-trivial = a non-ASCII value is involved. initorder: every dependency graph of the bounded space, one program each; non-trivial = at least one edge. intalu: TLC-exported space (all kinds x operators x boundary operands x shift counts), each case in the source forms var / literal operand / op-assignment / if-condition; non-trivial = result wrapped, shifted out, divided, converted or panicked. One record per (case, form).",
        exhaustive=True,
        samples=[sample(o) for fam in sorted(by_fam) for o in rig.pick_samples(by_fam[fam], 2, ctx.seed)],
    )
    # judge
    bads = judge(ctx, "trace", allobs, shards=ctx.pick(6, 12))
    ctx.cov["judged_bad_first_pass"] = len(bads)
    # reproduction guard: each failing case alone in a fresh process, source kept
    confirmed = []
    if bads:
        seen, cc = set(), []
        for b in bads:
            if b["id"] not in seen:
                seen.add(b["id"])
                cc.append(case_from_obs(b["obs"]))
        # at most 8 cases per signature are re-run (hundreds of cases share one root cause)
        per_sig, keep_ids = {}, set()
        for b in bads:
            k = json.dumps(b["sig"], sort_keys=True)
            if per_sig.setdefault(k, 0) < 8:
                per_sig[k] += 1
                keep_ids.add(b["id"])
        cc = [c for c in cc if c["id"] in keep_ids]
        rig.write_ndjson(ctx.work / "confirm_cases.ndjson", cc)
        ctx.drive("c01", ctx.work / "confirm_cases.ndjson", ctx.work / "confirm_obs.ndjson", args=["-chunk", "1", "-keepsrc"], timeout=1500)
        cobs = rig.read_ndjson(ctx.work / "confirm_obs.ndjson")
        slim = [{k: v for k, v in o.items() if k not in ("src", "raw")} for o in cobs]
        b2 = judge(ctx, "trace_confirm", slim, shards=2)
        src_of = {(o["id"], o.get("form", "")): o for o in cobs}
        keys2 = {json.dumps(b["sig"], sort_keys=True) for b in b2}
        confirmed = [b for b in bads if json.dumps(b["sig"], sort_keys=True) in keys2]
        ctx.cov["unreproduced"] = len({json.dumps(b["sig"], sort_keys=True) for b in bads} - keys2)
        for b in confirmed:
            b["what"] = sample(b["obs"])
        # oracle guard (violation path only): gc on the failing program; if gc agrees with Scriggo the spec is wrong
        known, unknown = ctx.classify(confirmed)
        disputed, checked, n = set(), {}, 0
        for b in unknown:
            sk = json.dumps(b["sig"], sort_keys=True)
            if sk in checked:
                continue
            o = src_of.get((b["id"], b["obs"].get("form", "")))
            if o is None or "src" not in o or n >= 12:
                continue
            n += 1
            g = gc_raw(ctx, o["src"], n)
            checked[sk] = g is not None and g == normalise_scriggo(o["raw"])
            if checked[sk]:
                disputed.add(sk)
            else:
                b["what"]["gc"] = (g or "gc timed out")[:300]
                b["what"]["scriggo"] = o["raw"][:300]
                b["src"] = o["src"]
        if disputed:
            ctx.cov["oracle_disputed"] = sorted(disputed)
            confirmed = [b for b in confirmed if json.dumps(b["sig"], sort_keys=True) not in disputed]
        ctx.cov["oracle_guard_runs"] = n
    # sensitivity self-test: corrupted observations must be rejected by the same Trace spec
    st = []
    for fam in sorted(by_fam):
        badkeys = {(b["id"], b["obs"].get("form", "")) for b in bads}
        good = [o for o in by_fam[fam] if nontrivial(o) and (o["id"], o.get("form", "")) not in badkeys] or by_fam[fam]
        for o in rig.pick_samples(good, 3, ctx.seed + 7):
            c = corrupt(o)
            if c is not None:
                st.append(c)
    if st:
        b3 = judge(ctx, "trace_selftest", st, shards=1)
        ctx.cov["sensitivity_selftest"] = {"corrupted": len(st), "rejected": len(b3)}
        if len(b3) < len(st):
            raise Infra(f"sensitivity self-test failed: {len(st)} corrupted observations, only {len(b3)} rejected")

    def rw(rdir, b):
        (rdir / "case.json").write_text(json.dumps(case_from_obs(b["obs"])))
        (rdir / "obs.json").write_text(json.dumps(b["obs"]))
        if b.get("src"):
            (rdir / "source").mkdir(exist_ok=True)
            (rdir / "source" / "main.go").write_text(b["src"])
    return ctx.report(confirmed, replay_writer=rw)


def replay(ctx, path):
    c = json.loads((path / "case.json").read_text())
    return run(ctx, replay_cases=[c])

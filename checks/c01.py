"""C01 - interpreted programs behave exactly like the same program compiled by gc (DESIGN 7/C01).

Ten sub-parts, one check (the report format of Stop / Fatal / PanicError chains, PanicFlow, lives under C12):
  intalu     IntALU.tla     integer arithmetic at every width / shifts / conversions / division faults
  initorder  InitOrder.tla  package-level initialisation order and initialisation cycles
  conv       StrConv.tla    int -> string, []byte / []rune <-> string
  minigo     MiniGo.tla     reference interpreter of a structured mini language, seeded programs
  deferflow  MiniGoFlow.tla every defer / panic / recover program (a tree of functions) up to a number of nodes,
                            enumerated by TLC and run by the same reference interpreter
  nest       MiniGoNest.tla every unlabelled break / continue at every position of the bodies of up to 2 (thorough 3)
                            nested statements out of for (with / without a condition, bare) / range over a string / range
                            over a slice / switch / select, enumerated by TLC and run by the same reference interpreter
  misc       GoMisc.tla     variadic calls, select with one ready case, uses of one constant at several types, range over a
                            map with one entry (int / string keys and values) between other live variables
  pkginit    PkgInit.tla    programs of several packages: every import graph over p, q, r, main, the order in which the
                            packages, their variables and their init functions are initialised; import cycles
  godata     GoData.tla     value semantics of composite data: a store model of arrays, slices (backing array, offset, len, cap),
                            maps, structs, pointers and closures; straight-line programs in which every operation of an
                            alphabet runs directly after every operation, the whole observable state printed after each
  goiface    GoIface.tla    dynamic types of values: interface values as pairs (dynamic type, value), assignment to interface{},
                            typed nil, ==, type assertions, type switches, conversions named <-> underlying type, default types of
                            untyped constants, expression switches with typed / untyped cases; straight-line programs as godata
The reference is the TLA+ specification; gc is only the oracle guard on the violation path.
"""
import json, os, re, random, shutil, subprocess, concurrent.futures as cf
import rig
from rig import Infra

META = {
    "title": "Interpreted programs behave like gc",
    "engine": "GoSem",
    "technique": "TLA+ reference of Go semantics (IntALU over BigInt, InitOrder, StrConv over Utf8, the MiniGo interpreter incl. call frames with defer / panic / recover, GoMisc: variadic calls, select, constant uses, range over a one-entry map, PkgInit: initialisation of a program of several packages, GoData: a store model of arrays / slices / maps / structs / pointers / closures with an alphabet of operations on them, GoIface: values as pairs (dynamic type, value) with an alphabet of assignments to interface{} variables, comparisons, type assertions, type switches, conversions and expression switches) + implementation-shaped models of the VM's per-kind truncation switches, of the checker's declaration sort (sortDeclarations / funcVarsResolved / checkDepsPath), of the emitter's list of init functions (emitPackage / emitImport) and of the import stack of ParseProgram, model-checked exhaustively by TLC; TLC exports the case spaces - for MiniGo it runs every program to completion to obtain its output, it enumerates every defer/panic/recover program (tree of functions) up to a number of nodes and every unlabelled break / continue at every position of nested for / range / switch / select statements up to a nesting depth, and it builds the straight-line programs over composite data and over interface values in which every operation of the GoData / GoIface alphabet follows every operation; a Go driver writes each case as Go source (in up to four source forms; a program of several packages as go.mod + one directory per package), builds and runs it with the real scriggo.Build/Run; a TLC Trace spec judges every observation against the reference; gc is consulted only for failing cases (oracle guard)",
    "level": "model_checking",
    "level_text": "TLC model-checks Impl(op,kind,x,y) against Ref for all 11 integer kinds x 17 binary + 2 unary operators + conversions x boundary operands x shift counts of every count kind (register and constant-operand forms); the declaration-sort algorithm of the checker, under both textual orders of the dependencies, against the Go spec's initialisation algorithm for all dependency graphs over 3 variables + 1 function with at most 3 edges and all 'through functions' graphs (no direct variable -> variable edge; chains, recursion and mutual recursion of functions) over 3 variables + 2 functions with at most 5 edges (thorough: all 65 536 graphs over 3 + 1, all graphs over 4 + 2 with at most 3 edges, through-functions graphs with at most 6 edges); the same cases are run through the real Build/Run in up to four source forms each and every printed value / panic message / build outcome is judged by the TLA+ reference. MiniGo programs (labelled break / continue across for, range and switch, switch/fallthrough, goto, closures, arrays/structs/slices/maps, strings, run-time faults, operand evaluation order of println) are interpreted by TLC and their output compared with the real run; every defer/panic/recover program of at most 5 (thorough 6) nodes - nested calls, deferred calls, panics raised while panicking, recover at every position - is enumerated and interpreted by TLC and run as top-level functions and as function literals; every nest of 1..2 (thorough 1..3) statements out of three-clause for / for without a condition (for v := 0; ; v++ with a guarded break: continue must run the post statement) / the bare for { } / range over a string / range over a slice / switch / select { default } (nests deeper than the depth up to which all kinds are combined: one of the two range kinds per level, alternating with the seed; nests of depth 3 also one of the three kinds of for per level, in rotation) with one unlabelled break or continue (continue where a loop is around it), bare or inside an if on the loop variables, at every position of every body (before the first print, after it, after the nested statement, at the end), every body printing the loop variables before and after the nested statement and the program printing a line after the nest, is enumerated and interpreted by TLC (the Go specification's 'innermost for, switch, or select statement' / 'innermost enclosing for loop') and run; every variadic call shape (0..2 fixed, 0..3 variadic arguments or a nil / empty / non-empty slice spread), every select over 2..3 buffered channels with exactly one (or no) ready case, every sequence of up to 3 (thorough 4) uses of one bool / int constant at different types, and every range statement over a map literal with one entry (int / string keys and values; k / k, v / _, v) between 0..2 other live string variables and 0..1 live int variables is run and judged. Programs of several packages: every acyclic import graph over the packages p, q, r and main (370 graphs, every order of the import declarations: chains, fans, diamonds, a package imported directly and through another) with 2 (thorough 24) drawn decorations each - 0..2 variables per package whose initialisers print and read a variable of an imported package or of their own package, 0..2 init functions per package that print and write a variable of an imported package, main prints every final value - in two source forms; TLC model-checks the emitter's construction of the list of init functions against the Go specification's order (imported packages first, every package once, variables before init functions, main last; independent packages in the order of their import paths, the Go 1.21 rule, which the construction does not follow: model counterexamples, and the only output the judge accepts is the one of that order); every import graph with a cycle (1290; the quick tier runs a third of them, chosen by the seed) must be rejected by Build. Composite data (GoData): a fixed set of variables - an int, two [3]int arrays, three []int slices, two map[int]int, two structs with an array field, a *int, a *struct, a func() - and an alphabet of 103 operations on them: array assignment and parameter passing (copies), writes through a pointer to an array, slice expressions s[i:j] and s[i:j:k] on slices and on an array variable, element writes, append in place / reallocating / through a 3-index slice / of a slice to itself / into another variable, copy with overlapping operands, nil and empty slices, map assignment (aliasing), insertion, delete, reads and writes of a nil map, struct assignment and field updates through a copy and through a pointer, pointers to a variable, an array element, a slice element and a struct field, assignment operations through the pointer (*pi += 5, *pi++, *pi -= 3, *pi *= 2), function literals that capture the pointer variable itself (reading it, assigning to it, dereferencing it) so that every *pi of the enclosing function is an indirection of a captured variable, closures that refer to variables and closures over copied parameters, range over an array (a copy), over a pointer to an array, over an array field and over a slice with writes to the elements and to the slice variable inside the body; for every ordered pair (x, y) of operations (quick: a third of the pairs, chosen by the seed) the program `drawn prefix; x; y` (quick: 1 prefix of 1 operation per pair, thorough: 6 prefixes of 2 operations) is run by the TLA+ store model and by the real Build/Run, the whole observable state (every variable, len, nil-ness, cap where the language fixes it, the pointees) being printed before the first and after every operation; the judge (TLC) runs the reference again on the logged operations and compares every line and the class of the run-time panic. The reference never observes what the language leaves open: the capacity after a growing append is a lower bound only, programs whose output would depend on it are not generated (counted), maps are only read by key. Dynamic types (GoIface): the variables e, g of type interface{} and typed variables of the types int, string, bool, I (type I int), S (type S string), *int, []int, T (struct{ A int }); an alphabet of 141 operations: assignment of every typed variable, of nil, of composite literals and of the other interface variable to an interface variable (a nil *int / a nil []int in an interface is not the nil interface), untyped constants and constant expressions (1 is int, 1.0 float64, 'a' int32, `s` string, true bool, 'a' + 1 int32, 2 * 1.5 float64, 1 << 3 int, named and typed constants), conversions between the named types and their underlying types in both directions and to interface{}, == and != of two interface values, of an interface value and nil / a constant / a typed operand (equal iff identical dynamic types and equal values; two []int values: the run-time panic 'comparing uncomparable type'), type assertions x.(T) for every type and interface{} (a failure panics: 'interface conversion') and v, ok = x.(T) (zero value and false on failure, blank target), type switches with single types, lists of types (the bound variable keeps the interface type and is assigned to an interface variable), case nil alone and in a list, case interface{}, the default clause first / in the middle / last / absent, a bound variable used at its clause's type (conversion, arithmetic, field selection), five operations in which e or g is assigned / compared / asserted inside a function literal or through a pointer to the variable, expression switches on an interface value with untyped constant, typed constant, variable and interface-valued case expressions (tried in source order, the comparison can panic) and on I / int values with mixed cases; for every ordered pair (x, y) of operations (quick: a third of the pairs, chosen by the seed) the program `drawn prefix; x; y` (quick: 1 prefix of 1 operation per pair, thorough: 2 prefixes of 2 operations) is run by the TLA+ reference and by the real Build/Run; before the first and after every operation a fixed epilogue prints e and g through a type switch with one clause per dynamic type (no fmt) and then the typed variables; the judge (TLC) runs the reference again on the logged operations and compares every line and the class of the run-time panic.",
    "level_note": "Trusted: TLC, lib/BigInt.tla and lib/Utf8.tla, the concretiser (record -> Go source by string templates) and the print capture of the driver. gc is not on the passing path. The final outcome judged for a panic is the message of the newest panic (PanicError.String); the chain format and Stop/Fatal are C12's. Not covered: floating point and complex numbers, print formatting of floats, the // run corpus, goroutines and unbuffered channels (C14), methods on Scriggo-defined types and generics (outside Scriggo's subset), runtime.Goexit, panic values other than int and run-time errors, select statements with communication clauses inside loops (the select of the nests has only a default clause), type switches and range over maps / channels / integers / functions as the statements of a nest, goto out of a nest, named results modified by deferred closures (where the Go specification's wording on recover() leaves room - a deferred call run by an ordinary return while an outer panic is in progress - the reference follows gc: nil; the reference was audited against gc on 572 programs of the defer/panic/recover space), register-allocation pressure beyond the generated programs; for programs of several packages: packages of more than one file, more than 4 packages, blank / dot / renamed imports, native packages; for composite data: element types other than int, arrays of arrays / of structs, slices of slices, maps with composite values, struct fields of slice / map / pointer type, embedded structs, methods, strings, channels, interface values holding composite data, map iteration, programs longer than 4 operations, package-level variables (the GoData reference was compared with gc on every program of a quick-tier run, 2880 programs, during development: no difference); for dynamic types: interface types with methods, error values, fmt's %T / %v, reflection, interface variables at package level, fields / elements of interface type, maps / channels / functions / arrays as dynamic types, non-integral floating-point values, struct types with several fields or interface fields, comparison of structs / arrays that contain interface values, the exact wording of the panic messages after their class prefix - diagnostic: for a failed assertion to a type declared in the program Scriggo's message names the dynamic type as 'nil' or 'types.emptyInterfaceProxy' and omits the package qualifier (the GoIface reference was compared with gc on every program of a quick-tier run over the first 132 operations of the alphabet, 5808 programs, during development: no difference in the printed lines and in the class of the panic; the 1233 programs of that run with one of the 9 operations added later were compared with gc as well: no difference).",
    "design_ref": "7/C01",
}
FAMS = ["gosem"]

# Genuine defects demonstrated on the unchanged tree (see the report of this family); the integrator
# fixes them in /repo or moves the entries into known-findings.json.
_I83 = " (upstream issue open2b/scriggo#83: labelled break and continue are not implemented; emitter_statements.go case *ast.Break / *ast.Continue)"
_GD_PA = " (emitAssignmentNode, emitter_statements.go case *ast.Index: the checker rewrites pa[i] into (*pa)[i], the emitter evaluates *pa - a copy of the array - and stores the element into the copy; minimal: a := [3]int{1, 2, 3}; p := &a; p[1] = 9; println(a[1]) prints 2, gc 9)"
_GD_RA = " (emitForRange, emitter_statements.go: the register of the array variable / field itself is given to OpRange, which reads the elements while the body runs; Go: the range expression is evaluated once, an array operand is copied when the second iteration variable is present; minimal: a := [3]int{1, 2, 3}; n := 0; for k, v := range a { if k == 0 { a[2] = 96 }; n += v }; println(n) prints 99, gc 6)"
_GD_RS = " (run.go OpMove allocates new storage for an array / struct value and puts it into the variable's register; only a variable whose address is taken as &v or that a closure captures is 'indirect' and written in place - checker_expressions.go marks nothing for &v[i], &v.f, v[:]; minimal: a := [3]int{1, 2, 3}; t := a[:]; a = [3]int{4, 5, 6}; println(t[0]) prints 1, gc 4)"
_GD_WHAT = {
    "write-through-array-pointer-lost": "an assignment to an element of an array through a pointer to the array (pa[i] = v, (*pa)[i] = v, pa[i] += v, pa[i]++) is lost: the array keeps its old element" + _GD_PA,
    "range-over-array-not-a-copy": "for k, v := range a over an array variable or an array field of a struct variable does not iterate over a copy: an assignment to a later element in the body is seen by the iteration value" + _GD_RA,
    "assignment-replaces-storage": "after a slice of an array variable (a[:]) or a pointer to an element / a field of an array or struct variable (&a[i], &q.f, &q.a[i]) was taken, an assignment to the whole variable (a = b, a = [3]int{...}, q = p, q = *pt) does not write into the variable's storage but replaces it: the slice / the pointer keeps seeing the old contents, and later writes through them do not reach the variable" + _GD_RS,
}
_GD_ORDER = ["assignment-replaces-storage", "write-through-array-pointer-lost", "range-over-array-not-a-copy"]
# one entry per defect, and one per combination of them that a single program can run into (the judge names the
# deviations of the reference store model under which the observed output is exactly reproduced: GdLike, Trace_GoSem.tla)
# (the three GoData defects were fixed in /repo and their entries integrated into known-findings.json)
_GI_IND = ("a variable of type interface{} that a function literal refers to or whose address is taken (an 'indirect' variable) reads as a value "
           "of interface kind instead of its dynamic value: x == nil is false for the nil interface, x == 1 is false for 1, type assertions "
           "fail with 'interface conversion: interface {} is interface {}, not int', type switches take the default clause, and the value "
           "passed on to a function parameter keeps the wrapper (internal/runtime/registers.go generalIndirect returns v.Elem() of the "
           "*interface{} register, a reflect.Value of kind Interface, where every other general register holds the dynamic value - the "
           "invalid Value for nil; minimal: var e interface{}; pe := &e; _ = pe; println(e == nil) prints false, gc true; "
           "var g interface{} = 1; func() { _ = g }(); _, ok := g.(int); println(ok) prints false, gc true; fix: return elem.Elem() "
           "for reflect.Interface in generalIndirect, diff at /tmp/c01_goiface_indirect_fix.diff - with it all programs of the space pass)")
PROPOSED_KNOWN = []   # integrated into known-findings.json

BASE = {"intalu": 0, "initorder": 1000000, "conv": 2000000, "minigo": 3000000, "deferflow": 4000000, "misc": 5000000,
        "pkginit": 6000000, "nest": 7000000, "godata": 8000000, "goiface": 9000000}
NO_ALT = {"out": [], "outcome": "none", "msg": []}
NO_NEST = {"jump": "", "at": "", "encl": ""}


# ------------------------------------------------------------------------------------------ parts
def part_intalu(ctx):
    wd = ctx.stage("mc_intalu", FAMS)
    rig.write_cfg(wd / "MC_IntALU.cfg", constants={"Tier": ctx.tier}, invariants=["ImplMeetsRef", "ConstFormSame"])
    r = ctx.tlc(wd, "MC_IntALU", workers=rig.NCPU, timeout=1500, extra=["-continue"])
    if "Model checking completed" not in r.out:
        raise Infra(f"MC_IntALU did not complete: {wd}/MC_IntALU.out\n" + rig.tail(r.out, 25))
    cases = rig.read_ndjson(wd / "cases.ndjson")
    info = {"states": r.distinct, "transitions": r.generated, "mc_wall_s": round(r.wall, 1), "cases": len(cases),
            "mc_invariants": ["ImplMeetsRef", "ConstFormSame"]}
    # (no -coverage run: TLC's coverage bookkeeping over the recursive BigInt operators exhausts the heap; every
    #  MC_* module of this family has a single Next action, which is taken: states > roots)
    # model-level counterexamples (diagnostic): classify the violating states printed by -continue
    viol = {}
    for m in re.finditer(r"Invariant (\w+) is violated\.(.*?)(?=\nError: Invariant|\nModel checking completed|\Z)", r.out, re.S):
        st = m.group(2).split("State 2:")[-1]
        op = re.search(r'op \|-> "(\w+)"', st)
        ys = re.search(r"y \|-> \[s \|-> (-?\d)", st)
        key = m.group(1) + ":" + (op.group(1) if op else "?") + (":negative-count" if ys and ys.group(1) == "-1" and op and op.group(1) in ("shl", "shr") else "")
        viol[key] = viol.get(key, 0) + 1
    if viol:
        info["model_counterexample"] = {"violating_states_by_class": viol, "tlc_out": str(wd / "MC_IntALU.out"),
                                        "replayed": "every violating state is a case of the exported space and is run on the real code"}
    return cases, info


def mc_violations(out):
    """names of the invariants violated in a -continue run, with counts"""
    v = {}
    for name in re.findall(r"Invariant (\w+) is violated", out):
        v[name] = v.get(name, 0) + 1
    return v


def part_initorder(ctx):
    # (variables, functions, max edges, thru, both): thru = 1 is the space of graphs without direct variable -> variable edges
    # (variables depend on each other only through the functions' call graph: chains, recursion, mutual recursion)
    # both: the driver writes each graph with its dependencies mentioned in ascending and in descending order
    runs = ctx.pick([(3, 1, 3, 0, 1), (3, 2, 5, 1, 1)], [(3, 1, 16, 0, 0), (4, 2, 3, 0, 1), (3, 2, 6, 1, 1)])
    cases, info = [], {"states": 0, "transitions": 0, "mc_wall_s": 0, "bounds": [], "mc_invariants": ["ImplMeetsRef", "RefTotal"]}
    viol = {}

    def one(k):
        nv, nf, me, thru, both = runs[k]
        wd = ctx.stage(f"mc_initorder_{k}", FAMS)
        rig.write_cfg(wd / "MC_InitOrder.cfg", constants={"NV": nv, "NF": nf, "MaxEdges": me, "Thru": thru, "BothOrders": both},
                      invariants=["ImplMeetsRef", "RefTotal"])
        r = ctx.tlc(wd, "MC_InitOrder", workers=max(2, rig.NCPU // 2), timeout=1500, extra=["-continue"])
        if "Model checking completed" not in r.out:
            raise Infra(f"MC_InitOrder did not complete: {wd}/MC_InitOrder.out\n" + rig.tail(r.out, 25))
        return r, rig.read_ndjson(wd / "cases.ndjson")
    with cf.ThreadPoolExecutor(max_workers=len(runs)) as ex:
        results = list(ex.map(one, range(len(runs))))
    for k, (r, cs) in enumerate(results):
        nv, nf, me, thru, both = runs[k]
        for c in cs:
            c["id"] += k * 100000
        cases += cs
        info["states"] += r.distinct
        info["transitions"] += r.generated
        info["mc_wall_s"] = round(max(info["mc_wall_s"], r.wall), 1)
        info["bounds"].append({"variables": nv, "functions": nf, "max_edges": me, "graphs": len(cs),
                               "edges": "any" if not thru else "no direct variable -> variable edge (dependencies through functions)",
                               "programs": sum(len(c["orders"]) for c in cs)})
        for name, n in mc_violations(r.out).items():
            viol[name] = viol.get(name, 0) + n
    info["cases"] = len(cases)
    if viol:
        info["model_counterexample"] = {"violating_states_by_invariant": viol,
                                        "replayed": "every graph of the space is run on the real code"}
    return cases, info


def part_conv(ctx):
    wd = ctx.stage("mc_conv", FAMS)
    invs = ["ImplMeetsRef", "EncDec", "DecEnc", "RangeIdx"]
    rig.write_cfg(wd / "MC_StrConv.cfg", constants={"MaxPieces": ctx.pick(2, 3)}, invariants=invs)
    r = ctx.tlc(wd, "MC_StrConv", workers=4, timeout=1500)
    info = {"states": r.distinct, "transitions": r.generated, "mc_wall_s": round(r.wall, 1), "mc_invariants": invs}
    if not r.ok:
        if r.invariant_violated:
            info["model_counterexample"] = {"invariants": r.invariant_violated, "tlc_out": str(wd / "MC_StrConv.out")}
        else:
            raise Infra(f"MC_StrConv failed: {wd}/MC_StrConv.out\n" + rig.tail(r.out, 25))
    cases = rig.read_ndjson(wd / "cases.ndjson")
    info["cases"] = len(cases)
    return cases, info


# ------------------------------------------------------------------------------------------ MiniGo generator
# Seeded generator of MiniGo programs (the AST of spec/gosem/MiniGo.tla), one function per shape.
# It only builds programs; what they print is decided by the TLA+ interpreter.
def C(n): return {"e": "c", "n": n}
def STR(bs): return {"e": "str", "b": list(bs)}
def V(v): return {"e": "v", "v": v}
def Bin(op, a, b): return {"e": "bin", "op": op, "a": a, "b": b}
def Cmp(op, a, b): return {"e": "cmp", "op": op, "a": a, "b": b}
def Idx(of, a, i): return {"e": "idx", "of": of, "a": a, "i": i}
def Len_(of, a): return {"e": "len", "of": of, "a": a}
def Call(f): return {"e": "call", "f": f}
def Decl(v, e): return {"s": "decl", "v": v, "e": e}
def SetV(v, e): return {"s": "set", "lv": {"l": "v", "v": v}, "e": e}
def SetIdx(of, v, i, e): return {"s": "set", "lv": {"l": "idx", "of": of, "v": v, "i": i}, "e": e}
def SetMap(v, k, e): return {"s": "set", "lv": {"l": "map", "v": v, "k": k}, "e": e}
def SetField(of, v, f, e): return {"s": "set", "lv": {"l": "field", "of": of, "v": v, "f": f}, "e": e}
def Print(*items): return {"s": "print", "es": [{"k": k, "e": e} for k, e in items]}
def PI(*es): return Print(*[("i", e) for e in es])
def If(c, a, b=None): return {"s": "if", "c": c, "a": a, "b": b or []}
def For(label, v, init, cond, post, body): return {"s": "for", "label": label, "v": v, "init": init, "cond": cond, "post": post, "body": body}
def Inc(v, d=1): return SetV(v, Bin("+", V(v), C(d)))
def Jump(kind, label=""): return {"s": kind, "label": label}
NOP = {"s": "nop"}
def Mod(e, m): return Bin("%", e, C(m))


class Vars:
    def __init__(self): self.n = 0
    def new(self):
        self.n += 1
        return self.n


def mg_loops(rng, variant=None):
    """variants: plain (unlabelled jumps only), break-outer (break L1 from the inner loop), continue-outer (continue L1),
    break-own-label (break L2 inside L2), continue-own-label (continue L2 inside L2)"""
    variant = variant or rng.choice(["plain", "break-outer", "continue-outer", "break-own-label", "continue-own-label"])
    vs = Vars()
    acc, i, j = vs.new(), vs.new(), vs.new()
    A, B = rng.randint(2, 4), rng.randint(2, 4)
    X, M = rng.randint(1, 3), rng.randint(2, 4)
    special = {"plain": None, "break-outer": Jump("break", "L1"), "continue-outer": Jump("continue", "L1"),
               "break-own-label": Jump("break", "L2"), "continue-own-label": Jump("continue", "L2")}[variant]
    plain = [Jump("continue"), Jump("break")]
    j1 = special or rng.choice(plain)
    j2 = rng.choice(plain)
    if rng.random() < 0.5:
        j1, j2 = j2, j1
    inner = [
        If(Cmp("==", Mod(Bin("+", Bin("*", V(i), C(X)), V(j)), M), C(rng.randint(0, M - 1))), [j1]),
        SetV(acc, Mod(Bin("+", Bin("*", V(acc), C(3)), Bin("+", V(i), V(j))), 1000)),
        If(Cmp(rng.choice([">", "==", ">="]), Bin("+", V(i), V(j)), C(rng.randint(1, 4))), [PI(C(-1), V(i), V(j)), j2]),
        PI(V(i), V(j), V(acc)),
    ]
    l1 = "L1" if variant in ("break-outer", "continue-outer") else ""
    l2 = "L2" if variant in ("break-own-label", "continue-own-label") else ""
    outer = [For(l2, j, C(0), Cmp("<", V(j), C(B)), Inc(j), inner), PI(C(-2), V(i), V(acc))]
    body = [Decl(acc, C(rng.randint(0, 5))),
            For(l1, i, C(0), Cmp("<", V(i), C(A)), Inc(i), outer),
            PI(V(acc))]
    return {"nv": vs.n, "body": body, "variant": variant}


def mg_switch(rng):
    vs = Vars()
    k, acc = vs.new(), vs.new()
    n, M = rng.randint(4, 7), rng.randint(3, 5)
    vals = list(range(M))
    rng.shuffle(vals)
    ncl = rng.randint(2, 4)
    clauses = []
    for c in range(ncl):
        if not vals:
            break
        mine = [vals.pop()]
        if vals and rng.random() < 0.4:
            mine.append(vals.pop())
        body = [PI(C(10 * (c + 1)), V(k))]
        if rng.random() < 0.35:
            body.append(If(Cmp("==", Mod(V(k), 2), C(rng.randint(0, 1))), [Jump("break")]))
            body.append(PI(C(10 * (c + 1) + 1)))
        if rng.random() < 0.3:
            body.append(If(Cmp(">", V(k), C(n - 2)), [Jump("continue")]))
        body.append(SetV(acc, Mod(Bin("+", Bin("*", V(acc), C(2)), C(c + 1)), 1000)))
        clauses.append({"def": False, "vals": mine, "body": body, "ft": False})
    if rng.random() < 0.8:
        clauses.insert(rng.randint(0, len(clauses)), {"def": True, "vals": [], "body": [PI(C(99), V(k)), SetV(acc, Mod(Bin("+", V(acc), C(7)), 1000))], "ft": False})
    for c in clauses[:-1]:
        c["ft"] = rng.random() < 0.45
    sw = {"s": "switch", "e": Mod(Bin("*", V(k), C(rng.randint(1, 3))), M), "clauses": clauses}
    body = [Decl(acc, C(1)), For("", k, C(0), Cmp("<", V(k), C(n)), Inc(k), [sw, PI(C(-1), V(acc))]), PI(V(acc))]
    return {"nv": vs.n, "body": body}


def mg_goto(rng):
    vs = Vars()
    i, acc = vs.new(), vs.new()
    N, S = rng.randint(5, 9), rng.randint(1, 3)
    body = [Decl(i, C(0)), Decl(acc, C(0)),
            {"s": "label", "name": "L"},
            If(Cmp("<", V(i), C(N)), [PI(V(i), V(acc)), SetV(i, Bin("+", V(i), C(S))), SetV(acc, Mod(Bin("+", Bin("*", V(acc), C(2)), V(i)), 1000)),
                                      If(Cmp("==", Mod(V(i), 3), C(rng.randint(0, 2))), [Jump("goto", "M")]),
                                      Jump("goto", "L")]),
            PI(C(-1), V(i)),
            {"s": "label", "name": "M"},
            PI(C(100), V(i), V(acc)),
            Inc(i),
            If(Cmp("<", V(i), C(N + rng.randint(0, 3))), [Jump("goto", "L")]),
            PI(V(i), V(acc))]
    return {"nv": vs.n, "body": body}


def mg_closures(rng, variant=None):
    """variants: loopvar (closures stored by index capture the loop variable: one variable per iteration),
    bodyvar (they capture a variable declared in the loop body), append (closures appended to a slice), counter"""
    variant = variant or rng.choice(["loopvar", "bodyvar", "append", "counter"])
    vs = Vars()
    fs, i, k, j, c, inc = vs.new(), vs.new(), vs.new(), vs.new(), vs.new(), vs.new()
    N, X, D = rng.randint(2, 4), rng.randint(1, 5), rng.randint(1, 4)
    body = []
    if variant in ("loopvar", "bodyvar", "append"):
        ret = Bin("+", Bin("*", V(i), C(10)), C(X)) if variant == "loopvar" else Bin("+", V(k), C(X))
        clo = {"e": "clo", "body": ([] if variant == "loopvar" else [SetV(k, Bin("+", V(k), C(1)))]) + [{"s": "ret", "e": ret}]}
        loop_body = [] if variant == "loopvar" else [Decl(k, Bin("*", V(i), C(X)))]
        if variant == "append":
            loop_body.append(SetV(fs, {"e": "append", "a": V(fs), "x": clo}))
        else:
            loop_body.append(SetIdx("slice", fs, V(i), clo))
        if variant == "loopvar" and rng.random() < 0.5:
            loop_body.append(If(Cmp("==", V(i), C(rng.randint(0, N - 1))), [Inc(i)]))     # changes this iteration's copy; carried over
        if variant != "loopvar" and rng.random() < 0.5:
            loop_body.append(SetV(k, Bin("+", V(k), C(100))))                              # after capture: the closure sees it
        callf = Call(Idx("slice", V(fs), V(j)))
        body += [Decl(fs, {"e": "nilslice", "ty": "func"} if variant == "append" else {"e": "mkfuncs", "len": N + 1}),
                 For("", i, C(0), Cmp("<", V(i), C(N)), Inc(i), loop_body),
                 PI(Len_("slice", V(fs))),
                 For("", j, C(0), Cmp("<", V(j), C(N if variant != "loopvar" else 1)), Inc(j), [PI(V(j), callf), PI(callf)])]
    body += [Decl(c, C(rng.randint(0, 3))),
             Decl(inc, {"e": "clo", "body": [SetV(c, Bin("+", V(c), C(D))), {"s": "ret", "e": V(c)}]}),
             PI(Call(V(inc)), Call(V(inc)), V(c)),
             SetV(c, C(50)), PI(Call(V(inc)))]
    return {"nv": vs.n, "body": body, "variant": variant}


def mg_values(rng):
    vs = Vars()
    a, b, s, t, p, i, q = [vs.new() for _ in range(7)]
    vals = [rng.randint(1, 9) for _ in range(3)]
    X = rng.randint(2, 4)
    body = [Decl(a, {"e": "lit", "of": "arr", "es": [C(v) for v in vals]}),
            Decl(b, V(a)),                                                   # array copy
            SetIdx("arr", b, C(rng.randint(0, 2)), C(rng.randint(10, 19))),
            PI(Idx("arr", V(a), C(0)), Idx("arr", V(a), C(1)), Idx("arr", V(a), C(2)), Idx("arr", V(b), C(0)), Idx("arr", V(b), C(1)), Idx("arr", V(b), C(2))),
            For("", i, C(0), Cmp("<", V(i), Len_("arr", V(a))), Inc(i), [SetIdx("arr", a, V(i), Mod(Bin("*", Idx("arr", V(a), V(i)), C(X)), 100))]),
            PI(Idx("arr", V(a), C(0)), Idx("arr", V(a), C(2)), Idx("arr", V(b), C(1))),
            Decl(s, {"e": "lit", "of": "st", "es": [C(rng.randint(1, 9)), C(rng.randint(1, 9))]}),
            Decl(t, V(s)),                                                   # struct copy
            SetField("st", t, 1, C(rng.randint(20, 29))),
            Decl(p, {"e": "addr", "v": s}),                                  # pointer aliasing
            SetField("ptr", p, 2, C(rng.randint(30, 39))),
            PI({"e": "field", "of": "st", "a": V(s), "f": 1}, {"e": "field", "of": "st", "a": V(s), "f": 2},
               {"e": "field", "of": "st", "a": V(t), "f": 1}, {"e": "field", "of": "st", "a": V(t), "f": 2},
               {"e": "field", "of": "ptr", "a": V(p), "f": 1}, {"e": "field", "of": "ptr", "a": V(p), "f": 2}),
            SetField("st", s, 1, C(rng.randint(40, 49))),
            Decl(q, V(p)),
            PI({"e": "field", "of": "ptr", "a": V(q), "f": 1}, {"e": "field", "of": "st", "a": V(t), "f": 1})]
    return {"nv": vs.n, "body": body}


def mg_slices(rng):
    vs = Vars()
    s, t, u, w, x, y = [vs.new() for _ in range(6)]
    ln, cp = rng.randint(1, 2), rng.randint(3, 5)
    body = [Decl(s, {"e": "mkslice", "len": ln, "cap": cp})]
    for k in range(ln):
        body.append(SetIdx("slice", s, C(k), C(rng.randint(1, 9))))
    body += [Decl(t, {"e": "append", "a": V(s), "x": C(rng.randint(10, 19))}),
             Decl(u, {"e": "append", "a": V(s), "x": C(rng.randint(20, 29))}),        # same cell as t[ln]
             PI(Idx("slice", V(t), C(ln)), Idx("slice", V(u), C(ln)), Len_("slice", V(t)), {"e": "cap", "a": V(t)}, Len_("slice", V(s))),
             Decl(w, {"e": "slice", "of": "slice", "a": V(s), "lo": C(rng.randint(0, ln)), "hi": C(rng.randint(ln + 1, cp))}),
             PI(Len_("slice", V(w)), {"e": "cap", "a": V(w)}, Idx("slice", V(w), C(0))),
             SetIdx("slice", w, C(0), C(rng.randint(30, 39))),
             PI(Idx("slice", V(u), C(0)), Idx("slice", V(u), C(ln)), Idx("slice", V(w), C(0))),
             Decl(x, V(u))]
    # fill up to capacity in place, then one growing append
    for k in range(cp - (ln + 1)):
        body.append(SetV(x, {"e": "append", "a": V(x), "x": C(40 + k)}))
    body += [PI(Len_("slice", V(x)), {"e": "cap", "a": V(x)}, Idx("slice", V(x), Bin("-", Len_("slice", V(x)), C(1)))),
             Decl(y, {"e": "append", "a": V(x), "x": C(77)}),                         # grows: fresh array
             SetIdx("slice", y, C(0), C(rng.randint(50, 59))),
             PI(Idx("slice", V(x), C(0)), Idx("slice", V(y), C(0)), Len_("slice", V(y)), Idx("slice", V(y), Bin("-", Len_("slice", V(y)), C(1))))]
    return {"nv": vs.n, "body": body}


def mg_maps(rng):
    vs = Vars()
    m, i, n, m2 = [vs.new() for _ in range(4)]
    K, N = rng.randint(2, 4), rng.randint(4, 8)
    mg = lambda mv, k: {"e": "mapget", "a": V(mv), "k": k}
    body = [Decl(m, {"e": "mkmap"}),
            For("", i, C(0), Cmp("<", V(i), C(N)), Inc(i), [SetMap(m, Mod(V(i), K), Bin("+", mg(m, Mod(V(i), K)), V(i)))]),
            PI(Len_("map", V(m)), mg(m, C(0)), mg(m, C(1)), mg(m, C(K + 3))),
            {"s": "del", "v": m, "k": C(rng.randint(0, K))},
            {"s": "del", "v": m, "k": C(K + 5)},
            PI(Len_("map", V(m)), mg(m, C(0)), mg(m, C(1))),
            Decl(m2, V(m)),                                                  # maps are references
            SetMap(m2, C(rng.randint(10, 12)), C(rng.randint(1, 9))),
            PI(Len_("map", V(m)), Len_("map", V(m2))),
            Decl(n, {"e": "nilmap"}),
            PI(Len_("map", V(n)), mg(n, C(1))),
            {"s": "del", "v": n, "k": C(1)}]
    return {"nv": vs.n, "body": body}


PIECES = [b"a", b"Z", b"\xc3\xa9", b"\xe2\x82\xac", b"\xf0\x9f\x98\x80", b"\xff", b"\xc3", b"\xe2\x82", b"0"]


def rand_str(rng, lo=2, hi=5):
    return b"".join(rng.choice(PIECES) for _ in range(rng.randint(lo, hi)))


def mg_strings(rng, variant=None):
    variant = variant or rng.choice(["plain", "plain", "range-continue-label"])
    lab = "R" if variant == "range-continue-label" else ""
    vs = Vars()
    s, t, i, r, cnt = [vs.new() for _ in range(5)]
    bs = rand_str(rng)
    a = rng.randint(0, len(bs) - 1)
    b = rng.randint(a, len(bs))
    body = [Decl(s, STR(bs)),
            PI(Len_("str", V(s)), Idx("str", V(s), C(0)), Idx("str", V(s), Bin("-", Len_("str", V(s)), C(1)))),
            Decl(t, {"e": "slice", "of": "str", "a": V(s), "lo": C(a), "hi": C(b)}),
            Print(("i", Len_("str", V(t))), ("s", V(t))),
            Decl(cnt, C(0)),
            {"s": "ranges", "label": lab, "iv": i, "rv": r, "e": V(s), "body": [
                If(Cmp("==", V(r), C(65533)), [PI(C(-1), V(i)), Jump("continue", lab)]),
                SetV(cnt, Bin("+", V(cnt), C(1))),
                PI(V(i), V(r))]},
            PI(V(cnt)),
            {"s": "ranges", "label": "", "iv": 0, "rv": r, "e": V(t), "body": [PI(V(r)), If(Cmp(">", V(r), C(127)), [Jump("break")])]},
            Print(("b", Cmp("==", V(t), {"e": "slice", "of": "str", "a": V(s), "lo": C(a), "hi": C(b)})))]
    return {"nv": vs.n, "body": body, "variant": variant}


FAULT_KINDS = ["idx-arr-get", "idx-arr-set", "idx-slice-get", "idx-slice-set", "idx-str", "idx-neg", "slice-cap", "slice-lohi", "str-slice",
               "nilmap", "nilptr-get", "nilptr-set", "assert-int", "assert-str", "none"]


def mg_faults(rng, variant=None):
    vs = Vars()
    a, s, m, p, x, i, st, q, h = [vs.new() for _ in range(9)]
    kind = variant or rng.choice(FAULT_KINDS)
    n = rng.randint(2, 4)
    body = [Decl(i, C(rng.randint(0, 1))), PI(C(1), V(i))]
    over = Bin("+", V(i), C(n))           # >= n
    if kind in ("idx-arr-get", "idx-arr-set", "idx-neg"):
        body += [Decl(a, {"e": "lit", "of": "arr", "es": [C(k + 1) for k in range(n)]}), PI(Idx("arr", V(a), V(i)))]
        if kind == "idx-arr-get":
            body += [PI(Idx("arr", V(a), over))]
        elif kind == "idx-arr-set":
            body += [SetIdx("arr", a, over, C(5))]
        else:
            body += [PI(Idx("arr", V(a), Bin("-", V(i), C(rng.randint(2, 3)))))]
    elif kind in ("idx-slice-get", "idx-slice-set", "slice-cap", "slice-lohi"):
        body += [Decl(s, {"e": "mkslice", "len": n, "cap": n + rng.randint(0, 2)}), PI(Idx("slice", V(s), V(i)), Len_("slice", V(s)), {"e": "cap", "a": V(s)})]
        if kind == "idx-slice-get":
            body += [PI(Idx("slice", V(s), over))]
        elif kind == "idx-slice-set":
            body += [SetIdx("slice", s, over, C(5))]
        elif kind == "slice-cap":
            body += [Decl(h, Bin("+", {"e": "cap", "a": V(s)}, C(rng.randint(1, 2)))),
                     Decl(q, {"e": "slice", "of": "slice", "a": V(s), "lo": C(0), "hi": V(h)}), PI(Len_("slice", V(q)))]
        else:
            body += [Decl(h, Bin("+", V(i), C(2))),
                     Decl(q, {"e": "slice", "of": "slice", "a": V(s), "lo": V(h), "hi": Bin("-", V(h), C(1))}), PI(Len_("slice", V(q)))]
    elif kind in ("idx-str", "str-slice"):
        bs = rand_str(rng, 2, 4)
        body += [Decl(st, STR(bs)), PI(Len_("str", V(st)))]
        if kind == "idx-str":
            body += [PI(Idx("str", V(st), Bin("+", V(i), C(len(bs)))))]
        else:
            body += [Decl(h, Bin("+", V(i), C(len(bs) + 1))),
                     Decl(q, {"e": "slice", "of": "str", "a": V(st), "lo": C(0), "hi": V(h)}), PI(Len_("str", V(q)))]
    elif kind == "nilmap":
        body += [Decl(m, {"e": "nilmap"}), PI({"e": "mapget", "a": V(m), "k": C(1)}), SetMap(m, C(1), C(2))]
    elif kind in ("nilptr-get", "nilptr-set"):
        body += [Decl(p, {"e": "nilptr"}), PI(C(2))]
        body += [PI({"e": "field", "of": "ptr", "a": V(p), "f": 1})] if kind == "nilptr-get" else [SetField("ptr", p, 2, C(3))]
    elif kind in ("assert-int", "assert-str"):
        if kind == "assert-int":
            body += [Decl(x, {"e": "box", "dyn": "string", "a": STR(b"hi")}),
                     Print(("s", {"e": "assert", "ty": "string", "a": V(x)})),
                     PI({"e": "assert", "ty": "int", "a": V(x)})]
        else:
            body += [Decl(x, {"e": "box", "dyn": "int", "a": Bin("+", V(i), C(40))}),
                     PI({"e": "assert", "ty": "int", "a": V(x)}),
                     Print(("s", {"e": "assert", "ty": "string", "a": V(x)}))]
    body += [PI(C(999))]
    return {"nv": vs.n, "body": body, "fault": kind}


def Range_(label, iv, rv, e, body): return {"s": "ranges", "label": label, "iv": iv, "rv": rv, "e": e, "body": body}


LABEL_KINDS = [o + "-" + i + "-" + j for o, i in (("for", "switch"), ("for", "range"), ("range", "range"), ("range", "for"), ("for", "for3"))
               for j in ("break", "continue")]


def mg_labels(rng, variant=None):
    """A labelled outer loop (for or range over a string) around an inner switch / range / for (for3: two nested fors
    around an if, the jump leaves / continues the outermost); the inner statement jumps to the outer label."""
    variant = variant or rng.choice(LABEL_KINDS)
    outer, inner, jump = variant.split("-")
    vs = Vars()
    i, j, k, acc, s1, s2, r1, r2 = [vs.new() for _ in range(8)]
    A, B, M = rng.randint(3, 5), rng.randint(2, 4), rng.randint(2, 3)
    J = Jump(jump, "L")
    hit = Cmp("==", Mod(Bin("+", V(i), V(j)), M), C(rng.randint(0, M - 1)))
    upd = SetV(acc, Mod(Bin("+", Bin("*", V(acc), C(3)), Bin("+", V(i), V(j))), 1000))
    body = [Decl(acc, C(rng.randint(0, 5)))]
    if inner == "switch":
        # the jump is taken the first time i % 3 == 1 (and i >= 1 then): the label decides what happens next
        clauses = [{"def": False, "vals": [1], "body": [PI(C(10), V(i)), If(Cmp(">=", V(i), C(rng.randint(0, 1))), [J]), PI(C(11), V(i))], "ft": rng.random() < 0.4},
                   {"def": False, "vals": [0], "body": [PI(C(20), V(i))], "ft": False},
                   {"def": True, "vals": [], "body": [PI(C(30), V(i)), If(Cmp("==", Mod(V(i), 2), C(rng.randint(0, 1))), [Jump("break")]), PI(C(31), V(i))], "ft": False}]
        rng.shuffle(clauses)
        clauses[-1]["ft"] = False
        inner_stmt = [{"s": "switch", "e": Mod(V(i), 3), "clauses": clauses}]
    else:
        ib = [If(hit, [PI(C(-1), V(i), V(j)), J]), upd, PI(V(i), V(j), V(acc))]
        if inner == "range":
            body.append(Decl(s2, STR(rand_str(rng, 2, 4))))
            inner_stmt = [Range_("", j, r2, V(s2), ib)]
        elif inner == "for":
            inner_stmt = [For("", j, C(0), Cmp("<", V(j), C(B)), Inc(j), ib)]
        else:   # for3: one more loop level between the label and the jump
            inner_stmt = [For("", k, C(0), Cmp("<", V(k), C(2)), Inc(k), [For("", j, C(0), Cmp("<", V(j), C(B)), Inc(j), ib), PI(C(-3), V(k))])]
    ob = inner_stmt + [PI(C(-2), V(i), V(acc))]
    if outer == "range":
        body += [Decl(s1, STR(rand_str(rng, 3, 5))), Range_("L", i, r1, V(s1), ob)]
    else:
        body.append(For("L", i, C(0), Cmp("<", V(i), C(A)), Inc(i), ob))
    body.append(PI(V(acc)))
    return {"nv": vs.n, "body": body, "variant": variant}


def mg_evalorder(rng):
    """the operands of println (function calls that print themselves) are all evaluated before anything is printed"""
    vs = Vars()
    f, g, c = vs.new(), vs.new(), vs.new()
    a, b = rng.randint(2, 9), rng.randint(11, 19)
    clo = lambda tag, ret: {"e": "clo", "body": [SetV(c, Bin("+", V(c), C(1))), PI(C(tag), V(c)), {"s": "ret", "e": ret}]}
    body = [Decl(c, C(0)), Decl(f, clo(100, Bin("+", V(c), C(a)))), Decl(g, clo(200, Bin("*", V(c), C(b)))),
            PI(C(1), Call(V(f))),
            PI(Call(V(g)), C(2), Call(V(f))),
            PI(V(c))]
    return {"nv": vs.n, "body": body, "variant": "print-call-arg"}


def strip_labels(v):
    """the same statements with the label of every break / continue erased (the variant that MC_MiniGo also runs)"""
    if isinstance(v, dict):
        d = {k: strip_labels(x) for k, x in v.items()}
        if d.get("s") in ("break", "continue"):
            d["label"] = ""
        return d
    if isinstance(v, list):
        return [strip_labels(x) for x in v]
    return v


def has_labelled_jump(v):
    if isinstance(v, dict):
        return (v.get("s") in ("break", "continue") and v.get("label", "") != "") or any(has_labelled_jump(x) for x in v.values())
    if isinstance(v, list):
        return any(has_labelled_jump(x) for x in v)
    return False


# every (shape, variant) pair is generated in turn, so that each run covers all of them
MG_VARIANTS = ([(mg_loops, v) for v in ("plain", "break-outer", "continue-outer", "break-own-label", "continue-own-label")]
               + [(mg_switch, None), (mg_goto, None)]
               + [(mg_closures, v) for v in ("loopvar", "bodyvar", "append", "counter")]
               + [(mg_values, None), (mg_slices, None), (mg_maps, None)]
               + [(mg_strings, v) for v in ("plain", "range-continue-label")]
               + [(mg_faults, v) for v in FAULT_KINDS]
               + [(mg_labels, v) for v in LABEL_KINDS]
               + [(mg_evalorder, None)])


def mg_programs(rng, n):
    out = []
    for k in range(n):
        f, variant = MG_VARIANTS[k % len(MG_VARIANTS)]
        p = f(rng, variant) if variant else f(rng)
        p["id"] = k + 1
        p["shape"] = f.__name__[3:] + (":" + p.pop("fault") if "fault" in p else "") + (":" + p.pop("variant") if "variant" in p else "")
        p["funcs"] = []
        p["altbody"] = strip_labels(p["body"]) if has_labelled_jump(p["body"]) else []
        out.append(p)
    return out


MG_ALL_KINDS = {"e:" + k for k in ("c", "str", "v", "nocond", "bin", "cmp", "and", "or", "not", "idx", "mapget", "len", "cap", "slice", "field", "addr",
                                   "nilptr", "nilmap", "nilslice", "mkmap", "mkslice", "mkfuncs", "lit", "slicelit", "append", "clo", "call",
                                   "box", "assert", "fn", "recover", "isnil")} | \
               {"s:" + k for k in ("nop", "label", "decl", "set", "print", "if", "for", "ranges", "switch", "break", "continue", "goto", "del",
                                   "expr", "ret", "defer", "panic", "rangesl", "select")}


def mg_kinds(v, acc):
    if isinstance(v, dict):
        if isinstance(v.get("e"), str):
            acc.add("e:" + v["e"])
        if isinstance(v.get("s"), str):
            acc.add("s:" + v["s"])
        for x in v.values():
            mg_kinds(x, acc)
    elif isinstance(v, list):
        for x in v:
            mg_kinds(x, acc)


def mg_tla(v):
    if isinstance(v, bool):
        return "TRUE" if v else "FALSE"
    if isinstance(v, dict):
        return "[" + ", ".join(f"{k} |-> {mg_tla(x)}" for k, x in v.items() if k != "shape") + "]"
    if isinstance(v, (list, tuple)):
        return "<<" + ", ".join(mg_tla(x) for x in v) + ">>"
    if isinstance(v, str):
        return '"' + v + '"'
    return str(v)


def part_minigo(ctx):
    nprog = ctx.pick(2, 10) * len(MG_VARIANTS)
    progs = mg_programs(random.Random(ctx.seed * 7919 + 11), nprog)
    batch = 62
    parts = [progs[b:b + batch] for b in range(0, len(progs), batch)]
    info = {"states": 0, "transitions": 0, "mc_wall_s": 0, "programs_generated": len(progs), "mc_invariants": ["InDomain"]}

    def one(k):
        wd = ctx.stage(f"mc_minigo_{k}", FAMS)
        (wd / "MiniGoProgs.tla").write_text("---- MODULE MiniGoProgs ----\nEXTENDS Integers\nProgs == <<\n" +
                                            ",\n".join(mg_tla(p) for p in parts[k]) + "\n>>\n====\n")
        rig.write_cfg(wd / "MC_MiniGo.cfg", invariants=["InDomain"], postcondition="Export")
        r = ctx.tlc(wd, "MC_MiniGo", workers=2, timeout=1500, must_pass=True)
        return r, rig.read_ndjson(wd / "cases.ndjson")
    cases, shapes = [], {}
    with cf.ThreadPoolExecutor(max_workers=4) as ex:
        for k, (r, res) in enumerate(ex.map(one, range(len(parts)))):
            info["states"] += r.distinct
            info["transitions"] += r.generated
            info["mc_wall_s"] = round(info["mc_wall_s"] + r.wall, 1)
            byid = {c["id"]: c for c in res}
            for p in parts[k]:
                e = byid[p["id"]]
                if e["outcome"] not in ("ok", "panic"):
                    raise Infra(f"MiniGo generator produced a program outside the interpreter's domain: id {p['id']} shape {p['shape']}")
                shapes[p["shape"]] = shapes.get(p["shape"], 0) + 1
                cases.append({"id": p["id"], "fam": "minigo", "shape": p["shape"], "prog": {"nv": p["nv"], "body": p["body"], "funcs": []},
                              "exp": {"out": e["out"], "outcome": e["outcome"], "msg": e["msg"]}, "alt": e["alt"]})
    info["cases"] = len(cases)
    info["shapes"] = shapes
    # which syntactic categories of the interpreter the generated programs exercise (measured on the batch)
    used = set()
    mg_kinds(progs, used)
    info["interpreter_cases_never_exercised"] = sorted(MG_ALL_KINDS - used)
    info["expected_panics"] = sum(1 for c in cases if c["exp"]["outcome"] == "panic")
    info["labelled_jump_programs"] = sum(1 for c in cases if c["alt"]["outcome"] != "none")
    info["labelled_jump_programs_where_the_label_matters"] = sum(1 for c in cases if c["alt"]["outcome"] != "none" and
                                                                 (c["alt"]["out"], c["alt"]["outcome"]) != (c["exp"]["out"], c["exp"]["outcome"]))
    return cases, info


def part_deferflow(ctx):
    """All defer / panic / recover programs (trees of functions, MiniGoFlow.tla) with at most n nodes: TLC enumerates the
    trees, runs the reference interpreter on each and prints one case per program whose nodes all ran."""
    n, lit = ctx.pick((5, 4), (6, 5))     # nodes; the function-literal source form is written for programs up to lit nodes
    wd = ctx.stage("mc_deferflow", FAMS)
    (wd / "MiniGoFlowCfg.tla").write_text("---- MODULE MiniGoFlowCfg ----\nMgfMaxNodes == %d\nMgfLiteralUpTo == %d\n====\n" % (n, lit))
    rig.write_cfg(wd / "MC_MiniGoFlow.cfg", invariants=["InDomain"])
    r = ctx.tlc(wd, "MC_MiniGoFlow", workers=max(2, rig.NCPU // 2), timeout=1500, must_pass=True)
    cases = []
    for l in r.out.splitlines():
        if l.startswith('<<"CASE", "') and l.endswith('">>'):
            cases.append(json.loads(json.loads(l[len('<<"CASE", '):-2])))
    cases.sort(key=lambda c: c["id"])
    if not cases or len({c["id"] for c in cases}) != len(cases):
        raise Infra(f"MC_MiniGoFlow exported {len(cases)} cases (duplicate ids or none): {wd}/MC_MiniGoFlow.out")
    trees = r.distinct // 2
    used = set()
    mg_kinds([c["prog"] for c in cases[:2000]], used)
    info = {"states": r.distinct, "transitions": r.generated, "mc_wall_s": round(r.wall, 1), "mc_invariants": ["InDomain"],
            "max_nodes": n, "trees": trees, "cases": len(cases), "dropped_some_node_never_runs": trees - len(cases),
            "source_forms": {"named": len(cases), "literal (programs of at most %d nodes)" % lit: sum(1 for c in cases if "literal" in c["forms"])},
            "expected_panics": sum(1 for c in cases if c["exp"]["outcome"] == "panic"),
            "interpreter_cases_exercised": sorted(used)}
    return cases, info


def part_nest(ctx):
    """All programs of MiniGoNest.tla: an unlabelled break / continue at every position of the bodies of nested for / range /
    switch / select statements; TLC enumerates them, runs the reference interpreter on each and prints one case per program."""
    # (depth, full): statements nested; up to depth `full` a statement is of any of the 7 kinds, deeper programs have one kind of
    # range statement per level (over a slice / over a string, alternating with the level and the seed)
    depth, full = ctx.pick((2, 1), (3, 2))
    wd = ctx.stage("mc_nest", FAMS)
    (wd / "MiniGoNestCfg.tla").write_text("---- MODULE MiniGoNestCfg ----\nNestMaxDepth == %d\nNestFullDepth == %d\nNestSeed == %d\n====\n" % (depth, full, ctx.seed))
    invs = ["InDomain", "EndsWith99"]
    rig.write_cfg(wd / "MC_MiniGoNest.cfg", invariants=invs)
    r = ctx.tlc(wd, "MC_MiniGoNest", workers=ctx.pick(2, max(2, rig.NCPU // 2)), timeout=1500, must_pass=True)
    cases = []
    for l in r.out.splitlines():
        if l.startswith('<<"CASE", "') and l.endswith('">>'):
            cases.append(json.loads(json.loads(l[len('<<"CASE", '):-2])))
    cases.sort(key=lambda c: c["id"])
    if not cases or len({c["id"] for c in cases}) != len(cases) or r.distinct != 2 * len(cases):
        raise Infra(f"MC_MiniGoNest exported {len(cases)} cases, {r.distinct} states (two per case expected, no duplicate ids): {wd}/MC_MiniGoNest.out")
    by = {}
    for c in cases:
        sp = c.pop("spec")
        c["shape"] = "nest:" + ">".join(sp["ks"]) + ":%s@%d.%d" % (sp["jump"], sp["lvl"], sp["pos"]) + (":if" if sp["cond"] else "")
        c["tmo"] = 5000          # these programs run in microseconds; one that does not end is stopped after 5 s
        k = "%s -> %s in %s" % (c["nest"]["jump"], c["nest"]["at"], c["nest"]["encl"])
        by[k] = by.get(k, 0) + 1
    used = set()
    mg_kinds([c["prog"] for c in cases], used)
    info = {"states": r.distinct, "transitions": r.generated, "mc_wall_s": round(r.wall, 1), "mc_invariants": invs,
            "max_nested_statements": depth, "all_seven_kinds_up_to_depth": full, "cases": len(cases),
            "programs_by_jump_target_and_enclosing_statement": by,
            "programs_whose_jump_is_conditional": sum(1 for c in cases if c["shape"].endswith(":if")),
            "interpreter_cases_exercised": sorted(used)}
    return cases, info


def part_misc(ctx):
    wd = ctx.stage("mc_misc", FAMS)
    invs = ["VariadicSane", "SelectSane", "ConstUseSane", "MapRangeSane"]
    depth = ctx.pick(3, 4)
    rig.write_cfg(wd / "MC_GoMisc.cfg", constants={"Depth": depth}, invariants=invs)
    r = ctx.tlc(wd, "MC_GoMisc", workers=4, timeout=1500, must_pass=True)
    cases = []
    for rec in rig.read_ndjson(wd / "cases.ndjson"):
        c = dict(rec["c"])
        c["id"] = rec["id"]
        cases.append(c)
    by = {}
    for c in cases:
        by[c["fam"]] = by.get(c["fam"], 0) + 1
    info = {"states": r.distinct, "transitions": r.generated, "mc_wall_s": round(r.wall, 1), "mc_invariants": invs,
            "cases": len(cases), "cases_by_family": by, "constuse_max_uses": depth}
    return cases, info


def part_pkginit(ctx):
    """Programs of several packages (PkgInit.tla): every import graph over p, q, r, main with every order of the import
    declarations, PkgSamples decorations (variables, init functions, reads and writes across packages) per graph, and
    the graphs with an import cycle (quick: one out of three, chosen by the seed)."""
    n, samples, cycstep = 4, ctx.pick(2, 24), ctx.pick(3, 1)
    wd = ctx.stage("mc_pkginit", FAMS)
    (wd / "PkgInitCfg.tla").write_text("---- MODULE PkgInitCfg ----\nPkgN == %d\nPkgSamples == %d\nPkgSeed == %d\nPkgCycStep == %d\n====\n" % (n, samples, ctx.seed, cycstep))
    invs = ["ImplMeetsRef", "ImplDeclOrder", "RefSane", "ParserMeetsRef"]
    rig.write_cfg(wd / "MC_PkgInit.cfg", invariants=invs)
    r = ctx.tlc(wd, "MC_PkgInit", workers=4, timeout=1500, extra=["-continue"])
    if "Model checking completed" not in r.out:
        raise Infra(f"MC_PkgInit did not complete: {wd}/MC_PkgInit.out\n" + rig.tail(r.out, 25))
    cases = rig.read_ndjson(wd / "cases.ndjson")
    if not cases or r.distinct != 2 * len(cases):
        raise Infra(f"MC_PkgInit: {len(cases)} cases exported, {r.distinct} states (two per case expected): {wd}/MC_PkgInit.out")
    acyc = [c for c in cases if c["g121"]]

    def shared(c):      # some package is imported by two packages or more (it is reached twice: diamonds, direct + indirect)
        cnt = {}
        for im in c["imps"]:
            for j in im:
                cnt[j] = cnt.get(j, 0) + 1
        return any(v >= 2 for v in cnt.values())
    info = {"states": r.distinct, "transitions": r.generated, "mc_wall_s": round(r.wall, 1), "mc_invariants": invs,
            "packages": n, "decorations_per_import_graph": samples, "cases": len(cases),
            "import_graphs": len({json.dumps(c["imps"]) for c in acyc}),
            "import_graphs_with_a_cycle": len(cases) - len(acyc), "import_graphs_with_a_cycle_one_out_of": cycstep,
            "programs": len(acyc), "programs_with_a_package_imported_twice_or_more": sum(1 for c in acyc if shared(c)),
            "programs_where_init_functions_write_imported_variables": sum(1 for c in acyc if any(w["p"] for ws in c["inits"] for w in ws))}
    viol = mc_violations(r.out)
    if viol:
        # ImplMeetsRef: the emitter's construction takes independent packages in the order of the import declarations, the
        # specification (Go 1.21) in the order of their import paths; diagnostic - the programs are run on the real code
        info["model_counterexample"] = {"violating_states_by_invariant": viol, "tlc_out": str(wd / "MC_PkgInit.out"),
                                        "replayed": "every program of the space is run on the real code"}
    return cases, info


def part_godata(ctx):
    """Straight-line programs over composite data (GoData.tla): for every ordered pair (x, y) of operations of the alphabet
    (quick: one pair out of three, chosen by the seed) `pre` programs  prefix ; x ; y  with a drawn prefix of `prelen`
    operations; TLC runs the reference store model on each, checks the sanity invariants and prints one case per program."""
    pre, prelen, step = ctx.pick((1, 1, 3), (6, 2, 1))
    wd = ctx.stage("mc_godata", FAMS)
    (wd / "GoDataCfg.tla").write_text("---- MODULE GoDataCfg ----\nGdSeed == %d\nGdPre == %d\nGdPreLen == %d\nGdStep == %d\n====\n" % (ctx.seed, pre, prelen, step))
    invs = ["GdShape", "GdStoreSane", "GdTextsUnique"]
    rig.write_cfg(wd / "MC_GoData.cfg", invariants=invs)
    r = ctx.tlc(wd, "MC_GoData", workers=ctx.pick(4, max(2, rig.NCPU // 2)), timeout=1500, must_pass=True)
    cases = []
    for l in r.out.splitlines():
        if l.startswith('<<"CASE", "') and l.endswith('">>'):
            cases.append(json.loads(json.loads(l[len('<<"CASE", '):-2])))
    cases.sort(key=lambda c: c["id"])
    progs = r.distinct // 2
    if not cases or len({c["id"] for c in cases}) != len(cases) or r.distinct % 2 or len(cases) > progs:
        raise Infra(f"MC_GoData exported {len(cases)} cases, {r.distinct} states (two per program expected, no duplicate ids): {wd}/MC_GoData.out")
    ops, pairs, kinds, reached = set(), set(), {}, set()
    for c in cases:
        e = c.pop("exp")
        c["lines"], c["ends"] = e["lines"], e["outcome"] + (":" + e["cls"] if e["cls"] else "")
        ops.update(c["ops"])
        pairs.add((c["ops"][-2], c["ops"][-1]))
        if c["lines"] >= len(c["ops"]):               # the last operation was reached (it completed or it is the one that panics)
            reached.add((c["ops"][-2], c["ops"][-1]))
        for k in c.pop("kinds"):
            kinds[k] = kinds.get(k, 0) + 1
    ends = {}
    for c in cases:
        ends[c["ends"]] = ends.get(c["ends"], 0) + 1
    info = {"states": r.distinct, "transitions": r.generated, "mc_wall_s": round(r.wall, 1), "mc_invariants": invs,
            "prefixes_per_pair": pre, "prefix_operations": prelen, "one_pair_out_of": step, "operations_per_program": prelen + 2,
            "programs": progs, "cases": len(cases), "dropped_output_would_depend_on_an_unspecified_capacity": progs - len(cases),
            "alphabet_operations_used": len(ops), "ordered_pairs_of_operations": len(pairs),
            "ordered_pairs_whose_second_operation_is_reached": len(reached),
            "programs_by_outcome_in_the_reference": ends, "operation_kinds_applied": kinds}
    return cases, info


def part_goiface(ctx):
    """Straight-line programs over interface values (GoIface.tla): for every ordered pair (x, y) of operations of the alphabet
    (quick: one pair out of three, chosen by the seed) `pre` programs  prefix ; x ; y  with a drawn prefix of `prelen`
    operations; TLC runs the reference on each, checks the sanity invariants and prints one case per program."""
    pre, prelen, step = ctx.pick((1, 1, 3), (2, 2, 1))
    wd = ctx.stage("mc_goiface", FAMS)
    (wd / "GoIfaceCfg.tla").write_text("---- MODULE GoIfaceCfg ----\nGiSeed == %d\nGiPre == %d\nGiPreLen == %d\nGiStep == %d\n====\n" % (ctx.seed, pre, prelen, step))
    invs = ["GiShape", "GiTyped", "GiTextsUnique"]
    rig.write_cfg(wd / "MC_GoIface.cfg", invariants=invs)
    r = ctx.tlc(wd, "MC_GoIface", workers=ctx.pick(4, max(2, rig.NCPU // 2)), timeout=1500, must_pass=True)
    cases = []
    for l in r.out.splitlines():
        if l.startswith('<<"CASE", "') and l.endswith('">>'):
            cases.append(json.loads(json.loads(l[len('<<"CASE", '):-2])))
    cases.sort(key=lambda c: c["id"])
    if not cases or len({c["id"] for c in cases}) != len(cases) or r.distinct != 2 * len(cases):
        raise Infra(f"MC_GoIface exported {len(cases)} cases, {r.distinct} states (two per program expected, no duplicate ids): {wd}/MC_GoIface.out")
    ops, pairs, kinds, reached, ends, dyn = set(), set(), {}, set(), {}, {}
    for c in cases:
        e = c.pop("exp")
        c["lines"], c["ends"] = e["lines"], e["outcome"] + (":" + e["cls"] if e["cls"] else "")
        ends[c["ends"]] = ends.get(c["ends"], 0) + 1
        ops.update(c["ops"])
        pairs.add((c["ops"][-2], c["ops"][-1]))
        if c["lines"] >= len(c["ops"]):               # the last operation was reached (it completed or it is the one that panics)
            reached.add((c["ops"][-2], c["ops"][-1]))
        for k in c.pop("kinds"):
            kinds[k] = kinds.get(k, 0) + 1
        for t in c.pop("dyn"):
            dyn[t] = dyn.get(t, 0) + 1
    info = {"states": r.distinct, "transitions": r.generated, "mc_wall_s": round(r.wall, 1), "mc_invariants": invs,
            "prefixes_per_pair": pre, "prefix_operations": prelen, "one_pair_out_of": step, "operations_per_program": prelen + 2,
            "programs": len(cases), "cases": len(cases), "alphabet_operations_used": len(ops), "ordered_pairs_of_operations": len(pairs),
            "ordered_pairs_whose_second_operation_is_reached": len(reached),
            "programs_by_outcome_in_the_reference": ends, "operation_kinds_applied": kinds,
            "dynamic_types_of_e_and_g_at_the_end_of_the_programs": dyn}
    return cases, info


PARTS = [("intalu", part_intalu), ("initorder", part_initorder), ("conv", part_conv), ("minigo", part_minigo),
         ("deferflow", part_deferflow), ("nest", part_nest), ("misc", part_misc), ("pkginit", part_pkginit),
         ("godata", part_godata), ("goiface", part_goiface)]
MISC_FAMS = ("variadic", "select", "constuse", "maprange")


# ------------------------------------------------------------------------------------------ helpers
def case_from_obs(o):
    if o["fam"] == "intalu":
        return {k: o[k] for k in ("id", "fam", "op", "k", "k2", "x", "y", "forms")}
    if o["fam"] == "initorder":
        return {k: o[k] for k in ("id", "fam", "nv", "nf", "deps", "orders")}
    if o["fam"] == "conv":
        return {k: o[k] for k in ("id", "fam", "op", "k", "v", "a")}
    if o["fam"] == "minigo":
        return {k: o[k] for k in ("id", "fam", "shape", "forms", "prog", "exp", "alt", "nest", "tmo") if k in o}
    if o["fam"] in MISC_FAMS:
        return {k: v for k, v in o.items() if k not in ("outcome", "out", "msg", "src", "raw")}
    if o["fam"] == "pkginit":
        return {k: o[k] for k in ("id", "fam", "imps", "vars", "inits", "forms", "g121")}
    if o["fam"] == "godata":
        return {k: o[k] for k in ("id", "fam", "ops", "capk", "lines", "ends")}
    if o["fam"] == "goiface":
        return {k: o[k] for k in ("id", "fam", "ops", "lines", "ends")}
    raise Infra("unknown family in observation: %r" % o.get("fam"))


def bigdec(b):
    if not b["l"]:
        return "0"
    s = str(b["l"][-1]) + "".join("%04d" % v for v in reversed(b["l"][:-1]))
    return ("-" if b["s"] < 0 else "") + s


def sample(o):
    if o["fam"] == "intalu":
        return {"fam": "intalu", "expr": f'{o["k"]}({bigdec(o["x"])}) {o["op"]} {o["k2"]}({bigdec(o["y"])})', "form": o["form"],
                "observed": o["t"], "value": bigdec(o["v"]), "widened": bigdec(o["w"]), "msg": o["msg"]}
    if o["fam"] == "initorder":
        return {"fam": "initorder", "variables": o["nv"], "functions": o["nf"], "deps": o["deps"], "textual_order": o["form"], "outcome": o["outcome"],
                "printed_order": o["order"], "msg": o["msg"][:200]}
    if o["fam"] == "minigo":
        return {"fam": "minigo", "shape": o["shape"], "form": o.get("form", ""), "expected": mg_text(o["exp"])[-400:], "observed": mg_text(o)[-400:]}
    if o["fam"] in MISC_FAMS:
        return {k: v for k, v in o.items() if k not in ("src", "raw", "id")}
    if o["fam"] == "pkginit":
        return {"fam": "pkginit", "imports (p=1, q=2, r=3, main=4)": o["imps"], "variables read": o["vars"], "init functions write": o["inits"],
                "source_form": o["form"], "outcome": o["outcome"], "printed": o["out"], "msg": o["msg"][:200]}
    if o["fam"] == "godata":
        return {"fam": "godata", "operations": o["ops"], "outcome": o["outcome"], "msg": rig.b2s(o["msg"])[:120],
                "printed (i a b | s t u: nil len [cap] elems | m n: nil len [1] [2] [3] | p q | pi | pt)": [" ".join(map(str, l)) for l in o["out"]]}
    if o["fam"] == "goiface":
        return {"fam": "goiface", "operations": o["ops"], "outcome": o["outcome"], "msg": rig.b2s(o["msg"])[:120],
                "printed (e g: type tag, value | i n | s z: len bytes | b | p: nil [*p] | l: nil len | t.A k ok)": [" ".join(map(str, l)) for l in o["out"]]}
    return {k: v for k, v in o.items() if k not in ("src", "raw")}


def mg_text(e):
    out = ""
    for l in e["out"]:
        out += " ".join(str(t["n"]) if t["k"] == "i" else ("true" if t["n"] else "false") if t["k"] == "b" else rig.b2s(t["s"]) for t in l) + "\n"
    if e["outcome"] != "ok":
        out += e["outcome"] + ": " + rig.b2s(e["msg"]) + "\n"
    return out


def nontrivial(o):
    if o["fam"] == "intalu":   # the operation overflowed / panicked / shifted out: the result is not the plain mathematical one
        return o["t"] == "panic" or o["op"] in ("div", "rem", "shl", "shr", "conv", "not") or len(o["v"]["l"]) >= 2
    if o["fam"] == "initorder":   # at least one dependency edge
        return any(o["deps"])
    if o["fam"] == "minigo":      # every generated program loops, jumps, aliases or faults
        return len(o["exp"]["out"]) > 1 or o["exp"]["outcome"] == "panic"
    if o["fam"] == "conv":        # something other than ASCII is involved
        return o["v"] > 127 or o["v"] < 0 or any(x > 127 or x < 0 for x in o["a"])
    if o["fam"] == "variadic":    # nothing, or a slice, is passed for the variadic parameter
        return o["mode"] == "spread" or o["nvar"] == 0
    if o["fam"] == "constuse":    # the constant is used at two types or more
        return len(set(o["uses"])) >= 2
    if o["fam"] == "maprange":    # a key or value of type string, or another live variable around the loop
        return o["kt"] == "string" or o["vt"] == "string" or o["live"] + o["ilive"] > 0
    if o["fam"] == "pkginit":     # two packages or more have something to initialise
        return sum(1 for i in range(len(o["imps"])) if o["vars"][i] or o["inits"][i]) >= 2
    if o["fam"] == "godata":      # the program ran to its end (every operation took effect on the state left by the one before)
        return o["ends"] == "ok"
    if o["fam"] == "goiface":     # the program ran to its end, or ended with the panic of a failed assertion / comparison in its last operation
        return o["ends"] == "ok" or o["lines"] == len(o["ops"])
    return True


def corrupt(o):
    o = json.loads(json.dumps(o))
    if o["fam"] == "intalu":
        if o["t"] == "panic":
            o["t"], o["msg"] = "int", ""
        elif o["t"] == "bool":
            o["v"] = o["w"] = ({"s": 0, "l": []} if o["v"]["s"] else {"s": 1, "l": [1]})
        else:
            v = {"s": 1, "l": [1]} if not o["v"]["l"] else {"s": o["v"]["s"], "l": [(o["v"]["l"][0] + 1) % 10000 or 1] + o["v"]["l"][1:]}
            o["v"] = o["w"] = v
        return o
    if o["fam"] == "minigo":
        o["outcome"] = o["exp"]["outcome"]
        o["msg"] = o["exp"]["msg"]
        o["out"] = json.loads(json.dumps(o["exp"]["out"]))
        if o["out"] and o["out"][-1]:
            t = o["out"][-1][-1]
            if t["k"] == "s":
                t["s"] = t["s"] + [33]
            else:
                t["n"] += 1
        else:
            o["out"].append([{"k": "i", "n": 1, "s": []}])
        return o
    if o["fam"] == "conv":
        o["out"] = (o["out"][:-1] + [o["out"][-1] ^ 1]) if o["out"] else [65]
        o["outcome"] = "ok"
        return o
    if o["fam"] in MISC_FAMS:
        o["outcome"] = "ok"
        if o["fam"] == "constuse":
            o["out"] = (["int8"] if not o["out"] or o["out"][0] != "int8" else ["bool"]) + o["out"][1:]
        else:
            o["out"] = ([o["out"][0] + 1] + o["out"][1:]) if o["out"] else [1]
        return o
    if o["fam"] == "pkginit":
        if o["outcome"] != "ok":              # a cycle, or a rejected program: as if it had run and printed nothing
            o["outcome"], o["out"] = "ok", []
        elif any(l and l[0] % 10 in (1, 2, 3, 4) for l in o["out"]):
            k = next(k for k, l in enumerate(o["out"]) if l and l[0] % 10 in (1, 2, 3, 4))
            o["out"].insert(k, list(o["out"][k]))      # the first initialisation step happens twice
        else:
            o["out"][-1][-1] += 1
        return o
    if o["fam"] in ("godata", "goiface"):          # one number of the last printed line is off by one (or: the program printed nothing)
        if o["out"] and o["out"][-1]:
            k = (o["id"] * 7) % len(o["out"][-1])
            o["out"][-1][k] += 1
        else:
            o["outcome"], o["out"] = "ok", [[1]]
        return o
    if o["fam"] == "initorder":
        if o["outcome"] == "ok" and o["order"]:
            o["order"][0] = o["order"][0] % o["nv"] + 1 if o["nv"] > 1 else 7
        else:
            o["outcome"], o["order"] = "ok", list(range(1, o["nv"] + 1)) + [0]
        return o
    return None


def judge(ctx, step, recs, shards=1, per=2000):
    """Judge records with Trace_GoSem in `shards` parallel TLC runs; returns bad records (with 'obs')."""
    if not recs:
        return []
    n = max(1, min(shards, (len(recs) + per - 1) // per))
    recs = sorted(recs, key=lambda o: (o["id"] * 7919) % 1000003)     # spread the families evenly over the shards
    size = (len(recs) + n - 1) // n
    parts = [recs[i:i + size] for i in range(0, len(recs), size)]

    def slim(o):   # what the Trace spec reads (the program text of a minigo case is not judged: exp carries its observable)
        o = {k: v for k, v in o.items() if k not in ("prog", "forms", "src", "raw", "g121", "capk", "lines", "ends")}
        if o["fam"] == "minigo":
            o.setdefault("alt", NO_ALT)
            o.setdefault("nest", NO_NEST)
        return o

    def one(i):
        p = ctx.work / f"{step}_obs_{i}.ndjson"
        rig.write_ndjson(p, [slim(o) for o in parts[i]])
        b, _ = rig.trace_judge(ctx, f"{step}_{i}", FAMS, "Trace_GoSem", p, timeout=1500)
        for x in b:
            x["obs"] = parts[i][x["k"] - 1]
        return b
    with cf.ThreadPoolExecutor(max_workers=n) as ex:
        out = []
        for b in ex.map(one, range(len(parts))):
            out += b
    return out


def gc_raw(ctx, src, n, strip=False):
    """Oracle guard: build and run src with gc; returns the normalised output text."""
    d = ctx.work / "gc" / str(n)
    d.mkdir(parents=True, exist_ok=True)
    files = split_files(src)
    if files:                                 # a program of several packages (pkginit): go.mod is one of the files
        for name, text in files.items():
            (d / name).parent.mkdir(parents=True, exist_ok=True)
            (d / name).write_text(text)
    else:
        (d / "main.go").write_text(src)
        (d / "go.mod").write_text("module c01guard\n\ngo 1.25.0\n")
    try:
        p = subprocess.run(["go", "run", "." if files else "main.go"], cwd=d, env=rig.goenv(), stdout=subprocess.PIPE, stderr=subprocess.STDOUT,
                           text=True, errors="replace", timeout=300)
    except subprocess.TimeoutExpired:
        return None
    g = normalise_gc(p.stdout, p.returncode)
    if strip:        # godata programs print every token followed by a blank: the driver's text has none at the end of a line
        g = "".join(l.rstrip() + "\n" for l in g.splitlines())
    return g


def split_files(src):
    """the files of a source written by the driver as '-- path --' sections (pkginit); {} for a single main.go"""
    if not src.startswith("-- "):
        return {}
    files, name = {}, None
    for line in src.splitlines(keepends=True):
        m = re.match(r"^-- (\S+) --$", line.rstrip("\n"))
        if m:
            name = m.group(1)
            files[name] = ""
        elif name is not None:
            files[name] += line
    return files


def normalise_gc(text, rc):
    """printed lines + the panic that ended the program; of a chain ("panic: 1\\n\\tpanic: 2") the newest one, without
    the [recovered] mark - what PanicError.String() of the returned error is compared with"""
    out = []
    lines = text.splitlines()
    if rc != 0 and not any(l.startswith("panic: ") or l.startswith("fatal error: ") for l in lines):
        return "builderror\n"       # compile error
    last = None
    for l in lines:
        if l.startswith("panic: ") or (last is not None and l.startswith("\tpanic: ")):
            last = re.sub(r" \[recovered[^\]]*\]$", "", l.strip())
            continue
        if last is not None:
            break
        if l.startswith("fatal error: "):
            out.append(l)
            break
        if l.startswith("exit status"):
            continue
        out.append(l)
    if last is not None:
        out.append(last)
    return "\n".join(out) + "\n"


def normalise_scriggo(raw):
    m = re.search(r"^builderror: ", raw, re.M)
    if m:
        return "builderror\n"
    return raw


# ------------------------------------------------------------------------------------------ run
def run(ctx, replay_cases=None):
    infos = {}
    if replay_cases is None:
        cases = []
        with cf.ThreadPoolExecutor(max_workers=len(PARTS)) as ex:
            futs = {name: ex.submit(fn, ctx) for name, fn in PARTS}
            for name, _ in PARTS:
                cs, info = futs[name].result()
                for c in cs:
                    c["id"] += BASE[name]
                cases += cs
                infos[name] = info
    else:
        cases = replay_cases
    if "minigo" in infos and "deferflow" in infos and "nest" in infos:   # syntactic categories of the interpreter that no program space exercises
        infos["minigo"]["interpreter_cases_never_exercised"] = sorted(set(infos["minigo"]["interpreter_cases_never_exercised"])
                                                                      - set(infos["deferflow"].pop("interpreter_cases_exercised"))
                                                                      - set(infos["nest"].pop("interpreter_cases_exercised")))
    rig.write_ndjson(ctx.work / "cases.ndjson", cases)
    obs_p = ctx.work / "obs.ndjson"
    ctx.drive("c01", ctx.work / "cases.ndjson", obs_p, timeout=1500)
    allobs = rig.read_ndjson(obs_p)
    prog_of = {c["id"]: c["prog"] for c in cases if c["fam"] == "minigo"}
    by_fam = {}
    for o in allobs:
        if o["fam"] == "minigo":
            o["prog"] = prog_of[o["id"]]       # (the driver does not echo the program text)
        by_fam.setdefault(o["fam"], []).append(o)
    for name in by_fam:
        infos.setdefault(name, {})["records_judged"] = len(by_fam[name])
    ctx.cov.update(
        states=sum(i.get("states", 0) for i in infos.values()),
        transitions=sum(i.get("transitions", 0) for i in infos.values()),
        parts=infos,
        evaluations=len(allobs), traces_validated_against_impl=len(allobs),
        distinct_nontrivial=len({json.dumps(case_from_obs(o), sort_keys=True) + str(o.get("form", "")) for o in allobs if nontrivial(o)}),
        rule="minigo: seeded programs of 11 shapes (labelled loops, labelled break / continue across for / range / switch, switch/fallthrough, goto, closures, array/struct/pointer values, slice aliasing, maps, strings, run-time faults, println operand order), expected output computed by TLC; deferflow: every tree of functions over the nodes call / defer / recover / panic with at most max_nodes nodes, all of whose nodes run, interpreted by TLC, in the source forms named / literal; nest: every program of MiniGoNest.tla (kinds of the nested statements x break / continue x level x position x bare / inside an if) up to max_nested_statements, interpreted by TLC; non-trivial = more than one printed line or a panic. conv: all conversions of the 12-value rune set / strings of <= MaxPieces well- and ill-formed UTF-8 pieces; non-trivial = a non-ASCII value is involved. initorder: every dependency graph of the bounded spaces, one program per textual order of the dependencies; non-trivial = at least one edge. intalu: TLC-exported space (all kinds x operators x boundary operands x shift counts), each case in the source forms var / literal operand / op-assignment / if-condition; non-trivial = result wrapped, shifted out, divided, converted or panicked. variadic / select / constuse / maprange: the spaces of MC_GoMisc.tla, one program per case; non-trivial = nothing or a slice passed for the variadic parameter / every select / the constant used at two types or more / a string key or value or another live variable around the range over a map. pkginit: every import graph over p, q, r, main (with and without cycles, every order of the import declarations) x drawn decorations, in the source forms separate / grouped import declarations; non-trivial = two packages or more have variables or init functions. godata: the programs prefix ; x ; y of MC_GoData.tla for the ordered pairs (x, y) of the 103 operations of the GoData alphabet, one record per program; non-trivial = the program runs to its end in the reference (no operation panics). goiface: the programs prefix ; x ; y of MC_GoIface.tla for the ordered pairs (x, y) of the operations of the GoIface alphabet, one record per program; non-trivial = the program runs to its end or its last operation is the one that panics. One record per (case, form).",
        exhaustive=True,
        samples=[sample(o) for fam in sorted(by_fam) for o in rig.pick_samples(by_fam[fam], 2, ctx.seed)],
    )
    # programs of several packages whose output is not the one of the Go 1.21 rule (independent packages in import-path
    # order), which is what gc prints: each of them is a bad record of the judge (counted here from the exported g121)
    ctx.cov["pkginit_output_differs_from_go1_21_import_path_order"] = sum(1 for o in by_fam.get("pkginit", []) if o["outcome"] == "ok" and o["out"] != o["g121"])
    ctx.cov["panic_message_detail_differs"] = sum(1 for o in by_fam.get("minigo", []) if o["outcome"] == "panic" and o["exp"]["outcome"] == "panic" and o["msg"] != o["exp"]["msg"])
    # judge
    bads = judge(ctx, "trace", allobs, shards=ctx.pick(12, 14))
    ctx.cov["judged_bad_first_pass"] = len(bads)
    # sensitivity self-test: corrupted observations must be rejected by the same Trace spec (judged in the
    # same TLC runs as the reproduction guard below; their ids are shifted by ST)
    ST = 50000000
    st = []
    for fam in sorted(by_fam):
        badkeys = {(b["id"], b["obs"].get("form", "")) for b in bads}
        good = [o for o in by_fam[fam] if nontrivial(o) and (o["id"], o.get("form", "")) not in badkeys] or by_fam[fam]
        for o in rig.pick_samples(good, 3, ctx.seed + 7):
            c = corrupt(o)
            if c is not None:
                c["id"] += ST
                st.append(c)
    b3 = []
    if not bads and st:
        b3 = judge(ctx, "trace_selftest", st, shards=1)
    # reproduction guard: each failing case alone in a fresh process, source kept
    confirmed = []
    if bads:
        seen, cc = set(), []
        for b in bads:
            if b["id"] not in seen:
                seen.add(b["id"])
                cc.append(case_from_obs(b["obs"]))
        # at most 3 cases per signature are re-run (hundreds of cases share one root cause)
        per_sig, keep_ids = {}, set()
        for b in bads:
            k = json.dumps(b["sig"], sort_keys=True)
            if per_sig.setdefault(k, 0) < 3:
                per_sig[k] += 1
                keep_ids.add(b["id"])
        cc = [c for c in cc if c["id"] in keep_ids]
        rig.write_ndjson(ctx.work / "confirm_cases.ndjson", cc)
        ctx.drive("c01", ctx.work / "confirm_cases.ndjson", ctx.work / "confirm_obs.ndjson", args=["-chunk", "1", "-keepsrc"], timeout=1500)
        cobs = rig.read_ndjson(ctx.work / "confirm_obs.ndjson")
        for o in cobs:
            if o["fam"] == "minigo":
                o["prog"] = prog_of[o["id"]]
        slim = [{k: v for k, v in o.items() if k not in ("src", "raw")} for o in cobs]
        b23 = judge(ctx, "trace_confirm", slim + st, shards=8, per=350)     # <= 400 records per run: every bad record is listed
        b2 = [b for b in b23 if b["id"] < ST]
        b3 = [b for b in b23 if b["id"] >= ST]
        src_of = {(o["id"], o.get("form", "")): o for o in cobs}
        keys2 = {json.dumps(b["sig"], sort_keys=True) for b in b2}
        confirmed = [b for b in bads if json.dumps(b["sig"], sort_keys=True) in keys2]
        ctx.cov["unreproduced"] = len({json.dumps(b["sig"], sort_keys=True) for b in bads} - keys2)
        for b in confirmed:
            b["what"] = sample(b["obs"])
        # oracle guard (violation path only): gc on the failing program; if gc agrees with Scriggo the spec is wrong
        known, unknown = ctx.classify(confirmed)
        disputed, checked, n = set(), {}, 0
        for b in unknown:
            sk = json.dumps(b["sig"], sort_keys=True)
            if sk in checked:
                continue
            o = src_of.get((b["id"], b["obs"].get("form", "")))
            if o is None or "src" not in o or n >= 12:
                continue
            n += 1
            g = gc_raw(ctx, o["src"], n, strip=b["obs"]["fam"] in ("godata", "goiface"))
            checked[sk] = g is not None and g == normalise_scriggo(o["raw"])
            if checked[sk]:
                disputed.add(sk)
            else:
                b["what"]["gc"] = (g or "gc timed out")[:300]
                b["what"]["scriggo"] = o["raw"][:300]
                b["src"] = o["src"]
        if disputed:
            ctx.cov["oracle_disputed"] = sorted(disputed)
            confirmed = [b for b in confirmed if json.dumps(b["sig"], sort_keys=True) not in disputed]
        ctx.cov["oracle_guard_runs"] = n
    if st:
        ctx.cov["sensitivity_selftest"] = {"corrupted": len(st), "rejected": len(b3)}
        if len(b3) < len(st):
            raise Infra(f"sensitivity self-test failed: {len(st)} corrupted observations, only {len(b3)} rejected")

    def rw(rdir, b):
        (rdir / "case.json").write_text(json.dumps(case_from_obs(b["obs"])))
        (rdir / "obs.json").write_text(json.dumps(b["obs"]))
        if b.get("src"):
            (rdir / "source").mkdir(exist_ok=True)
            for name, text in (split_files(b["src"]) or {"main.go": b["src"]}).items():
                (rdir / "source" / name).parent.mkdir(parents=True, exist_ok=True)
                (rdir / "source" / name).write_text(text)
    return ctx.report(confirmed, replay_writer=rw)


def replay(ctx, path):
    c = json.loads((path / "case.json").read_text())
    return run(ctx, replay_cases=[c])

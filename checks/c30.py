"""C30 - building is deterministic (DESIGN 7/C30)."""
import json, rig
from rig import Infra

LEVEL = "exploration"
META = {
    "engine": "Determinism",
    "technique": "TLA+ statement of determinism as an invariant over a build history (equal key => equal digests), model-checked on an implementation-shaped builder with per-process shared state (the leaky variant must violate it); TLC enumerates all declaration graphs (package-level variables / functions referring to each other) and all sets of <=2/3 out of 16 language features as sources; each is built repeatedly within a process and in three processes that build the sources in different orders by the real code; the concatenated history is validated by a TLC trace spec",
    "level": "exploration",
    "level_text": "The spec states the property (a history invariant) and TLC evaluates it on every prefix of the real build history; the case space - every declaration graph over 3 variables and one function with <=2 (quick) / <=3 (thorough) references each, as a Go program and as a template importing a native package with 7 declarations - and every set of at most 2 (quick) / 3 (thorough) of 16 language features whose emission goes through maps, pools or package-level state (multi-value package variables, constants converted to named types, closures capturing parameters, complex arithmetic helpers, same-line functions, imported files with same-line macros, ...) - is enumerated by TLC. The three processes build the sources in ascending, descending and shuffled order, so that state left behind by an earlier build (history dependence) shows as a disagreement between processes. The source of nondeterminism (Go's per-loop randomised map iteration in the checker's dependency analysis and in the emitter) is exercised by repetition (3-4 builds x 3 processes per source), not enumerated, hence 'exploration'.",
    "level_note": "Trusted: TLC, sha256 digests computed by the driver over Disassemble output / UsedVars / run output or build-error text. A nondeterminism with probability p per build is missed with probability (1-p)^(builds-1) per source.",
    "design_ref": "7/C30",
}
FAMS = ["determinism"]


def run(ctx, only_ids=None):
    wd = ctx.stage("mc", FAMS)
    nv = 3                      # (4 variables: more than a million candidate graphs, beyond TLC's set enumeration)
    rmax = ctx.pick(2, 3)
    maxfeat = ctx.pick(2, 3)
    consts = {"NV": nv, "RMax": rmax, "MaxFeat": maxfeat, "Leaky": False}
    rig.write_cfg(wd / "MC_Determinism.cfg", init="MCInit", next_="MCNext", constants=consts, invariants=["Deterministic"])
    r = ctx.tlc(wd, "MC_Determinism", workers=4, timeout=1200, must_pass=True)
    cases = rig.read_ndjson(wd / "cases.ndjson")
    featcases = rig.read_ndjson(wd / "cases_feats.ndjson")
    # non-vacuity: a builder that keeps state between the builds of a process must violate the invariant
    wl = ctx.stage("mc_leaky", FAMS)
    rig.write_cfg(wl / "MC_Determinism.cfg", init="MCInit", next_="MCNext", constants=dict(consts, NV=1, MaxFeat=0, Leaky=True), invariants=["Deterministic"])
    rl = ctx.tlc(wl, "MC_Determinism", workers=1, timeout=600)
    ctx.cov["nonvacuity_leaky_builder_violates_invariant"] = bool(rl.invariant_violated)
    if not rl.invariant_violated:
        raise Infra("Determinism invariant is vacuous: the leaky builder was accepted")
    ctx.cov.update(states=r.distinct, transitions=r.generated, graphs=len(cases), feature_programs=len(featcases), bounds=f"NV={nv} RMax={rmax} MaxFeat={maxfeat}")
    acyclic = [c for c in cases if not c["cyclic"]]
    cyclic = [c for c in cases if c["cyclic"]]
    ctx.cov.update(acyclic_graphs=len(acyclic), cyclic_graphs=len(cyclic))
    cap = ctx.pick(1200, 10000)
    cases = rig.pick_samples(acyclic, cap, ctx.seed) + rig.pick_samples(cyclic, cap // 8, ctx.seed)   # all acyclic graphs up to the cap + a sample of cyclic ones
    cases += featcases
    if only_ids is not None:
        # a feature program is replayed inside the whole feature history (a leak needs the builds before it)
        cases = [c for c in cases if c["id"] in only_ids or (c["id"] >= 1000000 and any(i >= 1000000 for i in only_ids))]
    events = []
    nproc = 3
    import random
    for p in range(1, nproc + 1):
        # each process builds the sources in its own order (ascending / descending / shuffled): what an earlier
        # build leaves behind in the process must not change a later one
        order = list(cases)
        if p == 2:
            order.reverse()
        elif p == 3:
            random.Random(ctx.seed).shuffle(order)
        cf = ctx.work / f"cases_p{p}.ndjson"
        rig.write_ndjson(cf, order)
        o = ctx.work / f"obs_p{p}.ndjson"
        ctx.drive("c30", cf, o, args=["-proc", p, "-reps", ctx.pick(3, 4), "-j", 1 if p == 1 else 0], timeout=2400)
        events += rig.read_ndjson(o)
    events.sort(key=lambda e: (e["id"], e["proc"], e["rep"]))       # contiguous per key (plumbing)
    obs = ctx.work / "obs.ndjson"
    rig.write_ndjson(obs, events)
    keys = {}
    for e in events:
        keys.setdefault(e["id"], []).append(e)
    bads = judge(ctx, "trace", obs)
    ctx.cov.update(evaluations=len(events), traces_validated_against_impl=len(keys),
                   distinct_nontrivial=len({k for k, v in keys.items() if not v[0]["out"].startswith("builderror")}),
                   builderror_sources=len({k for k, v in keys.items() if v[0]["out"].startswith("builderror")}),
                   rule="every declaration graph exported by TLC (sampled beyond the cap) and every feature set exported by TLC, as program and as template; each built reps x 3 processes; non-trivial = the source builds (its disassembly and behaviour digests are compared); cyclic graphs compare their build-error text",
                   exhaustive=False, processes=nproc,
                   samples=[{k: e[k] for k in ("id", "form", "proc", "rep", "asm", "used", "out")} for e in rig.pick_samples(events, 4, ctx.seed)])
    confirmed = []
    if bads:
        ids = sorted({b["obs"]["case"] for b in bads})
        # the reproduction keeps the neighbours of the case in the history (a leak needs the earlier build)
        ev2 = []
        for p in range(1, 4):
            order = rig.read_ndjson(ctx.work / f"cases_p{p}.ndjson")
            keep = set()
            for i, c in enumerate(order):
                if c["id"] in ids:
                    keep.update(range(max(0, i - 40), i + 1))
            cc = ctx.work / f"confirm_cases_p{p}.ndjson"
            rig.write_ndjson(cc, [c for i, c in enumerate(order) if i in keep])
            o = ctx.work / f"confirm_p{p}.ndjson"
            ctx.drive("c30", cc, o, args=["-proc", p, "-reps", 6, "-j", 1 if p == 1 else 0], timeout=2400)
            ev2 += rig.read_ndjson(o)
        ev2.sort(key=lambda e: (e["id"], e["proc"], e["rep"]))
        co = ctx.work / "confirm_obs.ndjson"
        rig.write_ndjson(co, ev2)
        b2 = judge(ctx, "trace_confirm", co)
        keys2 = {json.dumps(b["sig"], sort_keys=True) for b in b2}
        confirmed = [b for b in bads if json.dumps(b["sig"], sort_keys=True) in keys2]
        ctx.cov["unreproduced"] = len(bads) - len(confirmed)
        for b in confirmed:
            b["what"] = {"events": [{k: e[k] for k in ("proc", "rep", "asm", "used", "out")} for e in keys[b["id"]]][:8]}
    st = [dict(e) for e in events[:6]]
    if len(st) >= 2:
        st[1] = dict(st[1], asm="corrupted")
        p = ctx.work / "selftest_obs.ndjson"
        rig.write_ndjson(p, st)
        b3 = judge(ctx, "trace_selftest", p)
        ctx.cov["sensitivity_selftest"] = {"corrupted": 1, "rejected": len(b3)}
        if not b3:
            raise Infra("sensitivity self-test failed")

    def rw(rdir, b):
        (rdir / "case.json").write_text(json.dumps({"id": b["obs"]["case"]}))
    return ctx.report(confirmed, replay_writer=rw)


def judge(ctx, step, obs):
    import shutil
    wd = ctx.stage(step, FAMS)
    shutil.copy(obs, wd / "obs.ndjson")
    rig.write_cfg(wd / "Trace_Determinism.cfg", init="TInit", next_="TNext", constants={"NV": 1}, invariants=["Done", "Deterministic"] if False else ["Done"], postcondition="Consumed")
    r = ctx.tlc(wd, "Trace_Determinism", workers=1, timeout=1500)
    if not r.ok or not (wd / "bad.ndjson").exists():
        raise Infra(f"Trace_Determinism failed: {wd}/Trace_Determinism.out\n" + rig.tail(r.out, 25))
    allobs = rig.read_ndjson(obs)
    bads = rig.read_ndjson(wd / "bad.ndjson")
    for b in bads:
        b["obs"] = allobs[b["k"] - 1]
    return bads


def replay(ctx, path):
    c = json.loads((path / "case.json").read_text())
    return run(ctx, only_ids={c["id"]})

"""C30 - building is deterministic (DESIGN 7/C30)."""
import json, rig
from rig import Infra

LEVEL = "exploration"
META = {
    "engine": "Determinism",
    "technique": "TLA+ statement of determinism as an invariant over a build history (equal key => equal digests); TLC enumerates all declaration graphs (package-level variables / functions referring to each other) as sources; each is built repeatedly within a process and in three processes by the real code; the concatenated history is validated by a TLC trace spec",
    "level": "exploration",
    "level_text": "The spec states the property (a history invariant) and TLC evaluates it on every prefix of the real build history; the case space - every declaration graph over 3 (quick) / 4 (thorough, capped sample) variables with <=2 references each and one function, as a Go program and as a template importing a native package with 7 declarations - is enumerated by TLC. The source of nondeterminism (Go's per-loop randomised map iteration in the checker's dependency analysis and in the emitter) is exercised by repetition (3-4 builds x 3 processes per source), not enumerated, hence 'exploration'.",
    "level_note": "Trusted: TLC, sha256 digests computed by the driver over Disassemble output / UsedVars / run output or build-error text. A nondeterminism with probability p per build is missed with probability (1-p)^(builds-1) per source.",
    "design_ref": "7/C30",
}
FAMS = ["determinism"]


def run(ctx, only_ids=None):
    wd = ctx.stage("mc", FAMS)
    nv = ctx.pick(3, 4)
    rig.write_cfg(wd / "MC_Determinism.cfg", next_="MCNext", constants={"NV": nv}, invariants=["Deterministic"])
    r = ctx.tlc(wd, "MC_Determinism", workers=4, timeout=1200, must_pass=True)
    cases = rig.read_ndjson(wd / "cases.ndjson")
    ctx.cov.update(states=r.distinct, transitions=r.generated, graphs=len(cases), bounds=f"NV={nv}")
    acyclic = [c for c in cases if not c["cyclic"]]
    cyclic = [c for c in cases if c["cyclic"]]
    ctx.cov.update(acyclic_graphs=len(acyclic), cyclic_graphs=len(cyclic))
    cap = ctx.pick(1200, 10000)
    cases = rig.pick_samples(acyclic, cap, ctx.seed) + rig.pick_samples(cyclic, cap // 8, ctx.seed)   # all acyclic graphs up to the cap + a sample of cyclic ones
    if only_ids is not None:
        cases = [c for c in cases if c["id"] in only_ids]
    cf = ctx.work / "cases.ndjson"
    rig.write_ndjson(cf, cases)
    events = []
    nproc = 3
    for p in range(1, nproc + 1):
        o = ctx.work / f"obs_p{p}.ndjson"
        ctx.drive("c30", cf, o, args=["-proc", p, "-reps", ctx.pick(3, 4)], timeout=2400)
        events += rig.read_ndjson(o)
    events.sort(key=lambda e: (e["id"], e["proc"], e["rep"]))       # contiguous per key (plumbing)
    obs = ctx.work / "obs.ndjson"
    rig.write_ndjson(obs, events)
    keys = {}
    for e in events:
        keys.setdefault(e["id"], []).append(e)
    bads = judge(ctx, "trace", obs)
    ctx.cov.update(evaluations=len(events), traces_validated_against_impl=len(keys),
                   distinct_nontrivial=len({k for k, v in keys.items() if not v[0]["out"].startswith("builderror")}),
                   builderror_sources=len({k for k, v in keys.items() if v[0]["out"].startswith("builderror")}),
                   rule="every declaration graph exported by TLC (sampled beyond the cap), as program and as template; each built reps x 3 processes; non-trivial = the source builds (its disassembly and behaviour digests are compared); cyclic graphs compare their build-error text",
                   exhaustive=False, processes=nproc,
                   samples=[{k: e[k] for k in ("id", "form", "proc", "rep", "asm", "used", "out")} for e in rig.pick_samples(events, 4, ctx.seed)])
    confirmed = []
    if bads:
        ids = sorted({b["obs"]["case"] for b in bads})
        cc = ctx.work / "confirm_cases.ndjson"
        rig.write_ndjson(cc, [c for c in cases if c["id"] in ids])
        ev2 = []
        for p in range(1, 4):
            o = ctx.work / f"confirm_p{p}.ndjson"
            ctx.drive("c30", cc, o, args=["-proc", p, "-reps", 12], timeout=2400)
            ev2 += rig.read_ndjson(o)
        ev2.sort(key=lambda e: (e["id"], e["proc"], e["rep"]))
        co = ctx.work / "confirm_obs.ndjson"
        rig.write_ndjson(co, ev2)
        b2 = judge(ctx, "trace_confirm", co)
        keys2 = {json.dumps(b["sig"], sort_keys=True) for b in b2}
        confirmed = [b for b in bads if json.dumps(b["sig"], sort_keys=True) in keys2]
        ctx.cov["unreproduced"] = len(bads) - len(confirmed)
        for b in confirmed:
            b["what"] = {"events": [{k: e[k] for k in ("proc", "rep", "asm", "used", "out")} for e in keys[b["id"]]][:8]}
    st = [dict(e) for e in events[:6]]
    if len(st) >= 2:
        st[1] = dict(st[1], asm="corrupted")
        p = ctx.work / "selftest_obs.ndjson"
        rig.write_ndjson(p, st)
        b3 = judge(ctx, "trace_selftest", p)
        ctx.cov["sensitivity_selftest"] = {"corrupted": 1, "rejected": len(b3)}
        if not b3:
            raise Infra("sensitivity self-test failed")

    def rw(rdir, b):
        (rdir / "case.json").write_text(json.dumps({"id": b["obs"]["case"]}))
    return ctx.report(confirmed, replay_writer=rw)


def judge(ctx, step, obs):
    import shutil
    wd = ctx.stage(step, FAMS)
    shutil.copy(obs, wd / "obs.ndjson")
    rig.write_cfg(wd / "Trace_Determinism.cfg", init="TInit", next_="TNext", constants={"NV": 1}, invariants=["Done", "Deterministic"] if False else ["Done"], postcondition="Consumed")
    r = ctx.tlc(wd, "Trace_Determinism", workers=1, timeout=1500)
    if not r.ok or not (wd / "bad.ndjson").exists():
        raise Infra(f"Trace_Determinism failed: {wd}/Trace_Determinism.out\n" + rig.tail(r.out, 25))
    allobs = rig.read_ndjson(obs)
    bads = rig.read_ndjson(wd / "bad.ndjson")
    for b in bads:
        b["obs"] = allobs[b["k"] - 1]
    return bads


def replay(ctx, path):
    c = json.loads((path / "case.json").read_text())
    return run(ctx, only_ids={c["id"]})

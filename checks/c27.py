"""C27 - printing a parsed syntax tree gives source that parses back to the same tree (DESIGN 7/C27)."""
import json, re, shutil, concurrent.futures
import rig
from rig import Infra

META = {
    "title": "ExprPrint",
    "engine": "ExprPrint",
    "technique": "TLA+ reference printer (minimal parentheses) and precedence-climbing parser over abstract expression/statement trees, "
                 "model-checked by TLC (Parse(Print(t)) = t for every tree of the bounded space) together with an implementation-shaped "
                 "transcription of ast's String methods; a second TLC-enumerated case space of literal-carrying constructs (extends / "
                 "import / render paths and string literals over a byte alphabet, each in several literal spellings) with a TLA+ reference "
                 "of Go string-literal spelling/unquoting and a transcription of strconv.Quote; every tree's source is parsed by the real "
                 "parser, printed by the real String(), parsed again, and the two real trees are compared by a TLC Trace spec",
    "level": "model_checking",
    "level_text": "TLC explores every abstract tree of depth <= 3 (thorough; in the quick tier the second operand of a depth-3 node is one of four representative trees) (binary operators of Go's five precedence levels plus and/or/not/contains, "
                  "unary - ! ^ * & <- + not, call, index, slice, selector, type assertion, conversions with parenthesised types, composite "
                  "and function literals, assignment/var/send/defer/go/show statements), checks that the reference Print and Parse are "
                  "inverse on all of them, and records for each tree what the transcribed String methods would do. MC_ExprLit explores every "
                  "path of <= 2 (quick) / 3 (thorough) characters of a 16-character alphabet (escape letter, dot, slash, backslash, the "
                  "three quotes, tab, newline, DEL, printable/non-printable non-ASCII of 2 and 4 bytes, space, % and }) that is a valid "
                  "template path, in extends, import and render, the four spellings of the literal (minimal escapes, all-hex, all-octal, raw) "
                  "for paths of <= 2 characters, and import forms / expression and statement contexts of render and of string literals for "
                  "paths of <= 1 (quick) / 2 (thorough) characters; it checks Unquote(Spell(p)) = p and Parse(Print(shape)) = shape. Every tree's source is "
                  "replayed into the real parser and String methods; the Trace spec judges T1 = T2 (property) and Abstract(T1) = t "
                  "(the real parser agrees with the reference on precedence/associativity: diagnostic).",
    "level_note": "Trusted: TLC, the Json module, the Go driver (joins tokens and fills literal holes with the TLC-spelled bytes, calls "
                  "BuildTemplate/String, dumps trees by reflection with paths/literal values/text as byte arrays; no oracle), "
                  "the TLA-value reader of this file. String forms that are descriptions, not source ('func literal', 'T{...}'), are read as "
                  "outside the property (class 'elided', counted). Corpus and random sources are judged on T1 = T2 only. The count of "
                  "redundant parentheses and positions are not compared. Not covered: statements without a String method "
                  "(if/for/switch/...), program (non-template) syntax, struct/interface type bodies beyond the corpus, paths longer than "
                  "3 alphabet characters and invalid UTF-8 in literals (random sources only).",
    "design_ref": "7/C27",
}

FAMS = ["exprprint"]

# Defects of ast's String methods demonstrated by this check on the unchanged tree (see the report).
_POSTFIX = "String() of %s does not parenthesise an operator operand: (a + b)%s prints as a + b%s and re-parses as a + (b%s)"
_PROPOSED_BEFORE_FIXES = [
    {"kind": "known", "signature": {"fam": "exprprint", "cause": "tree-differs", "k1": k, "k2": k2},
     "what": _POSTFIX % (k, s, s, s) + (" [unary operand]" if k2 == "UnaryOperator" else "")}
    for k, s in [("Index", "[i]"), ("Slicing", "[i:j]"), ("Selector", ".f"), ("TypeAssertion", ".(T)"), ("Call", "(x)")]
    for k2 in ["BinaryOperator", "UnaryOperator"]
] + [
    {"kind": "known", "signature": {"fam": "exprprint", "cause": "tree-differs", "k1": "ChanType", "v1": ["0"], "k2": "ChanType"},
     "what": "ChanType.String does not parenthesise a receive-only element type: chan (<-chan T) prints as 'chan <-chan T' = chan<- (chan T)"},
    {"kind": "known", "signature": {"fam": "exprprint", "cause": "reparse-error", "k1": "Var", "k2": "error"},
     "what": "Var.String separates identifiers and values with spaces instead of commas: 'var a, b = 1, 2' prints as 'var a b = 1 2'"},
    {"kind": "known", "signature": {"fam": "exprprint", "cause": "tree-differs", "k1": "FuncType", "k2": "FuncType"},
     "what": "FuncType.String omits '...' of a variadic parameter: func(a int, b ...string) prints as func(a int, b string)"},
    {"kind": "known", "signature": {"fam": "exprprint", "cause": "tree-differs", "k1": "FuncType", "k2": "list"},
     "what": "FuncType.String prints only the first of several unnamed results: func(int) (T, error) prints as func(int) T"},
    {"kind": "known", "signature": {"fam": "exprprint", "cause": "reparse-hostpanic", "k1": "CompositeLiteral", "k2": "hostpanic"},
     "what": "CompositeLiteral.String dereferences a nil Type: calling String() on the inner literal {1} of [][]int{{1}} panics"},
] + [
    {"kind": "known", "signature": {"fam": "exprprint", "k1": "Assignment", "v1": [str(n)], "k2": "*"},
     "what": "Assignment.String prints no operator for '%s': 'a %s b' prints as 'ab'" % (op, op)}
    for n, op in [(7, "&="), (8, "|="), (9, "^="), (10, "&^="), (11, "<<="), (12, ">>=")]
]


# ------------------------------------------------------------------------------------------------
# reader for TLC's -dump output (TLA+ values: records, tuples, strings, integers)
_TOK = re.compile(r'\s*(\|->|<<|>>|\[|\]|,|"(?:[^"\\]|\\.)*"|-?\d+|TRUE|FALSE|[A-Za-z_][A-Za-z0-9_]*)')


def tla_value(text):
    toks = _TOK.findall(text)
    pos = [0]

    def val():
        t = toks[pos[0]]
        pos[0] += 1
        if t == "<<":
            out = []
            while toks[pos[0]] != ">>":
                out.append(val())
                if toks[pos[0]] == ",":
                    pos[0] += 1
            pos[0] += 1
            return out
        if t == "[":
            out = {}
            while toks[pos[0]] != "]":
                k = toks[pos[0]]
                if toks[pos[0] + 1] != "|->":
                    raise Infra("dump reader: unexpected record syntax near " + k)
                pos[0] += 2
                out[k] = val()
                if toks[pos[0]] == ",":
                    pos[0] += 1
            pos[0] += 1
            return out
        if t.startswith('"'):
            return json.loads(t)
        if t in ("TRUE", "FALSE"):
            return t == "TRUE"
        return int(t)

    v = val()
    if pos[0] != len(toks):
        raise Infra("dump reader: trailing tokens")
    return v


def read_dump(path):
    states = []
    for blk in path.read_text().split("\n\n"):
        if not blk.startswith("State "):
            continue
        body = blk.split("\n", 1)[1]
        st = {}
        for part in re.split(r"^/\\ ", body, flags=re.M):
            if part.strip():
                name, v = part.split(" = ", 1)
                st[name.strip()] = tla_value(v)
        states.append(st)
    return states


# ------------------------------------------------------------------------------------------------
ALL_BIN = {"*", "+", "==", "&&", "||", "and", "or", "contains", "not contains"}
ALL_UN = {"-", "!", "^", "*", "&", "<-", "+", "not"}


def bounds(ctx):
    """One or two model-checking configurations; the case set is the union of their state spaces."""
    if ctx.quick:
        return [{"BinOps": {"*", "+", "==", "and", "||"}, "UnOps": {"-", "<-", "not"}, "MaxDepth": 3, "StmtDepth": 2, "FullSib": False}]
    return [{"BinOps": {"*", "+", "==", "&&", "||", "and", "contains"}, "UnOps": {"-", "!", "*", "&", "<-", "not"},
             "MaxDepth": 3, "StmtDepth": 2, "FullSib": True},            # every tree of depth <= 3
            {"BinOps": ALL_BIN, "UnOps": ALL_UN, "MaxDepth": 3, "StmtDepth": 2, "FullSib": False}]   # every operator


def lit_bounds(ctx):
    """Bounds of the literal-carrying case space (MC_ExprLit): path lengths in characters of its alphabet."""
    return ctx.pick({"MaxLen": 2, "AltLen": 2, "CtxLen": 1}, {"MaxLen": 3, "AltLen": 2, "CtxLen": 2})


def model_check_lit(ctx):
    """The case space of extends/import/render paths and string literals; returns (used states, TLC result, all states)."""
    wd = ctx.stage("mclit", FAMS)
    rig.write_cfg(wd / "MC_ExprLit.cfg", constants=lit_bounds(ctx), invariants=["RefRoundTrip", "InBound"])
    r = ctx.tlc(wd, "MC_ExprLit", workers=rig.NCPU, timeout=1700, coverage=False, dump=[str(wd / "states.dump")])
    if not r.ok:
        if r.invariant_violated:
            raise Infra("the REFERENCE spelling/unquoting/parser of ExprLit.tla is not a round trip (spec bug): %s/MC_ExprLit.out\n" % wd + rig.tail(r.out, 30))
        raise Infra(f"MC_ExprLit failed: {wd}/MC_ExprLit.out\n" + rig.tail(r.out, 30))
    st = read_dump(wd / "states.dump")
    if len(st) != r.distinct:
        raise Infra(f"dump has {len(st)} states, TLC reported {r.distinct}")
    return [x for x in st if x["use"]], r, st


def model_check(ctx):
    states, distinct, generated, wall, never = [], 0, 0, 0.0, []
    cfgs = bounds(ctx)
    for n, consts in enumerate(cfgs):
        wd = ctx.stage(f"mc{n}", FAMS)
        rig.write_cfg(wd / "MC_ExprPrint.cfg", constants=consts, invariants=["RefRoundTrip", "InBound"])
        # (no -coverage: TLC's coverage instrumentation runs out of memory on this module; the two actions are
        #  checked for vacuity from the dumped states instead)
        r = ctx.tlc(wd, "MC_ExprPrint", workers=rig.NCPU, timeout=1700, coverage=False, dump=[str(wd / "states.dump")])
        if not r.ok:
            if r.invariant_violated:
                raise Infra("the REFERENCE printer/parser of ExprPrint.tla is not a round trip (spec bug): %s/MC_ExprPrint.out\n" % wd + rig.tail(r.out, 30))
            raise Infra(f"MC_ExprPrint failed: {wd}/MC_ExprPrint.out\n" + rig.tail(r.out, 30))
        st = read_dump(wd / "states.dump")
        if len(st) != r.distinct:
            raise Infra(f"dump has {len(st)} states, TLC reported {r.distinct}")
        states += st
        distinct, generated, wall = distinct + r.distinct, generated + r.generated, wall + r.wall
        atoms = {"Var"}
        if not any(x["t"]["k"] in STMT and x["t"]["k"] not in atoms for x in st):
            never.append("MakeStmt")
        if not any(x["t"]["k"] not in STMT and x["t"]["c"] and x["t"]["k"] not in ("CompositeLiteral", "Func") for x in st):
            never.append("GrowExpr")
    n_tree = len({json.dumps(s["t"], sort_keys=True) for s in states})
    lit, rl, lit_all = model_check_lit(ctx)
    if not any(len(x["syms"]) == lit_bounds(ctx)["MaxLen"] for x in lit):
        never.append("GrowPath")
    states += lit
    distinct, generated, wall = distinct + rl.distinct, generated + rl.generated, wall + rl.wall
    seen, uniq = set(), []
    for s in states:
        s.setdefault("lits", [])
        k = json.dumps([s["t"], s["src"], s["lits"]], sort_keys=True)       # one tree may have several spellings
        if k not in seen:
            seen.add(k)
            uniq.append(s)
    states = uniq
    cases = [{"id": i + 1, "mode": "stmt" if s["t"]["k"] in STMT else "expr", "t": s["t"], "pred": s["pred"], "src": s["src"],
              "lits": s["lits"]} for i, s in enumerate(states)]
    pred = {}
    for s in states:
        p = s["pred"]
        for k1, k2 in (p["pairs"] if p["cls"] == "violation" else [("-", "-")] if p["cls"] == "elided" else []):
            key = (p["cls"], k1, k2)
            pred[key] = pred.get(key, 0) + 1
    ctx.cov.update(states=distinct, transitions=generated, mc_wall_s=round(wall, 1), distinct_trees=len(states),
                   operator_space_trees=n_tree,
                   literal_space={"states": rl.distinct, "cases": len(lit), "invalid_source_not_replayed": len(lit_all) - len(lit),
                                  "distinct_paths": len({json.dumps(x["syms"]) for x in lit}),
                                  "spellings": sorted({x["sp"] for x in lit}), "shapes": len({json.dumps(x["shape"], sort_keys=True) for x in lit}),
                                  "bounds": lit_bounds(ctx)},
                   mc_invariants=["RefRoundTrip (Parse(Print(t)) = t; for literals Unquote(Spell(p)) = p)", "InBound"],
                   bounds=json.dumps([{k: sorted(v) if isinstance(v, set) else v for k, v in c.items()} for c in cfgs] + [lit_bounds(ctx)], sort_keys=True),
                   model_counterexample={"what": "implementation-shaped String model: trees for which Parse(IPr(t)) # t (diagnostic, replayed below)",
                                         "trees": sum(1 for s in states if s["pred"]["cls"] != "ok"),
                                         "signatures": sorted("%s %s->%s x%d" % (k + (n,)) for k, n in pred.items())})
    ctx.cov["actions_never_taken"] = never
    return cases, pred


STMT = {"Assignment", "Var", "Send", "Defer", "Go", "Show", "Extends", "Import"}


def judge(ctx, step, obs):
    """Judge observations in parallel shards; returns one entry {id, cls, sigs, obs} per record that is not ok."""
    shard = max(1500, (len(obs) + rig.NCPU - 1) // rig.NCPU)
    parts = [obs[k:k + shard] for k in range(0, max(len(obs), 1), shard)]

    def one(i):
        p = ctx.work / f"{step}_{i}.ndjson"
        rig.write_ndjson(p, parts[i])
        b, _ = rig.trace_judge(ctx, f"{step}_{i}", FAMS, "Trace_ExprPrint", p, timeout=1700)
        for x in b:
            x["obs"] = parts[i][x["k"] - 1]
        return b
    with concurrent.futures.ThreadPoolExecutor(max_workers=min(len(parts), rig.NCPU)) as ex:
        res = list(ex.map(one, range(len(parts))))
    return [x for b in res for x in b]


def case_of(o):
    if o["t"]["k"] == "none":
        return {"id": o["id"], "mode": o["mode"], "text": o["text"]}
    return {"id": o["id"], "mode": o["mode"], "t": o["t"], "pred": o["pred"], "src": o["src"], "lits": o["lits"]}


def sample(o):
    return {"mode": o["mode"], "source": o["text"], "String": o["str"], "T1": brief(o["T1"]), "T2": brief(o["T2"])}


def brief(t):
    # data fields (paths, literal spellings, text) are logged as byte arrays
    sc = [x if isinstance(x, str) else json.dumps(bytes(x).decode("utf-8", "backslashreplace")) for x in t["v"]]
    s = t["k"] + ("(" + ",".join(sc) + ")" if sc else "")
    return s + ("[" + " ".join(brief(c) for c in t["c"]) + "]" if t["c"] else "")


def skey(sig):
    return json.dumps(sig, sort_keys=True)


def run(ctx, only=None):
    extra = ctx.pick(400, 8000)
    cf = ctx.work / "cases.ndjson"
    if only is not None:            # replay: the stored case carries everything (tree, prediction, source)
        cases, pred, extra = list(only.values()), {}, 0
    else:
        cases, pred = model_check(ctx)
    rig.write_ndjson(cf, cases)
    of = ctx.work / "obs.ndjson"
    ctx.drive("c27", cf, of, args=["-extra", str(extra)])
    obs = rig.read_ndjson(of)
    # pass 1: the property clause T1 = T2 (and the diagnostic clauses) on every record
    ent = judge(ctx, "trace", obs)
    by = {}
    for b in ent:
        by.setdefault(b["cls"], []).append(b)
    viol = by.get("violation", [])
    n_model = sum(1 for o in obs if o["t"]["k"] != "none")
    nontriv = {o["text"] for o in obs if o["T1"]["k"] not in ("error", "hostpanic") and o["T1"]["c"]}
    ctx.cov.update(evaluations=len(obs), traces_validated_against_impl=len(obs), model_cases=n_model,
                   corpus_and_random_cases=len(obs) - n_model,
                   distinct_nontrivial=len(nontriv),
                   rule="every tree of the two TLC state spaces (operator trees; literal-carrying constructs x paths x spellings; exhaustive "
                        "within bounds) printed by the reference printer, plus every expression/"
                        "printable statement of the node-coverage corpus, plus seeded random sources; distinct = distinct source text; "
                        "non-trivial = the real parser accepted it and the tree has at least one child",
                   exhaustive=True,
                   samples=[sample(o) for o in rig.pick_samples([o for o in obs if o["T1"]["c"]], 4, ctx.seed)],
                   records_failing_property=len(viol),
                   elided_by_design=len(by.get("elided", [])),
                   ref_undefined=len(by.get("unparsed", [])))
    # pass 2 (= reproduction guard, fresh process): failing cases again, with every sub-expression observed,
    # so that the Trace spec can name the root causes (smallest failing sub-expressions)
    bads, observed = [], set()
    if viol:
        cc = ctx.work / "confirm_cases.ndjson"
        rig.write_ndjson(cc, [case_of(b["obs"]) for b in viol])
        co = ctx.work / "confirm_obs.ndjson"
        ctx.drive("c27", cc, co, args=["-subs"])
        again = [b for b in judge(ctx, "confirm", rig.read_ndjson(co)) if b["cls"] == "violation"]
        ctx.cov["unreproduced"] = len({b["id"] for b in viol} - {b["id"] for b in again})
        groups = {}
        for b in again:
            for sig in b["sigs"]:
                g = groups.setdefault(skey(sig), {"sig": sig, "id": b["id"], "obs": b["obs"], "n": 0})
                g["n"] += 1
                if len(b["obs"]["text"]) < len(g["obs"]["text"]):
                    g["obs"], g["id"] = b["obs"], b["id"]
                if b["obs"]["t"]["k"] != "none":
                    observed.add(("violation", sig["k1"], sig["k2"]))
        for g in groups.values():
            o = g["obs"]
            rc = [s_ for s_ in o["subs"] if s_["T1"]["k"] == g["sig"]["k1"] and s_["T1"] != s_["T2"]]
            g["what"] = dict(sample(o), records=g["n"], root_cause=[{"String": x["str"], "T1": brief(x["T1"]), "T2": brief(x["T2"])} for x in rc[:1]])
            o["subs"] = []
            bads.append(g)
    if by.get("elided"):
        observed.add(("elided", "-", "-"))
    drift = by.get("drift", [])
    dsum = {}
    for b in drift:
        for sig in b["sigs"]:
            d = dsum.setdefault(skey(sig), {"sig": sig, "n": 0, "example": b["obs"]["text"]})
            d["n"] += 1
    # the model prints tokens; the real String of an operator-less assignment glues them ('ab'): compare on the kind only
    norm = lambda S: {(c, k1, "*" if k1 == "Assignment" else k2) for c, k1, k2 in S}
    pred, observed = norm(pred), norm(observed)
    md = {"parser_or_prediction_drift": list(dsum.values()),
          "predicted_not_observed": sorted(map(str, set(pred) - observed)),
          "observed_not_predicted": sorted(map(str, observed - set(pred)))}
    if only is None and (drift or md["predicted_not_observed"] or md["observed_not_predicted"]):
        ctx.cov["model_drift"] = md
    if only is None:
        selftest(ctx, obs)

    def rw(rdir, b):
        (rdir / "case.json").write_text(json.dumps(case_of(b["obs"])))
        (rdir / "obs.json").write_text(json.dumps(b["obs"]))
    return ctx.report(bads, replay_writer=rw, max_violations=25)


def selftest(ctx, obs):
    """Corrupted observations must be rejected: (1) a reparsed tree with two children swapped, (2) a changed
    operator in T2, (3) an unparsable String form."""
    good = [o for o in obs if o["T1"] == o["T2"] and len(o["T1"]["c"]) >= 2 and o["T1"]["c"][0] != o["T1"]["c"][1]
            and not elided(o["T1"])]
    ops = [o for o in good if o["T1"]["k"] in ("BinaryOperator", "UnaryOperator")]
    if not good or not ops:
        raise Infra("sensitivity self-test: no suitable passing observation")
    st = []
    a = json.loads(json.dumps(good[len(good) // 2])); a["id"] = 900001
    a["T2"]["c"][0], a["T2"]["c"][1] = a["T2"]["c"][1], a["T2"]["c"][0]
    st.append(a)
    b = json.loads(json.dumps(ops[len(ops) // 2])); b["id"] = 900002
    b["T2"]["v"][0] = "99"
    st.append(b)
    c = json.loads(json.dumps(good[len(good) // 3])); c["id"] = 900003
    c["T2"] = {"k": "error", "v": [], "c": []}
    st.append(c)
    for o in st:
        o["subs"] = []
    rej = sum(1 for x in judge(ctx, "selftest", st) if x["cls"] == "violation")
    ctx.cov["sensitivity_selftest"] = {"corrupted": len(st), "rejected": rej}
    if rej < len(st):
        raise Infra(f"sensitivity self-test failed: {len(st)} corrupted observations, only {rej} rejected")


def elided(t):
    return t["k"] == "Func" or (t["k"] == "CompositeLiteral" and len(t["c"]) == 2 and t["c"][1]["c"]) or any(elided(c) for c in t["c"])


def replay(ctx, path):
    c = json.loads((path / "case.json").read_text())
    return run(ctx, only={c["id"]: c})


# The defects found by this check were fixed in /repo except those whose repair changes expectations pinned by the
# existing tests; those are listed in known-findings.json (kind "known").  _PROPOSED_BEFORE_FIXES documents the full set.
PROPOSED_KNOWN = []

"""C13 - a failing output writer aborts rendering with the writer's error (DESIGN 7/C13)."""
import json, shutil, rig
from rig import Infra

META = {
    "engine": "Writer",
    "technique": "TLA+ spec of the render/write/panic mechanism (text and piecewise show writes, macro buffers flushed or converted by the Markdown converter, outError raise, unwinding with deferred calls, template recover, VM.Run's return) model-checked by TLC for every well-nested render program of bounded length x every failure index k x {fail once, sticky}; a sensitivity variant (converter error raised as fatalError - the code as found) must violate NoHostPanic; catalogue of concrete templates exported by TLC, each counted (n writes) and then run on the real scriggo for EVERY k in 1..n+1 under 6 writer modes with a recording/failing io.Writer; event logs judged by a TLC trace spec on the reference predicates",
    "level": "model_checking",
    "level_text": "Writer.tla is checked exhaustively (NoWriteAfterFail, ReturnsE, NoHostPanic, NilWithoutFailure, determinism) for all render programs over 9 instructions up to length 4/5 (quick/thorough) plus a 5-instruction alphabet up to 5/6 and a 4-instruction alphabet up to 7 (thorough), <=2 nested macro buffers, optional converter, all k, sticky or not; the variant raising the converter's error as fatal must be rejected. ~580 catalogue templates (52 structural: macros, buffers, render, import/extends, using, Markdown macro/partial/value with a converter, for, defer/recover; 23 contexts x 23 value kinds of the autoescaper) plus seeded random compositions are run on the real code for every failure index and writer mode (error with 0 bytes, short write with error, sticky; with and without io.StringWriter); each event log {reset, write*, return} is validated by TLC: no attempt after an unrecovered failure, Run returned exactly E, no host panic, accepted bytes are a prefix of the fault-free output.",
    "level_note": "Trusted: TLC, the Json module, the driver's writer/converter (they log; no oracle in Go), the template's own recover code signalling recovery through a native function. The model's write pieces are abstract (1 or 2 per show); conformance of the real outcome to the model's outcome set per catalogue shape is diagnostic (model_drift), under both variants of the converter branch. Deferred macro calls that write during unwinding (`defer M()`) are the template's own action and are not in the catalogue.",
    "design_ref": "7/C13",
}
FAMS = ["writer"]
INVS = ["InvNoWriteAfterFail", "InvReturnsE", "InvNoHostPanic", "InvNilWithoutFailure", "InvDeterministic", "InvStepAgrees", "InvFailAtK"]

# Demonstrated on the unchanged /repo (see the report): run.go OpReturn raises the Markdown converter's error as
# fatalError -> Run panics into the host with "fatal error: E" instead of returning E.
PROPOSED_KNOWN = []   # the converter defect found by this check was fixed in /repo (known-findings.json, kind "fixed")

SELFTEST_ID = 900000
ALL_MODES = ["fail", "short", "sticky", "fail+sw", "short+sw", "sticky+sw"]


def mc(ctx, step, conv_fatal, maxlen, maxlenr, maxlenm=0, coverage=False, invs=INVS, export=False):
    wd = ctx.stage(step, FAMS)
    consts = {"Shapes": "<-MCShapes", "ConvFatal": conv_fatal, "MaxLen": maxlen, "MaxLenR": maxlenr, "MaxLenM": maxlenm, "MaxDepth": 2, "Export": export}
    rig.write_cfg(wd / "MC_Writer.cfg", constants=consts, invariants=invs)
    r = ctx.tlc(wd, "MC_Writer", workers=8, timeout=1500, coverage=coverage)
    return wd, r, consts


def model_check(ctx):
    # 1. the mechanism with the converter's error raised as outError satisfies the property for every program, k, stickiness
    maxlen, maxlenr, maxlenm = ctx.pick((4, 5, 0), (5, 6, 7))
    wd, r, consts = mc(ctx, "mc", False, maxlen, maxlenr, maxlenm, export=True)
    if not r.ok:
        raise Infra(f"MC_Writer (outError variant) did not pass: {wd}/MC_Writer.out\n" + rig.tail(r.out, 25))
    ctx.cov.update(states=r.distinct, transitions=r.generated, mc_wall_s=round(r.wall, 1), mc_invariants=INVS,
                   bounds=f"programs over 9 instructions len<={maxlen} + 5-instruction alphabet len<={maxlenr} + 4-instruction alphabet len<={maxlenm} + {ncat_shapes(wd)} catalogue shapes (len<=18), call depth<=2, all k in 1..n+1, failing once or (when the program can recover) sticky")
    if not ctx.quick:
        # action coverage is measured on a smaller instance of the same model (TLC's -coverage is slow)
        wdc, rc, _ = mc(ctx, "mc_cov", False, 3, 4, 0, coverage=True)
        if not rc.ok:
            raise Infra(f"MC_Writer coverage run did not pass: {wdc}/MC_Writer.out")
        ctx.cov["actions_never_taken"] = rc.coverage_zero()
        ctx.cov["actions_coverage_measured_on"] = f"len<=3 / 4 + catalogue shapes: {rc.distinct} states (HostPanic is reachable only in the fatalError variant, which the sensitivity run below exercises)"
    # 2. sensitivity / the code as found: raised as fatalError -> the model must violate NoHostPanic
    wd2, r2, _ = mc(ctx, "mc_fatal", True, 2, 2, invs=["InvNoHostPanic"])
    viol = "InvNoHostPanic" in r2.invariant_violated
    ctx.cov["variant_converter_error_fatal_violates_NoHostPanic"] = viol
    if not viol:
        raise Infra(f"sensitivity: the fatal-converter-error variant was accepted by TLC ({wd2}/MC_Writer.out)")
    # 3. catalogue -> driver (counting run, then every k, every mode)
    allc = rig.read_ndjson(wd / "cases.ndjson")
    return allc, len(allc)


def ncat_shapes(wd):
    return len([c for c in rig.read_ndjson(wd / "cases.ndjson") if c["modelled"]])


def run(ctx, only=None):
    if only is not None:
        # replay of one (template, k, mode): straight to the real code and the judge
        allc = [{"id": only["id"], "name": only["name"], "kind": "replay", "k": only["k"], "mode": only["mode"]}]
        ncat = 0
    else:
        allc, ncat = model_check(ctx)
        if ctx.quick:
            # quick: each template of the context x value cross product under one mode (alternating), everything else under all six
            allc = [dict(c, modes=[["fail"], ["short+sw"], ["sticky"], ["fail+sw"]][c["id"] % 4]) if c["kind"] == "cx" else c for c in allc]
    cases = ctx.work / "cases.ndjson"
    rig.write_ndjson(cases, allc)
    extra = 0 if only is not None else ctx.pick(40, 150)
    obs = ctx.work / "obs.ndjson"
    ctx.drive("c13", cases, obs, args=["-extra", str(extra)], timeout=1200)
    recs = rig.read_ndjson(obs)
    runs = {run["t"]: (r, run) for r in recs for run in r["runs"]}
    failing = [x for x in runs.values() if any(w[2] == 0 for w in x[1]["w"])]
    # sensitivity self-test of the judge, in the same TLC run: one more record holding an uncorrupted log and five corrupted ones
    st = selftest(failing)
    if st:
        body = obs.read_text()          # (first in the file: the judge lists at most 400 bad templates)
        obs.write_text(json.dumps(st, separators=(",", ":")) + "\n" + body)
    elif only is None:
        raise Infra("no failing run to build the sensitivity self-test from")
    bads, stats = judge(ctx, "trace", obs)
    if st:
        b3 = [b for b in bads if b["tid"] == SELFTEST_ID]
        bads = [b for b in bads if b["tid"] != SELFTEST_ID]
        rej = {b["id"] for b in b3}
        ncor = len(st["runs"]) - 1
        ctx.cov["sensitivity_selftest"] = {"corrupted": ncor, "rejected": len(rej - {SELFTEST_ID}), "uncorrupted_accepted": SELFTEST_ID not in rej,
                                           "clauses": sorted({b["sig"]["clause"] for b in b3})}
        if len(rej - {SELFTEST_ID}) < ncor or SELFTEST_ID in rej:
            raise Infra(f"sensitivity self-test: {ncor} corrupted logs, {len(rej - {SELFTEST_ID})} rejected; uncorrupted log rejected: {SELFTEST_ID in rej}")
        stats["runs"] -= len(st["runs"])
        stats["failing"] -= len(st["runs"])
    drift = {"runs_with_model": stats["modelled"], "outside_fatal_variant": stats["driftF"], "outside_outerror_variant": stats["driftO"]}
    variant = [v for v, d in (("fatalError (code as found)", stats["driftF"]), ("outError (proposed fix)", stats["driftO"])) if d == 0]
    ctx.cov.update(
        evaluations=len(runs), traces_validated_against_impl=len(runs), write_calls=sum(len(x[1]["w"]) for x in runs.values()),
        templates=len(recs), catalogue_templates=ncat, random_templates=extra,
        distinct_nontrivial=len({(x[0]["name"], x[1]["k"], x[1]["mode"]) for x in failing}),
        rule="catalogue template (exported by TLC) or seeded random composition x every failure index k in 1..n+1 (n from a counting run of the real template) x writer mode; non-trivial = the writer actually failed in the run; distinct by (template, k, mode)",
        exhaustive=True, runs_recovered_by_template=stats["recovered"], ref_undefined=stats["undefined"],
        model_outcome_conformance=drift, model_variant_matching_code=variant,
        samples=[compact(*x) for x in rig.pick_samples(failing or list(runs.values()), 4, ctx.seed)])
    if only is None and stats["modelled"] and not variant:
        ctx.cov["model_drift"] = "real outcomes outside the model's outcome set under both variants (diagnostic only): " + json.dumps(drift)
    if stats["failing"] != len(failing) or stats["runs"] != len(runs):
        raise Infra(f"bookkeeping: Trace spec judged {stats['runs']} runs / {stats['failing']} failing, the log has {len(runs)} / {len(failing)}")
    # 4. reproduction guard: the failing (template, k, mode) again, in a fresh process
    confirmed = []
    if bads:
        byid = {c["id"]: c for c in allc}
        seen, again = set(), []
        for b in bads:
            key = (b["tid"], b["fk"], b["mode"])
            if key in seen:
                continue
            seen.add(key)
            c = dict(byid.get(key[0], {"id": key[0], "name": b["name"], "kind": "gen"}))
            c.pop("modes", None)
            c.update(k=b["fk"], mode=b["mode"])
            again.append(c)
        rig.write_ndjson(ctx.work / "confirm_cases.ndjson", again)
        co = ctx.work / "confirm_obs.ndjson"
        ctx.drive("c13", ctx.work / "confirm_cases.ndjson", co, timeout=600)
        b2, _ = judge(ctx, "trace_confirm", co)
        keys = {(b["id"], json.dumps(b["sig"], sort_keys=True)) for b in b2}
        confirmed = [b for b in bads if (b["id"], json.dumps(b["sig"], sort_keys=True)) in keys]
        ctx.cov["unreproduced"] = len(bads) - len(confirmed)
        for b in confirmed:
            b["what"] = compact(*runs[b["id"]])
            b["case"] = {"id": b["tid"], "name": b["name"], "k": b["fk"], "mode": b["mode"]}
    ctx.cov["judged_bad_first_pass"] = len(bads)

    def rw(rdir, b):
        (rdir / "case.json").write_text(json.dumps(b.get("case")))
    return ctx.report(confirmed, replay_writer=rw)


def judge(ctx, step, obs):
    """-> (bad runs flattened to one entry per violated clause: {id (run t), tid, name, fk, mode, sig}, counters)"""
    wd = ctx.stage(step, FAMS)
    shutil.copy(obs, wd / "obs.ndjson")
    rig.write_cfg(wd / "Trace_Writer.cfg", init="TInit", next_="TNext", constants={"Shapes": set(), "ConvFatal": False},
                  invariants=["Done"], postcondition="Consumed")
    r = ctx.tlc(wd, "Trace_Writer", workers=1, timeout=1500)
    if not r.ok or not (wd / "bad.ndjson").exists() or not (wd / "stats.ndjson").exists():
        raise Infra(f"Trace_Writer failed: {wd}/Trace_Writer.out\n" + rig.tail(r.out, 25))
    out = []
    for b in rig.read_ndjson(wd / "bad.ndjson"):
        for run in b["runs"]:
            for clause in run["clauses"]:
                out.append({"id": run["t"], "tid": b["id"], "name": b["sig"]["name"], "fk": run["fk"], "mode": run["mode"],
                            "sig": {"fam": "writer", "clause": clause, "path": run["path"]}})
    return out, rig.read_ndjson(wd / "stats.ndjson")[0]


def compact(r, run):
    ws = " ".join(f"{w[0]}{'' if w[2] else '!'}{'c' if w[4] >= 2 else ''}" for w in run["w"])
    return f"[{r['name']} k={run['k']}/{r['n']} {run['mode']}] writes: {ws} -> return {run['kind']}" + \
           (f" ({run['detail']})" if run.get("detail") else "") + (f" recovered={run['rec']}" if run.get("rec") else "")


def selftest(failing):
    """corrupt a real log normalised to the demanded behaviour (nothing after the first failing call, Run returned E,
    no recovery): one template record with five corrupted runs"""
    cand = [x for x in failing if len(x[1]["acc"]) > 0] or failing
    if not cand:
        return None
    r, src = cand[len(cand) // 2]
    src = json.loads(json.dumps(src))
    first = next(i for i, w in enumerate(src["w"]) if w[2] == 0)
    src["w"] = [w[:3] + [0] + w[4:] for w in src["w"][:first + 1]]
    src.update(kind="E", rec=0, detail="")
    src["acc"] = list(r["full"][:max(1, len(src["acc"]))])

    def clone(tid):
        c = json.loads(json.dumps(src))
        c["t"] = tid
        return c
    a = clone(900001); a["kind"] = "nil"                      # Run swallowed the error
    b = clone(900002); b["kind"] = "wrappedE"                 # Run returned a wrapped error
    c = clone(900003); c["kind"] = "hostpanic"                # Run panicked into the host
    d = clone(900004); d["w"].append([3, 3, 1, 0, 0])         # one more write after the failure
    e = clone(900005); e["acc"][0] ^= 1                       # accepted bytes are not the render's
    return dict(r, id=SELFTEST_ID, modelled=False, outsF=[], outsO=[], runs=[clone(SELFTEST_ID), a, b, c, d, e])       # (the first one, uncorrupted, must be accepted)


def replay(ctx, path):
    c = json.loads((path / "case.json").read_text())
    return run(ctx, only=c)

"""C23 - the in-memory Files type is a well-behaved io/fs file system (DESIGN 7/C23)."""
import json, shutil, rig
from concurrent.futures import ThreadPoolExecutor
from rig import Infra

META = {
    "title": "Files is a well-behaved io/fs file system",
    "engine": "FilesFS",
    "technique": "TLA+ state machine of the io/fs contract for one handle (Open/Stat/Read(n)/ReadDir(n)/Close over a tree derived from valid, non-conflicting names) plus an implementation-shaped transcription of files.go; TLC explores every tree x probe name x operation to a fix-point, exports every tree x name x operation sequence as a case; the real scriggo.Files is driven through every case and each logged result is judged by a TLC trace spec that replays the sequence through the reference machine",
    "level": "model_checking",
    "level_text": "The contract (fs.FS, fs.ValidPath, fs.File, fs.ReadDirFile, fs.DirEntry, io.Reader and the property's 'sorted, each child once with the right mode, paginate correctly') is a relation between handle state and logged result (FilesFS.tla, part I). TLC checks for every tree of <=3 (quick) / <=4 (thorough) files over 6 / 8 names, every probe name (files, implied directories, '.', missing and invalid names) and every operation, to a fix-point of the handle state, that the contract is satisfiable and that pages concatenate to the sorted listing with each child once; it checks the transcription of files.go (as written, and with the proposed repair) against the same relation; and it exports every operation sequence of length <=3 / <=4 as a case. Every case is executed on the real Files and every logged result is judged by the reference relation in TLC.",
    "level_note": "Trusted: TLC, the Json module, the Go driver that builds the map, calls Open/Stat/Read/ReadDir/Close/DirEntry methods under recover() and logs (no expected values in Go or Python). Not judged (io/fs does not specify them): results after Close, Read on a directory handle, permission bits, ModTime, the *PathError wrapper ('should'), size of directories. Maps with invalid or conflicting names are outside the property (skipped as ref_undefined). testing/fstest.TestFS is consulted only for confirmed violations (oracle guard).",
    "design_ref": "7/C23",
}

FAMS = ["filesfs"]
MC_INVS = ["MeetsRef", "PosInRange", "PagesConcatenate", "EachChildOnce", "BytesConcatenate", "ListingSorted",
           "ImpliedDirsExist", "FilesOpenAsFiles"]

# Defects demonstrated on the unchanged tree (see the report; the integrator fixes files.go or moves these).
PROPOSED_KNOWN = [
    {"kind": "known", "signature": {"fam": "filesfs", "cause": "entry-mode-of-directory"},
     "what": "files.go filesDir.ReadDir: the DirEntry of an implied subdirectory has mode 0 (IsDir() false, Type() regular) although Stat of the child says directory (entries are built as filesFileInfo{name: name} without mode)"},
    {"kind": "known", "signature": {"fam": "filesfs", "cause": "entry-info-size"},
     "what": "files.go filesDir.ReadDir: DirEntry.Info().Size() of a non-empty file is 0 although Stat of the child gives the content length (entries are built as filesFileInfo{name: name} without data)"},
    {"kind": "known", "signature": {"fam": "filesfs", "cause": "readdir-all-restarts-from-beginning"},
     "what": "files.go filesDir.ReadDir(n<=0) ignores and does not advance the directory offset: after entries were already returned it returns the whole listing again instead of the remaining entries"},
]

# causes of the reference that testing/fstest.TestFS is known to exercise (oracle guard applies to these only)
FSTEST_COVERS = {"entry-mode-of-directory", "entry-mode-of-file", "entry-info-size", "entry-info-name", "entry-name",
                 "entry-info-mode-of-file", "entry-info-mode-of-directory", "entry-info-differs-from-stat",
                 "file-not-opened", "directory-not-opened", "read-wrong-bytes", "invalid-name-opened", "stat-name", "stat-mode", "stat-size"}


def mc(ctx, variant, consts, must_pass):
    wd = ctx.stage("mc_" + variant, FAMS)
    c = dict(consts, Variant=variant)
    rig.write_cfg(wd / "MC_FilesFS.cfg", constants=c, invariants=MC_INVS)
    r = ctx.tlc(wd, "MC_FilesFS", workers=max(2, rig.NCPU // 4), timeout=1500, coverage=(not ctx.quick and variant != "as_written"),
                must_pass=must_pass)
    return wd, r


def judge(ctx, step, obs_path, mode="judge"):
    wd = ctx.stage(step, FAMS)
    shutil.copy(obs_path, wd / "obs.ndjson")
    rig.write_cfg(wd / "Trace_FilesFS.cfg", constants={"Mode": mode}, invariants=["Done"], postcondition="Consumed")
    r = ctx.tlc(wd, "Trace_FilesFS", workers=1, timeout=1500)
    if not r.ok or not (wd / "bad.ndjson").exists() or not (wd / "stats.ndjson").exists():
        raise Infra(f"Trace_FilesFS ({mode}) did not complete cleanly: {wd}/Trace_FilesFS.out\n" + rig.tail(r.out, 25))
    return rig.read_ndjson(wd / "bad.ndjson"), rig.read_ndjson(wd / "stats.ndjson")[0]


def judge_sharded(ctx, step, allobs, nshards, mode="judge"):
    """Judge allobs in nshards parallel TLC processes; returns (bads with 'obs' attached, merged stats)."""
    n = len(allobs)
    size = max(1, (n + nshards - 1) // nshards)
    parts = [allobs[k:k + size] for k in range(0, max(n, 1), size)]

    def one(i):
        p = ctx.work / f"{step}_obs_{i}.ndjson"
        rig.write_ndjson(p, parts[i])
        b, st = judge(ctx, f"{step}_{i}", p, mode)
        for x in b:
            x["obs"] = parts[i][x["k"] - 1]
        return b, st
    with ThreadPoolExecutor(max_workers=nshards) as ex:
        results = list(ex.map(one, range(len(parts))))
    bads, stats = [], {"n": 0, "nbad": 0, "ref_undefined": 0, "causes": {}}
    for b, st in results:
        bads += b
        stats["n"] += st["n"]
        stats["nbad"] += st["nbad"]
        stats["ref_undefined"] += st["ref_undefined"]
        for c in st["causes"]:
            stats["causes"][c["cause"]] = stats["causes"].get(c["cause"], 0) + c["count"]
    return bads, stats


def show(o):
    def ent(e):
        return {"name": rig.b2s(e["name"]), "isdir": e["isdir"], "typ": e["typ"], "size": e["info"]["size"], "child_stat": [e["st"]["mtyp"], e["st"]["size"]]}
    res = []
    for r in o["res"]:
        x = {"op": r["op"] + ("(%d)" % r["n"] if r["op"] in ("read", "readdir") else ""), "err": r["err"]}
        if r["op"] == "read":
            x["data"] = rig.b2s(r["data"])
        if r["op"] == "readdir":
            x["ents"] = [ent(e) for e in r["ents"]]
        if r["op"] == "stat":
            x["info"] = dict(r["info"], name=rig.b2s(r["info"]["name"]))
        res.append(x)
    return {"files": {rig.b2s(f["n"]): rig.b2s(f["d"]) for f in o["files"]}, "open": rig.b2s(o["name"]), "open_err": o["open"]["err"], "results": res}


def case_of(o):
    return {"id": o["id"], "files": o["files"], "name": o["name"], "ops": [{"op": r["op"], "n": r["n"]} for r in o["res"]]}


def nontrivial(o):
    # the handle was opened and at least one Read returned bytes or one ReadDir returned entries
    return any(r.get("data") or r.get("ents") for r in o["res"])


def corruptions(ctx, allobs, seed):
    """Sensitivity self-test inputs: observations that the real code produced and the judge ACCEPTS (checked by a
    first TLC pass over the candidates), each with one logged fact falsified."""
    cands = {
        "ents": [o for o in allobs if any(r["op"] == "readdir" and len(r["ents"]) >= 2 for r in o["res"])],
        "data": [o for o in allobs if any(r["op"] == "read" and r["data"] for r in o["res"])],
        "stat": [o for o in allobs if any(r["op"] == "stat" and r["err"] == "nil" for r in o["res"])],
        "missing": [o for o in allobs if o["open"]["err"] == "notexist"],
    }
    pool = {k: rig.pick_samples(v, 40, seed + i) for i, (k, v) in enumerate(sorted(cands.items()))}
    flat = {o["id"]: o for v in pool.values() for o in v}
    if not flat:
        return []
    b0, _ = judge(ctx, "trace_selftest_pre", write_tmp(ctx, "selftest_pre.ndjson", list(flat.values())))
    # the judge keeps only a few bad records per cause, so re-judge until the survivors are all accepted
    rejected = {b["id"] for b in b0}
    while b0:
        flat = {i: o for i, o in flat.items() if i not in rejected}
        if not flat:
            return []
        b0, _ = judge(ctx, "trace_selftest_pre", write_tmp(ctx, "selftest_pre.ndjson", list(flat.values())))
        rejected |= {b["id"] for b in b0}
    acc = {k: [o for o in v if o["id"] in flat] for k, v in pool.items()}
    out = []

    def clone(o, i):
        c = json.loads(json.dumps(o))
        c["id"] = 900000 + i
        return c
    if acc["ents"]:
        o = clone(acc["ents"][0], 1)                                  # swap two entries: not sorted
        r = next(r for r in o["res"] if r["op"] == "readdir" and len(r["ents"]) >= 2)
        r["ents"][0], r["ents"][1] = r["ents"][1], r["ents"][0]
        out.append(o)
        o = clone(acc["ents"][-1], 2)                                 # an entry is lost between two calls
        k = next(k for k, r in enumerate(o["res"]) if r["op"] == "readdir" and len(r["ents"]) >= 2)
        o["res"] = o["res"][:k + 1]
        o["res"][k]["ents"].pop()
        o["res"].append(dict(json.loads(json.dumps(o["res"][k])), n=-1, ents=[], err="nil"))
        out.append(o)
    if acc["data"]:
        o = clone(acc["data"][0], 3)                                  # flip a byte read
        r = next(r for r in o["res"] if r["op"] == "read" and r["data"])
        r["data"][0] ^= 1
        out.append(o)
    if acc["stat"]:
        o = clone(acc["stat"][0], 4)                                  # flip the directory bit of a Stat
        r = next(r for r in o["res"] if r["op"] == "stat" and r["err"] == "nil")
        r["info"]["isdir"] = 1 - r["info"]["isdir"]
        out.append(o)
    if acc["missing"]:
        o = clone(acc["missing"][0], 5)                               # a missing name opens
        o["open"]["err"] = "nil"
        out.append(o)
    return out


def fstest_guard(ctx, confirmed):
    """Oracle guard (violation path only): testing/fstest.TestFS on the trees of confirmed violations."""
    seen, cases = set(), []
    for b in confirmed:
        if b["sig"]["cause"] in FSTEST_COVERS and b["id"] not in seen:
            seen.add(b["id"])
            cases.append(case_of(b["obs"]))
    verdict = {}
    if cases:
        ci = ctx.work / "fstest_cases.ndjson"
        co = ctx.work / "fstest_obs.ndjson"
        rig.write_ndjson(ci, cases)
        ctx.drive("c23", ci, co, args=["-fstest"])
        verdict = {o["id"]: o for o in rig.read_ndjson(co)}
    kept, disputed, summary = [], [], {}
    for b in confirmed:
        c = b["sig"]["cause"]
        s = summary.setdefault(c, {"fstest_flags_tree": 0, "fstest_silent": 0, "not_exercised_by_fstest": 0})
        v = verdict.get(b["id"])
        if c not in FSTEST_COVERS or v is None:
            s["not_exercised_by_fstest"] += 1
            kept.append(b)
        elif v["fstest"] == "fail":
            s["fstest_flags_tree"] += 1
            b["fstest"] = v["msg"][:300]
            kept.append(b)
        else:
            s["fstest_silent"] += 1
            disputed.append(b)
    ctx.cov["oracle_guard"] = summary
    if disputed:
        ctx.cov["oracle_disputed"] = [{"id": b["id"], "sig": b["sig"], "case": show(b["obs"])} for b in disputed[:5]]
    return kept


def run(ctx, replay_case=None):
    consts = {"Large": not ctx.quick, "MaxFiles": ctx.pick(3, 4), "MaxOps": ctx.pick(3, 4)}
    # 1. model check: the reference machine itself (+ export), the repaired transcription, the transcription as written
    if replay_case is not None:
        return run_cases(ctx, consts, ctx.work / "cases.ndjson", replay_case)
    wd, r = mc(ctx, "ref", consts, must_pass=True)
    ctx.cov.update(states=r.distinct, transitions=r.generated, mc_wall_s=round(r.wall, 1), mc_invariants=MC_INVS,
                   bounds=str(consts) + "; handle state explored to a fix-point (operation sequences of any length); cases exported up to MaxOps operations")
    if not ctx.quick:
        ctx.cov["actions_never_taken"] = r.coverage_zero()
    cases = wd / "cases.ndjson"
    if not cases.exists():
        raise Infra("MC_FilesFS exported no cases.ndjson")
    if replay_case is None:
        _, rf = mc(ctx, "fixed", consts, must_pass=True)
        _, rw = mc(ctx, "as_written", consts, must_pass=False)
        ctx.cov["mc_fixed_model"] = {"states": rf.distinct, "meets_reference": True}
        if rw.ok:
            ctx.cov["mc_as_written_model"] = {"states": rw.distinct, "meets_reference": True}
        elif rw.invariant_violated:
            ctx.cov["mc_as_written_model"] = {"meets_reference": False, "invariants": rw.invariant_violated}
            ctx.cov["model_counterexample"] = {"invariants": rw.invariant_violated, "model": "files.go as written",
                                               "tlc_out": str(ctx.work / "mc_as_written" / "MC_FilesFS.out")}
        else:
            raise Infra("MC_FilesFS (as_written) failed: " + rig.tail(rw.out, 25))
    return run_cases(ctx, consts, cases, None)


def run_cases(ctx, consts, cases, replay_case):
    # 2. replay into the real code
    extra = ctx.pick(3000, 60000)
    if replay_case is not None:
        rig.write_ndjson(cases, [replay_case])
        extra = 0
    obs = ctx.work / "obs.ndjson"
    ctx.drive("c23", cases, obs, args=["-extra", str(extra)])
    allobs = rig.read_ndjson(obs)
    ctx.cov.update(evaluations=len(allobs), traces_validated_against_impl=len(allobs),
                   operations_judged=sum(len(o["res"]) for o in allobs),
                   distinct_nontrivial=len({json.dumps([o["files"], o["name"], o["res"]], sort_keys=True) for o in allobs if nontrivial(o)}),
                   rule="every tree x probe name x operation sequence exported by TLC (exhaustive within the bounds) plus seeded random trees (depth <=3, dotted/Unicode names, empty files) with up to 8 operations; non-trivial = a Read returned bytes or a ReadDir returned entries",
                   exhaustive=True, samples=[show(o) for o in rig.pick_samples([o for o in allobs if nontrivial(o)] or allobs, 3, ctx.seed)])
    # 3. judge
    nsh = 1 if len(allobs) < 20000 else ctx.pick(6, 10)
    bads, stats = judge_sharded(ctx, "trace", allobs, nsh)
    ctx.cov.update(judged_bad_first_pass=stats["nbad"], ref_undefined=stats["ref_undefined"], rejected_by_cause=stats["causes"])
    # 4. reproduction guard (fresh process), then oracle guard
    confirmed = []
    if bads:
        byid = {}
        for b in bads:
            byid.setdefault(b["id"], case_of(b["obs"]))
        cc, co = ctx.work / "confirm_cases.ndjson", ctx.work / "confirm_obs.ndjson"
        rig.write_ndjson(cc, list(byid.values()))
        ctx.drive("c23", cc, co)
        b2, _ = judge(ctx, "trace_confirm", co)
        again = {(b["id"], b["sig"]["cause"]) for b in b2}
        confirmed = [b for b in bads if (b["id"], b["sig"]["cause"]) in again]
        ctx.cov["unreproduced"] = len(bads) - len(confirmed)
        confirmed = fstest_guard(ctx, confirmed)
        for b in confirmed:
            b["what"] = json.dumps(show(b["obs"]), ensure_ascii=False)
    # 5. model drift (diagnostic): which transcription predicts the observations (sample of the exported cases)
    if replay_case is None:
        det = [o for o in allobs if o["id"] < 1000000]
        sample = rig.pick_samples(det, ctx.pick(4000, 20000), ctx.seed)
        drift = {}
        for variant in ("as_written", "fixed"):
            _, st = judge(ctx, "drift_" + variant, write_tmp(ctx, "drift_obs.ndjson", sample), mode=variant)
            drift[variant] = st["nbad"]
        ctx.cov["model_drift"] = {"sampled": len(sample), "mismatch_as_written_model": drift["as_written"], "mismatch_fixed_model": drift["fixed"]}
    # 6. sensitivity self-test: falsified copies of accepted observations must be rejected
    st = corruptions(ctx, allobs, ctx.seed) if replay_case is None else []
    if replay_case is None:
        if not st:
            raise Infra("sensitivity self-test: no accepted observation to corrupt")
        b3, _ = judge(ctx, "trace_selftest", write_tmp(ctx, "selftest_obs.ndjson", st))
        rej = {b["id"] for b in b3}
        ctx.cov["sensitivity_selftest"] = {"corrupted": len(st), "rejected": len(rej), "causes": sorted({b["sig"]["cause"] for b in b3})}
        if len(rej) < len(st):
            raise Infra(f"sensitivity self-test failed: {len(st)} corrupted observations, only {len(rej)} rejected")

    def rw(rdir, b):
        (rdir / "case.json").write_text(json.dumps(case_of(b["obs"])))
        (rdir / "obs.json").write_text(json.dumps(b["obs"]))
    return ctx.report(confirmed, replay_writer=rw)


def write_tmp(ctx, name, recs):
    p = ctx.work / name
    rig.write_ndjson(p, recs)
    return p


def replay(ctx, path):
    return run(ctx, replay_case=json.loads((path / "case.json").read_text()))

"""C23 - the in-memory Files type is a well-behaved io/fs file system (DESIGN 7/C23)."""
import json, os, random, re, shutil, rig
from pathlib import Path
from concurrent.futures import ThreadPoolExecutor
from rig import Infra

META = {
    "title": "Files is a well-behaved io/fs file system",
    "engine": "FilesFS",
    "technique": "TLA+ state machine of the io/fs contract for one handle (Open/Stat/Read(n)/ReadDir(n)/Close over a tree derived from valid, non-conflicting names) plus an implementation-shaped transcription of files.go; TLC explores every tree x probe name x operation to a fix-point, exports every tree x name x operation sequence as a case; the real scriggo.Files is driven through every case and each logged result is judged by a TLC trace spec that replays the sequence through the reference machine",
    "level": "model_checking",
    "level_text": "The contract (fs.FS, fs.ValidPath, fs.File, fs.ReadDirFile, fs.DirEntry, io.Reader and the property's 'sorted, each child once with the right mode, paginate correctly') is a relation between handle state and logged result (FilesFS.tla, part I). TLC checks for every tree of <=3 (quick) / <=4 (thorough) files over 6 / 7 names, every probe name (files, implied directories, '.', missing and invalid names) and every operation, to a fix-point of the handle state, that the contract is satisfiable and that pages concatenate to the sorted listing with each child once; it checks the transcription of files.go (as written, and with the proposed repair) against the same relation; and it exports the operation sequences (all of length <=2 over the full alphabet, <=3 / <=4 over the state-changing operations, <=3 / <=5 over the paging operations; maximal ones only, shorter ones are their prefixes) for every tree and name as cases. Every case is executed on the real Files and every logged result is judged by the reference relation in TLC.",
    "level_note": "Trusted: TLC, the Json module, the Go driver that builds the map, calls Open/Stat/Read/ReadDir/Close/DirEntry methods under recover() and logs (no expected values in Go or Python). Not judged (io/fs does not specify them): results after Close, Read on a directory handle, permission bits, ModTime, the *PathError wrapper ('should'), size of directories. Maps with invalid or conflicting names are outside the property (skipped as ref_undefined). testing/fstest.TestFS is consulted only for confirmed violations (oracle guard).",
    "design_ref": "7/C23",
}

FAMS = ["filesfs"]
MC_INVS = ["MeetsRef", "PosInRange", "PagesConcatenate", "EachChildOnce", "BytesConcatenate", "ListingSorted",
           "ImpliedDirsExist", "FilesOpenAsFiles"]

# Defects demonstrated on the unchanged tree (see the report; the integrator fixes files.go or moves these).
PROPOSED_KNOWN = []   # both root causes found by this check were fixed in /repo (known-findings.json, kind "fixed")

# causes of the reference that testing/fstest.TestFS is known to exercise (oracle guard applies to these only)
FSTEST_COVERS = {"entry-mode-of-directory", "entry-mode-of-file", "entry-info-size", "entry-info-name", "entry-name",
                 "entry-info-mode-of-file", "entry-info-mode-of-directory", "entry-info-differs-from-stat",
                 "file-not-opened", "directory-not-opened", "read-wrong-bytes", "invalid-name-opened", "stat-name", "stat-mode", "stat-size"}


FSTEST_MSG = re.compile(r"mismatch|IsDir\(\)")


def mc(ctx, variant, consts, must_pass):
    wd = ctx.stage("mc_" + variant, FAMS)
    rig.write_cfg(wd / "MC_FilesFS.cfg", constants=dict(consts, Variant=variant), invariants=MC_INVS)
    r = ctx.tlc(wd, "MC_FilesFS", workers=2, timeout=1500, coverage=(not ctx.quick and variant == "fixed"), must_pass=must_pass)
    return wd, r


def judge(ctx, step, obs_path, mode="judge", keep=5):
    """One TLC run of Trace_FilesFS over obs_path; returns (bad records, stats record)."""
    wd = ctx.stage(step, FAMS)
    if Path(obs_path).resolve() != (wd / "obs.ndjson").resolve():
        shutil.copy(obs_path, wd / "obs.ndjson")
    for f in ("bad.ndjson", "stats.ndjson"):
        if (wd / f).exists():
            (wd / f).unlink()
    rig.write_cfg(wd / "Trace_FilesFS.cfg", constants={"Mode": mode, "KeepPerCause": keep}, invariants=["Done"], postcondition="Consumed")
    r = ctx.tlc(wd, "Trace_FilesFS", workers=1, timeout=1500, heap="3g")
    if not r.ok or not (wd / "bad.ndjson").exists() or not (wd / "stats.ndjson").exists():
        raise Infra(f"Trace_FilesFS ({mode}) did not complete cleanly: {wd}/Trace_FilesFS.out\n" + rig.tail(r.out, 25))
    return rig.read_ndjson(wd / "bad.ndjson"), rig.read_ndjson(wd / "stats.ndjson")[0]


def judge_lines(ctx, step, lines, mode="judge", keep=5):
    """lines: raw ndjson lines of observations.  Bad records get the parsed observation attached."""
    wd = ctx.stage(step, FAMS)
    (wd / "obs.ndjson").write_text("".join(lines))
    b, st = judge(ctx, step, wd / "obs.ndjson", mode, keep)
    for x in b:
        x["obs"] = json.loads(lines[x["k"] - 1])
    return b, st


def merge_stats(sts):
    out = {"n": 0, "nbad": 0, "ref_undefined": 0, "causes": {}}
    for st in sts:
        out["n"] += st["n"]
        out["nbad"] += st["nbad"]
        out["ref_undefined"] += st["ref_undefined"]
        for c in st["causes"]:
            out["causes"][c["cause"]] = out["causes"].get(c["cause"], 0) + c["count"]
    return out


def show(o):
    def ent(e):
        return {"name": rig.b2s(e["name"]), "isdir": e["isdir"], "typ": e["typ"], "size": e["info"]["size"], "child_stat": [e["st"]["mtyp"], e["st"]["size"]]}
    res = []
    for r in o["res"]:
        x = {"op": r["op"] + ("(%d)" % r["n"] if r["op"] in ("read", "readdir") else ""), "err": r["err"]}
        if r["op"] == "read":
            x["data"] = rig.b2s(r["data"])
        if r["op"] == "readdir":
            x["ents"] = [ent(e) for e in r["ents"]]
        if r["op"] == "stat":
            x["info"] = dict(r["info"], name=rig.b2s(r["info"]["name"]))
        res.append(x)
    return {"files": {rig.b2s(f["n"]): rig.b2s(f["d"]) for f in o["files"]}, "open": rig.b2s(o["name"]), "open_err": o["open"]["err"], "results": res}


def case_of(o):
    return {"id": o["id"], "files": o["files"], "name": o["name"], "ops": [{"op": r["op"], "n": r["n"]} for r in o["res"]]}


def nontrivial(o):
    # the handle was opened and at least one Read returned bytes or one ReadDir returned entries
    return any(r.get("data") or r.get("ents") for r in o["res"])



def is_nontrivial_line(line):
    # a Read returned bytes or a ReadDir returned entries (evidence counting only)
    return '"ents":[{' in line or NONEMPTY_DATA.search(line) is not None


NONEMPTY_DATA = re.compile(r'"data":\[\d')
ID_FIELD = re.compile(r'"id":\d+,')


def corruptions(cands, accepted_ids, entry_only_ids):
    """Sensitivity self-test inputs: real observations, each with one logged fact falsified, paired with the causes
    the judge must report.  The falsified step is the FIRST step of the sequence (so nothing before it can be the
    reason of the rejection) or the observation was accepted by the judge before the corruption."""
    acc = [o for o in cands if o["id"] in accepted_ids and all(r["op"] != "close" for r in o["res"])]
    # (names and paging are judged before entry attributes: an observation rejected only for an attribute of an
    #  entry - the known findings - still has an accepted list of names to corrupt)
    first_ents = [o for o in cands if (o["id"] in accepted_ids or o["id"] in entry_only_ids)
                  and o["res"] and o["res"][0]["op"] == "readdir" and len(o["res"][0]["ents"]) >= 2]
    data = [o for o in acc if any(r["op"] == "read" and r["data"] for r in o["res"])]
    stat = [o for o in acc if any(r["op"] == "stat" and r["err"] == "nil" for r in o["res"])]
    missing = [o for o in acc if o["open"]["err"] == "notexist"]
    out = []

    def clone(o, i):
        c = json.loads(json.dumps(o))
        c["id"] = 900000 + i
        return c
    if first_ents:
        o = clone(first_ents[0], 1)                                   # swap two entries: not sorted
        r = o["res"][0]
        r["ents"][0], r["ents"][1] = r["ents"][1], r["ents"][0]
        out.append((o, {"readdir-all-not-sorted", "readdir-page-not-sorted"}))
        o = clone(first_ents[-1], 2)                                  # the same child listed twice
        r = o["res"][0]
        r["ents"][1] = json.loads(json.dumps(r["ents"][0]))
        out.append((o, {"readdir-all-wrong-entries", "readdir-page-wrong-entries"}))
        o = clone(first_ents[len(first_ents) // 2], 3)                # a page longer than asked / an entry dropped
        r = o["res"][0]
        if r["n"] > 0:
            r["n"] = len(r["ents"]) - 1
            out.append((o, {"readdir-more-than-n"}))
        else:
            r["ents"].pop()
            out.append((o, {"readdir-all-wrong-entries"}))
    if data:
        o = clone(data[0], 4)                                         # flip a byte read
        r = next(r for r in o["res"] if r["op"] == "read" and r["data"])
        r["data"][0] ^= 1
        out.append((o, {"read-wrong-bytes"}))
    if stat:
        o = clone(stat[0], 5)                                         # flip the directory bit of a Stat
        r = next(r for r in o["res"] if r["op"] == "stat" and r["err"] == "nil")
        r["info"]["isdir"] = 1 - r["info"]["isdir"]
        out.append((o, {"stat-mode"}))
    if missing:
        o = clone(missing[0], 6)                                      # a missing / invalid name opens
        o["open"]["err"] = "nil"
        out.append((o, {"missing-name-opened", "invalid-name-opened"}))
    return out


def fstest_guard(ctx, confirmed):
    """Oracle guard (violation path only): testing/fstest.TestFS on the trees of confirmed violations."""
    seen, cases = set(), []
    for b in confirmed:
        if b["sig"]["cause"] in FSTEST_COVERS and b["id"] not in seen:
            seen.add(b["id"])
            cases.append(case_of(b["obs"]))
    verdict = {}
    if cases:
        ci = ctx.work / "fstest_cases.ndjson"
        co = ctx.work / "fstest_obs.ndjson"
        rig.write_ndjson(ci, cases)
        ctx.drive("c23", ci, co, args=["-fstest"])
        verdict = {o["id"]: o for o in rig.read_ndjson(co)}
    kept, disputed, summary = [], [], {}
    for b in confirmed:
        c = b["sig"]["cause"]
        s = summary.setdefault(c, {"fstest_flags_tree": 0, "fstest_silent": 0, "not_exercised_by_fstest": 0})
        v = verdict.get(b["id"])
        if c not in FSTEST_COVERS or v is None:
            s["not_exercised_by_fstest"] += 1
            kept.append(b)
        elif v["fstest"] == "fail":
            s["fstest_flags_tree"] += 1
            if FSTEST_MSG.search(v["msg"]) and c.startswith("entry-"):
                s["fstest_reports_entry_mismatch"] = s.get("fstest_reports_entry_mismatch", 0) + 1
            b["fstest"] = v["msg"][:300]
            kept.append(b)
        else:
            s["fstest_silent"] += 1
            disputed.append(b)
    ctx.cov["oracle_guard"] = summary
    if disputed:
        ctx.cov["oracle_disputed"] = [{"id": b["id"], "sig": b["sig"], "case": show(b["obs"])} for b in disputed[:5]]
    return kept



def run(ctx, replay_case=None):
    consts = {"Large": not ctx.quick, "MaxFiles": ctx.pick(3, 4), "FullOps": 2, "MaxOps": ctx.pick(3, 4), "DeepOps": ctx.pick(3, 5)}
    # several TLC processes run side by side: keep each JVM's collector small (inherited by ctx.tlc's subprocess)
    os.environ["JAVA_TOOL_OPTIONS"] = "-XX:ParallelGCThreads=2 -XX:CICompilerCount=2"
    pool = ThreadPoolExecutor(max_workers=ctx.pick(8, 10))
    obs = ctx.work / "obs.ndjson"
    bg = {}
    if replay_case is not None:
        cases = ctx.work / "cases.ndjson"
        rig.write_ndjson(cases, [replay_case])
        ctx.drive("c23", cases, obs)
    else:
        # 1. model check: the reference machine itself (+ case export); in the background the transcription of
        #    files.go as written (diagnostic) and with the proposed repair (must meet the reference)
        ctx.build_driver("c23")
        wd, r = mc(ctx, "ref", consts, must_pass=True)
        bg["fixed"] = pool.submit(mc, ctx, "fixed", consts, True)
        bg["as_written"] = pool.submit(mc, ctx, "as_written", consts, False)
        ctx.cov.update(states=r.distinct, transitions=r.generated, mc_wall_s=round(r.wall, 1), mc_invariants=MC_INVS,
                       bounds=str(consts) + "; MC: handle state explored to a fix-point (operation sequences of any length); replay: the maximal sequences among all sequences of <= FullOps operations, <= MaxOps state-changing operations (ReadDir(-1|1|2)/Read(1|2)/Close), <= DeepOps paging operations (every shorter sequence is a prefix of one of them)")
        cases = wd / "cases.ndjson"
        if not cases.exists():
            raise Infra("MC_FilesFS exported no cases.ndjson")
        # 2. replay into the real code
        ctx.drive("c23", cases, obs, args=["-extra", str(ctx.pick(2000, 20000))])
    # 3. judge (sharded, parallel TLC processes); python only counts and splits lines
    lines = obs.read_text().splitlines(keepends=True)
    n = len(lines)
    nontriv = {ID_FIELD.sub("", ln) for ln in lines if is_nontrivial_line(ln)}
    rnd = random.Random(ctx.seed)
    ctx.cov.update(evaluations=n, traces_validated_against_impl=n, distinct_nontrivial=len(nontriv),
                   operations_judged=sum(ln.count('"op":') for ln in lines),
                   rule="every tree x probe name x operation sequence exported by TLC (exhaustive within the bounds) plus seeded random trees (depth <=3, dotted/Unicode names, empty files, <=6 files) with up to 8 operations; non-trivial = a Read returned bytes or a ReadDir returned entries",
                   exhaustive=True)
    del nontriv
    nsh = max(1, min(ctx.pick(6, 8), n // 6000))
    size = max(1, (n + nsh - 1) // nsh)
    futs = [pool.submit(judge_lines, ctx, f"trace_{i}", lines[k:k + size]) for i, k in enumerate(range(0, max(n, 1), size))]
    det = [ln for ln in lines if obs_id(ln) < 1000000000]      # the cases exported by TLC (not the seeded random ones)
    if replay_case is None:
        # model drift (diagnostic): which transcription of files.go predicts the observations (sample of exported cases)
        sample = rnd.sample(det, min(len(det), ctx.pick(1000, 20000)))
        dfut = pool.submit(judge_lines, ctx, "drift", sample, "drift")
        # candidates for the sensitivity self-test (judged first: only accepted observations are corrupted)
        cand = rnd.sample(det, min(len(det), 500))
    results = [f.result() for f in futs]
    bads = [b for bs, _ in results for b in bs]
    stats = merge_stats([st for _, st in results])
    ctx.cov.update(judged_bad_first_pass=stats["nbad"], ref_undefined=stats["ref_undefined"], rejected_by_cause=stats["causes"])
    sm = [json.loads(ln) for ln in rnd.sample(lines, min(n, 400))]
    ctx.cov["samples"] = [show(o) for o in rig.pick_samples([o for o in sm if nontrivial(o)] or sm, 3, ctx.seed)]
    # 4. reproduction guard (fresh process), then oracle guard (fstest, violation path only).  The same TLC run
    #    also judges the self-test candidates exhaustively (keep=all), to know which of them are accepted.
    confirmed, colines = [], []
    if bads:
        byid = {}
        for b in bads:
            byid.setdefault(b["id"], case_of(b["obs"]))
        cc, co = ctx.work / "confirm_cases.ndjson", ctx.work / "confirm_obs.ndjson"
        rig.write_ndjson(cc, list(byid.values()))
        ctx.drive("c23", cc, co)
        colines = co.read_text().splitlines(keepends=True)
    cand = cand if replay_case is None else []
    if colines or cand:
        b2, _ = judge_lines(ctx, "trace_confirm", colines + cand, keep=1000000)
        again = {(b["id"], b["sig"]["cause"]) for b in b2 if b["k"] <= len(colines)}
        dead = {b["k"] - 1 - len(colines): b["sig"]["cause"] for b in b2 if b["k"] > len(colines)}
        acc_ids = {obs_id(ln) for i, ln in enumerate(cand) if i not in dead}
        entry_ids = {obs_id(ln) for i, ln in enumerate(cand) if dead.get(i, "").startswith("entry-")}
        confirmed = [b for b in bads if (b["id"], b["sig"]["cause"]) in again]
        ctx.cov["unreproduced"] = len(bads) - len(confirmed)
        confirmed = fstest_guard(ctx, confirmed)
        for b in confirmed:
            b["what"] = json.dumps(show(b["obs"]), ensure_ascii=False)
    if replay_case is None:
        dc = {c["cause"]: c["count"] for c in dfut.result()[1]["causes"]}
        ctx.cov["model_drift"] = {"sampled": len(sample),
                                  "mismatch_with_model_of_files_go_as_written": dc.get("drift-both", 0) + dc.get("drift-as_written", 0),
                                  "mismatch_with_model_of_proposed_fix": dc.get("drift-both", 0) + dc.get("drift-fixed", 0)}
        # 5. sensitivity self-test: falsified copies of accepted observations must be rejected
        st = corruptions([json.loads(ln) for ln in cand], acc_ids, entry_ids)
        selftest_error = None
        if not st:
            selftest_error = "sensitivity self-test: no observation to corrupt"
        else:
            b3, _ = judge(ctx, "trace_selftest", write_tmp(ctx, "selftest_obs.ndjson", [o for o, _ in st]), keep=1000000)
            got = {b["id"]: b["sig"]["cause"] for b in b3}
            hit = [o["id"] for o, want in st if got.get(o["id"]) in want]
            ctx.cov["sensitivity_selftest"] = {"corrupted": len(st), "rejected": len(hit), "causes": sorted(set(got.values()))}
            if len(hit) < len(st):
                selftest_error = f"sensitivity self-test failed: {len(st)} corrupted observations, {len(hit)} rejected for the expected reason: {got}"
        # 6. background model checks
        _, rf = bg["fixed"].result()
        _, rw_ = bg["as_written"].result()
        ctx.cov["mc_model_of_proposed_fix"] = {"states": rf.distinct, "meets_reference": True}
        if not ctx.quick:
            ctx.cov["actions_never_taken"] = rf.coverage_zero()
        if rw_.ok:
            ctx.cov["mc_model_of_files_go_as_written"] = {"states": rw_.distinct, "meets_reference": True}
        elif rw_.invariant_violated:
            ctx.cov["mc_model_of_files_go_as_written"] = {"meets_reference": False, "invariants": rw_.invariant_violated}
            ctx.cov["model_counterexample"] = {"invariants": rw_.invariant_violated, "model": "files.go as written (diagnostic only)",
                                               "tlc_out": str(ctx.work / "mc_as_written" / "MC_FilesFS.out")}
        else:
            raise Infra("MC_FilesFS (as_written) failed: " + rig.tail(rw_.out, 25))
    pool.shutdown(wait=True)

    def rw(rdir, b):
        (rdir / "case.json").write_text(json.dumps(case_of(b["obs"])))
        (rdir / "obs.json").write_text(json.dumps(b["obs"]))
    rc = ctx.report(confirmed, replay_writer=rw)
    if replay_case is None and selftest_error and rc == 0:
        raise Infra(selftest_error)      # (with a confirmed violation the verdict stands; the self-test result is in evidence)
    return rc


def obs_id(line):
    return int(ID_FIELD.search(line).group(0)[5:-1])


def write_tmp(ctx, name, recs):
    p = ctx.work / name
    rig.write_ndjson(p, recs)
    return p


def replay(ctx, path):
    return run(ctx, replay_case=json.loads((path / "case.json").read_text()))

"""C28 - cloning a tree gives an independent equal copy; walking visits every node (DESIGN 7/C28)."""
import json, concurrent.futures
import rig
from rig import Infra

LEVEL = "exploration"
META = {
    "title": "AstTree",
    "engine": "AstTree",
    "technique": "schema of package ast obtained by reflection at check time; TLA+ reference of Clone (fresh identities, equal shape) and Walk "
                 "(pre-order, each node once) model-checked by TLC on every small tree over the schema's field shapes; corpus of templates "
                 "covering every node type parsed by the real parser; for every node of every tree the pointer graphs of the subtree, of its "
                 "clone and of the original after mutating the clone, and the Visit callbacks of Walk/Inspect, are judged by a TLC Trace spec",
    "level": "exploration",
    "level_text": "Exploration: the trees judged on the real code come from a hand-written corpus (every ast node type except those listed in "
                  "kinds_not_covered), each node of each tree being the root of one observation per API. The TLA+ part states the property "
                  "(isomorphic, pointer-disjoint, original unchanged after mutating the copy; every node visited exactly once) and is "
                  "model-checked on all trees of <= 3 (quick) / 4 (thorough) nodes over the reflected schema, including rejection of a "
                  "shallow clone and of a walk that drops a node.",
    "level_note": "Trusted: TLC, Json module, the reflection-based graph logger/mutator of the driver (no oracle), go/parser for the cross-check "
                  "that every struct type of ast.go is in the schema. Fields filled by the type checker (IR, Upvars, Reflect) are outside the "
                  "graphs. Expanded trees of other files (Import/Extends/Render .Tree) must be cloned but are not required to be walked. "
                  "Callback order and typed-nil callbacks are diagnostic only.",
    "design_ref": "7/C28",
}
FAMS = ["asttree"]

def _walk(kind, field, extra=""):
    return [{"kind": "known", "signature": {"fam": "asttree", "op": op, "cause": "not-visited", "kind": kind, "field": field},
             "what": "astutil.%s never visits %s.%s%s" % (op, kind, field, extra)} for op in ("Walk", "Inspect")]


def _panic(ops, kind, why):
    return [{"kind": "known", "signature": {"fam": "asttree", "op": op, "cause": "panic", "kind": kind},
             "what": "astutil.%s panics on %s: %s" % (op, kind, why)} for op in ops]


# Defects of astutil demonstrated by this check on the unchanged tree (minimal inputs and fixes in the report).
_PROPOSED_BEFORE_FIXES = (
    _walk("Call", "Func", " (the called function expression; walk_test.go pins this)")
    + _walk("Func", "Ident") + _walk("Func", "Type") + _walk("Func", "Body", " (the Block node itself; only its children are walked)")
    + _walk("FuncType", "Parameters", " identifiers (only parameter types are walked)")
    + _walk("FuncType", "Result", " identifiers (only result types are walked)")
    + _walk("TypeAssertion", "Type") + _walk("Raw", "Text")
    + _walk("Switch", "LeadingText") + _walk("TypeSwitch", "LeadingText") + _walk("Select", "LeadingText")
    + _walk("Import", "Ident") + _walk("Import", "For")
    + _panic(("Walk", "Inspect"), "StructType", "no case in Walk's type switch")
    + _panic(("Walk", "Inspect"), "TypeDeclaration", "no case in Walk's type switch")
    + _panic(("CloneNode", "CloneExpression"), "StructType", "handled in CloneNode after 'case ast.Expression', which sends it to CloneExpression that has no case for it")
    + _panic(("CloneNode",), "TypeDeclaration", "no case in CloneNode's type switch")
    + _panic(("CloneNode",), "Return", "no case in CloneNode's type switch")
    + _panic(("CloneNode",), "Break", "CloneExpression(n.Label).(*ast.Identifier) on a nil label (break without label)")
    + _panic(("CloneNode",), "Continue", "CloneExpression(n.Label).(*ast.Identifier) on a nil label (continue without label)")
    + _panic(("CloneNode",), "Label", "CloneNode(n.Statement) on a label without statement (label at the end of a block)")
    + _panic(("CloneNode",), "Block", "ClonePosition(nil): the blocks of a template {% if %} have no position")
    + _panic(("CloneNode",), "Assignment", "the loop over n.Rhs stores into variables[i] (the Lhs slice): index out of range when len(Rhs) > len(Lhs), e.g. 'for range x'")
    + [{"kind": "known", "signature": {"fam": "asttree", "op": "*", "cause": "copy-differs-children", "kind": "Assignment", "field": "Lhs"},
        "what": "CloneNode(*ast.Assignment): the loop over n.Rhs stores into variables[i] instead of values[i] - the clone's Lhs holds clones of the Rhs and its Rhs is all nil"},
       {"kind": "known", "signature": {"fam": "asttree", "op": "*", "cause": "copy-differs-scalar", "kind": "CompositeLiteral", "field": "parenthesis"},
        "what": "CloneExpression(*ast.CompositeLiteral) returns before SetParenthesis: the parenthesis count of ([]int{1}) is lost"}]
)


def mc(ctx, wd):
    cfgs = [{"MaxNodes": 3, "MaxList": 2, "ChildFields": 1}] if ctx.quick else \
           [{"MaxNodes": 4, "MaxList": 2, "ChildFields": 1}, {"MaxNodes": 3, "MaxList": 2, "ChildFields": 2}]
    invs = ["WalkIsPreOrder", "WalkEachOnce", "CloneAccepted", "ShallowRejected", "DroppedRejected", "Bounded"]
    distinct, generated, wall, never = 0, 0, 0.0, []
    for consts in cfgs:
        rig.write_cfg(wd / "MC_AstTree.cfg", constants=consts, invariants=invs)
        r = ctx.tlc(wd, "MC_AstTree", workers=rig.NCPU, timeout=1700, coverage=not ctx.quick, must_pass=True)
        distinct, generated, wall = distinct + r.distinct, generated + r.generated, wall + r.wall
        never += r.coverage_zero() if not ctx.quick else []
    ctx.cov.update(states=distinct, transitions=generated, mc_wall_s=round(wall, 1), mc_invariants=invs, bounds=json.dumps(cfgs))
    if not ctx.quick:
        ctx.cov["actions_never_taken"] = sorted(set(never))


def judge(ctx, step, obs):
    shard = max(40, (len(obs) + rig.NCPU - 1) // rig.NCPU)
    parts = [obs[k:k + shard] for k in range(0, max(len(obs), 1), shard)]

    def one(i):
        p = ctx.work / f"{step}_{i}.ndjson"
        rig.write_ndjson(p, parts[i])
        b, _ = rig.trace_judge(ctx, f"{step}_{i}", FAMS, "Trace_AstTree", p, timeout=1700)
        for x in b:
            x["obs"] = parts[i][x["k"] - 1]
        return b
    with concurrent.futures.ThreadPoolExecutor(max_workers=min(len(parts), rig.NCPU)) as ex:
        return [x for b in ex.map(one, range(len(parts))) for x in b]


def skey(sig):
    return json.dumps(sig, sort_keys=True)


def what(o, sig):
    return {"template": o["tree"], "api": o["api"], "subtree_root": o["kind"], "subtree_nodes": len(o["orig"]["nodes"]),
            "kinds": [n["k"] for n in o["orig"]["nodes"]][:12], "clone": o["clone"], "walk": o["walk"],
            "wlog": o["wlog"][:40], "signature": sig}


def groups_of(entries):
    g = {}
    for b in entries:
        for sig in b["sigs"]:
            x = g.setdefault(skey(sig), {"sig": sig, "id": b["id"], "obs": b["obs"], "n": 0})
            x["n"] += 1
            if len(b["obs"]["orig"]["nodes"]) < len(x["obs"]["orig"]["nodes"]):
                x["obs"], x["id"] = b["obs"], b["id"]
    return g


def run(ctx, only=None):
    wd = ctx.stage("mc", FAMS)
    empty = ctx.work / "empty.ndjson"
    empty.write_text("")
    ctx.drive("c28", empty, wd / "schema.ndjson", args=["-schema", "-repo", str(rig.REPO)])
    schema = rig.read_ndjson(wd / "schema.ndjson")
    if only is None:
        mc(ctx, wd)
    cf = ctx.work / "cases.ndjson"
    ctx.drive("c28", empty, cf, args=["-names"])
    cases = rig.read_ndjson(cf)
    if only is not None:
        cases = [c for c in cases if c["name"] in only]
        rig.write_ndjson(cf, cases)
    of = ctx.work / "obs.ndjson"
    ctx.drive("c28", cf, of)
    obs = rig.read_ndjson(of)
    bad_parse = [o for o in obs if o["api"] == "parse"]
    if bad_parse:
        raise Infra("corpus template rejected by the parser: " + json.dumps(bad_parse[:3]))
    entries = judge(ctx, "trace", obs)
    by = {}
    for b in entries:
        by.setdefault(b["cls"], []).append(b)
    viol = by.get("violation", [])
    seen = {}
    for o in obs:
        if o["api"] == "CloneNode" and o["sub"] == 0:
            for n in o["orig"]["nodes"]:
                seen[n["k"]] = seen.get(n["k"], 0) + 1
    not_cov = sorted(s["k"] for s in schema if s["k"] not in seen)
    distinct = {json.dumps([o["api"], o["orig"]["nodes"]], sort_keys=True) for o in obs if len(o["orig"]["nodes"]) > 1}
    dsum = {}
    for b in entries:
        for sig in b.get("dsigs", []):
            d = dsum.setdefault(skey(sig), {"sig": sig, "n": 0})
            d["n"] += 1
    ctx.cov.update(evaluations=len(obs), traces_validated_against_impl=len(obs), templates=len(cases),
                   distinct_nontrivial=len(distinct),
                   rule="one observation per (node of a corpus tree, API in CloneNode/CloneExpression/CloneTree; Walk+Inspect logged with "
                        "CloneNode); distinct = distinct (API, subtree graph incl. scalars and positions); non-trivial = subtree has more than one node",
                   exhaustive=False,
                   schema_kinds=len(schema), kinds_covered=len(seen), kinds_not_covered=not_cov,
                   kinds_not_covered_why="Package is produced only for programs (not reachable through the public template API); "
                                         "Placeholder is created by the type checker, never by the parser",
                   node_counts_by_kind=dict(sorted(seen.items())),
                   samples=[what(o, None) for o in rig.pick_samples([o for o in obs if len(o["orig"]["nodes"]) > 3], 3, ctx.seed)],
                   records_failing_property=len(viol), records_masked_by_deeper_panic=len(by.get("masked", [])),
                   diagnostics=list(dsum.values()))
    if only is None and len(not_cov) > 2:
        raise Infra("corpus does not cover node kinds: %s" % not_cov)
    # reproduction guard: representatives again in a fresh process
    bads = []
    if viol:
        g = groups_of(viol)
        names = sorted({x["obs"]["tree"] for x in g.values()})
        cc = ctx.work / "confirm_cases.ndjson"
        rig.write_ndjson(cc, [c for c in rig.read_ndjson(cf) if c["name"] in names])
        co = ctx.work / "confirm_obs.ndjson"
        ctx.drive("c28", cc, co)
        want = {(x["obs"]["tree"], x["obs"]["sub"], x["obs"]["api"]) for x in g.values()}
        cobs = [o for o in rig.read_ndjson(co) if (o["tree"], o["sub"], o["api"]) in want]
        again = groups_of([b for b in judge(ctx, "confirm", cobs) if b["cls"] == "violation"])
        ctx.cov["unreproduced"] = len(set(g) - set(again))
        for k, x in g.items():
            if k in again:
                x["what"] = dict(what(x["obs"], x["sig"]), records=x["n"])
                x["obs"] = {"tree": x["obs"]["tree"], "sub": x["obs"]["sub"], "api": x["obs"]["api"], "kind": x["obs"]["kind"]}
                bads.append(x)
    if only is None:
        selftest(ctx, obs)

    def rw(rdir, b):
        (rdir / "case.json").write_text(json.dumps({"name": b["obs"]["tree"], "sig": b["sig"]}))
    return ctx.report(bads, replay_writer=rw, max_violations=40)


def selftest(ctx, obs):
    """Corrupted observations must be rejected by the Trace spec."""
    good = [o for o in obs if o["api"] == "CloneNode" and o["clone"] == "ok" and o["walk"] == "ok" and 3 <= len(o["orig"]["nodes"]) <= 12
            and o["orig"]["nodes"] == o["copy"]["nodes"] and sum(1 for x in o["wlog"] if x > 0) >= 3]
    if not good:
        raise Infra("sensitivity self-test: no suitable passing observation")
    base = good[len(good) // 2]
    st = []
    a = json.loads(json.dumps(base)); a["copy"]["pids"][-1] = a["orig"]["pids"][-1]            # the copy shares a node
    b = json.loads(json.dumps(base)); i = max(j for j, x in enumerate(b["wlog"]) if x > 0); del b["wlog"][i]   # a node not visited
    c = json.loads(json.dumps(base)); c["after"]["nodes"][-1]["v"][0][1] += "~"                    # the original changed
    d = json.loads(json.dumps(base)); d["copy"]["nodes"][-1]["k"] += "X"                           # the copy differs
    e = json.loads(json.dumps(base)); i = max(j for j, x in enumerate(e["ilog"]) if x > 0); e["ilog"].insert(i, e["ilog"][i])  # visited twice
    for n, o in enumerate([a, b, c, d, e]):
        o["id"] = 900001 + n
        st.append(o)
    rej = {x["id"] for x in judge(ctx, "selftest", st) if x["cls"] == "violation"}
    ctx.cov["sensitivity_selftest"] = {"corrupted": len(st), "rejected": len(rej)}
    if len(rej) < len(st):
        raise Infra(f"sensitivity self-test failed: {len(st)} corrupted observations, rejected ids {sorted(rej)}")


def replay(ctx, path):
    c = json.loads((path / "case.json").read_text())
    return run(ctx, only={c["name"]})


# The defects found by this check were fixed in /repo except those whose repair changes expectations pinned by the
# existing tests; those are listed in known-findings.json (kind "known").  _PROPOSED_BEFORE_FIXES documents the full set.
PROPOSED_KNOWN = []

"""C28 - cloning a tree gives an independent equal copy; walking visits every node (DESIGN 7/C28)."""
import json, re, concurrent.futures
import rig
from rig import Infra

LEVEL = "exploration"
META = {
    "title": "AstTree",
    "engine": "AstTree",
    "technique": "schema of package ast obtained by reflection at check time; TLA+ reference of Clone (fresh identities, equal shape) and Walk "
                 "(pre-order, each node once, nothing but nodes) model-checked by TLC on every small tree over the schema's field shapes; a "
                 "TLA+ grammar of the template language with choice points (AstTreeGen) from which TLC enumerates the case space: every "
                 "production with every combination of its optional parts (space A), every production at every place of every production "
                 "(space B); plus a corpus of templates covering every node type; all parsed by the real parser; for every node of every "
                 "tree the pointer graphs of the subtree, of its clone and of the original after mutating the clone, and the Visit "
                 "callbacks of Walk/Inspect, are judged by a TLC Trace spec",
    "level": "exploration",
    "level_text": "Exploration: the trees judged on the real code are those the real parser builds for (1) the TLC-enumerated sources of the "
                  "grammar AstTreeGen (80 productions of template statements, script statements, simple statements, expressions and types); "
                  "space A: all combinations of the alternatives of each production (every optional child absent and present, lists of "
                  "0/1/2 elements), exhaustive in both tiers; space B: each production nested at each place of each production, with its "
                  "emptiest and fullest alternatives (one of 14 slices, selected by the seed, in the quick tier; all in the thorough tier) - and (2) a hand-written "
                  "corpus (every ast node type except those listed in kinds_not_covered); each node of each tree is the root of one "
                  "observation per API. The TLA+ part states the property (isomorphic, pointer-disjoint, original unchanged after mutating "
                  "the copy; every node visited exactly once and every callback made with a node) and is model-checked on all trees of "
                  "<= 3 (quick) / 4 (thorough) nodes over the reflected schema, including rejection of a shallow clone, of a walk that "
                  "drops a node and of a walk that makes a callback with a nil child.",
    "level_note": "Trusted: TLC, Json module, the reflection-based graph logger/mutator of the driver (no oracle; it concatenates the tokens of "
                  "a generated case), go/parser for the cross-check that every struct type of ast.go is in the schema. The grammar says "
                  "nothing about the tree the parser must build; generated sources the parser rejects are outside the property's "
                  "quantifier (counted in gen_rejected; none is tolerated in space A). Fields filled by the type checker (IR, Upvars, "
                  "Reflect) are outside the graphs. Expanded trees of other files (Import/Extends/Render .Tree) must be cloned but are not "
                  "required to be walked. Callback order and callbacks with nodes of other trees are diagnostic only.",
    "design_ref": "7/C28",
}
FAMS = ["asttree"]

def _walk(kind, field, extra=""):
    return [{"kind": "known", "signature": {"fam": "asttree", "op": op, "cause": "not-visited", "kind": kind, "field": field},
             "what": "astutil.%s never visits %s.%s%s" % (op, kind, field, extra)} for op in ("Walk", "Inspect")]


def _panic(ops, kind, why):
    return [{"kind": "known", "signature": {"fam": "asttree", "op": op, "cause": "panic", "kind": kind},
             "what": "astutil.%s panics on %s: %s" % (op, kind, why)} for op in ops]


# Defects of astutil demonstrated by this check on the unchanged tree (minimal inputs and fixes in the report).
_PROPOSED_BEFORE_FIXES = (
    _walk("Call", "Func", " (the called function expression; walk_test.go pins this)")
    + _walk("Func", "Ident") + _walk("Func", "Type") + _walk("Func", "Body", " (the Block node itself; only its children are walked)")
    + _walk("FuncType", "Parameters", " identifiers (only parameter types are walked)")
    + _walk("FuncType", "Result", " identifiers (only result types are walked)")
    + _walk("TypeAssertion", "Type") + _walk("Raw", "Text")
    + _walk("Switch", "LeadingText") + _walk("TypeSwitch", "LeadingText") + _walk("Select", "LeadingText")
    + _walk("Import", "Ident") + _walk("Import", "For")
    + _panic(("Walk", "Inspect"), "StructType", "no case in Walk's type switch")
    + _panic(("Walk", "Inspect"), "TypeDeclaration", "no case in Walk's type switch")
    + _panic(("CloneNode", "CloneExpression"), "StructType", "handled in CloneNode after 'case ast.Expression', which sends it to CloneExpression that has no case for it")
    + _panic(("CloneNode",), "TypeDeclaration", "no case in CloneNode's type switch")
    + _panic(("CloneNode",), "Return", "no case in CloneNode's type switch")
    + _panic(("CloneNode",), "Break", "CloneExpression(n.Label).(*ast.Identifier) on a nil label (break without label)")
    + _panic(("CloneNode",), "Continue", "CloneExpression(n.Label).(*ast.Identifier) on a nil label (continue without label)")
    + _panic(("CloneNode",), "Label", "CloneNode(n.Statement) on a label without statement (label at the end of a block)")
    + _panic(("CloneNode",), "Block", "ClonePosition(nil): the blocks of a template {% if %} have no position")
    + _panic(("CloneNode",), "Assignment", "the loop over n.Rhs stores into variables[i] (the Lhs slice): index out of range when len(Rhs) > len(Lhs), e.g. 'for range x'")
    + [{"kind": "known", "signature": {"fam": "asttree", "op": "*", "cause": "copy-differs-children", "kind": "Assignment", "field": "Lhs"},
        "what": "CloneNode(*ast.Assignment): the loop over n.Rhs stores into variables[i] instead of values[i] - the clone's Lhs holds clones of the Rhs and its Rhs is all nil"},
       {"kind": "known", "signature": {"fam": "asttree", "op": "*", "cause": "copy-differs-scalar", "kind": "CompositeLiteral", "field": "parenthesis"},
        "what": "CloneExpression(*ast.CompositeLiteral) returns before SetParenthesis: the parenthesis count of ([]int{1}) is lost"}]
)


def mc(ctx, wd):
    cfgs = [{"MaxNodes": 3, "MaxList": 2, "ChildFields": 1}] if ctx.quick else \
           [{"MaxNodes": 4, "MaxList": 2, "ChildFields": 1}, {"MaxNodes": 3, "MaxList": 2, "ChildFields": 2}]
    invs = ["WalkIsPreOrder", "WalkEachOnce", "WalkOnlyNodes", "CloneAccepted", "ShallowRejected", "DroppedRejected", "SpuriousRejected", "Bounded"]
    distinct, generated, wall, never = 0, 0, 0.0, []
    for consts in cfgs:
        rig.write_cfg(wd / "MC_AstTree.cfg", constants=consts, invariants=invs)
        r = ctx.tlc(wd, "MC_AstTree", workers=rig.NCPU, timeout=1700, coverage=not ctx.quick, must_pass=True)
        distinct, generated, wall = distinct + r.distinct, generated + r.generated, wall + r.wall
        never += r.coverage_zero() if not ctx.quick else []
    ctx.cov.update(states=distinct, transitions=generated, mc_wall_s=round(wall, 1), mc_invariants=invs, bounds=json.dumps(cfgs))
    if not ctx.quick:
        ctx.cov["actions_never_taken"] = sorted(set(never))


def gen_name(c):
    n = "gen:%s:%s.%s/%s" % (c["space"], c["nt"], c["p"], ".".join(map(str, c["v"])))
    if c["space"] == "B":
        n += "@%d<%s.%s/%s" % (c["slot"], c["qnt"], c["q"], ".".join(map(str, c["qv"])))
    return n


B_SLICES = 14     # quick tier: space B is cut in this many slices, the seed selects one


def gen(ctx, full):
    """TLC enumerates the generated case space (spec/asttree/AstTreeGen.tla): space A, and space B in full or the
    slice selected by the seed; returns the cases, one per distinct source."""
    wd = ctx.stage("gen", FAMS)
    consts = {"BMod": 1 if full else B_SLICES, "Seed": ctx.seed % B_SLICES}
    rig.write_cfg(wd / "MC_AstTreeGen.cfg", constants=consts, invariants=["Export", "WellFormed"])
    r = ctx.tlc(wd, "MC_AstTreeGen", workers=rig.NCPU, timeout=1700, must_pass=True)
    found = [json.loads(json.loads(m.group(1))) for m in (re.match(r'^<<"CASE", (".*")>>$', line) for line in r.out.splitlines()) if m]
    m = re.search(r"Finished computing initial states: (\d+) distinct", r.out)
    if not m or len(found) != r.distinct - int(m.group(1)):     # every case state must have been exported
        raise Infra("generated case space: %d exported cases for %s states (see %s/MC_AstTreeGen.out)" % (len(found), r.distinct, wd))
    for c in found:
        c["name"] = gen_name(c)
    cases, seen = [], set()
    for c in sorted(found, key=lambda c: (c["space"], c["name"])):
        src = "".join(c["toks"])
        if src not in seen:        # (the same text can be reached through two derivations)
            seen.add(src)
            cases.append(c)
    if not cases or len({c["name"] for c in cases}) != len(cases):
        raise Infra("generated case space: no cases or ambiguous names (%d cases)" % len(cases))
    ctx.cov.update(gen_states=r.distinct, gen_wall_s=round(r.wall, 1), gen_bounds=json.dumps(consts), gen_productions=len({(c["nt"], c["p"]) for c in cases}),
                   gen_cases_A=sum(1 for c in cases if c["space"] == "A"), gen_cases_B=sum(1 for c in cases if c["space"] == "B"))
    return cases


def optional_children(obs):
    """Measured coverage of absent / present children: for every (kind, single-child field) whether a nil and a non-nil
    occurrence was observed, for every (kind, list field) whether an empty and a non-empty list was observed."""
    one, lst = {}, {}
    for o in obs:
        if o["api"] != "CloneNode" or o["sub"] != 0:
            continue
        for n in o["orig"]["nodes"]:
            for f in n["f"]:
                if f["m"] == "one":
                    one.setdefault(n["k"] + "." + f["n"], set()).add(f["c"] == [0])
                elif f["m"] == "list":
                    lst.setdefault(n["k"] + "." + f["n"], set()).add(len(f["c"]) == 0)
    return {"single_child_fields_seen": len(one), "single_child_fields_seen_nil_and_non_nil": sum(1 for v in one.values() if len(v) == 2),
            "single_child_fields_seen_nil": sorted(k for k, v in one.items() if True in v),
            "single_child_fields_never_nil": sorted(k for k, v in one.items() if True not in v),
            "list_fields_seen": len(lst), "list_fields_seen_empty": sorted(k for k, v in lst.items() if True in v),
            "list_fields_never_empty": sorted(k for k, v in lst.items() if True not in v)}


def judge(ctx, step, obs):
    shard = max(40, (len(obs) + rig.NCPU - 1) // rig.NCPU)
    parts = [obs[k:k + shard] for k in range(0, max(len(obs), 1), shard)]

    def one(i):
        p = ctx.work / f"{step}_{i}.ndjson"
        rig.write_ndjson(p, parts[i])
        b, _ = rig.trace_judge(ctx, f"{step}_{i}", FAMS, "Trace_AstTree", p, timeout=1700)
        for x in b:
            x["obs"] = parts[i][x["k"] - 1]
        return b
    with concurrent.futures.ThreadPoolExecutor(max_workers=min(len(parts), rig.NCPU)) as ex:
        return [x for b in ex.map(one, range(len(parts))) for x in b]


def skey(sig):
    return json.dumps(sig, sort_keys=True)


SOURCES = {}


def what(o, sig):
    return {"template": o["tree"], "source": SOURCES.get(o["tree"], "(corpus)"), "api": o["api"], "subtree_root": o["kind"], "subtree_nodes": len(o["orig"]["nodes"]),
            "kinds": [n["k"] for n in o["orig"]["nodes"]][:12], "clone": o["clone"], "walk": o["walk"],
            "wlog": o["wlog"][:40], "signature": sig}


def groups_of(entries):
    g = {}
    for b in entries:
        for sig in b["sigs"]:
            x = g.setdefault(skey(sig), {"sig": sig, "id": b["id"], "obs": b["obs"], "n": 0})
            x["n"] += 1
            if len(b["obs"]["orig"]["nodes"]) < len(x["obs"]["orig"]["nodes"]):
                x["obs"], x["id"] = b["obs"], b["id"]
    return g


def run(ctx, only=None):
    wd = ctx.stage("mc", FAMS)
    empty = ctx.work / "empty.ndjson"
    empty.write_text("")
    ctx.drive("c28", empty, wd / "schema.ndjson", args=["-schema", "-repo", str(rig.REPO)])
    schema = rig.read_ndjson(wd / "schema.ndjson")
    with concurrent.futures.ThreadPoolExecutor(max_workers=2) as ex:      # the two TLC runs are independent
        fg = ex.submit(gen, ctx, not ctx.quick if only is None else any(n.startswith("gen:B:") for n in only))
        fm = ex.submit(mc, ctx, wd) if only is None else None
        gcases = fg.result()
        if fm:
            fm.result()
    cf = ctx.work / "cases.ndjson"
    ctx.drive("c28", empty, cf, args=["-names"])
    cases = rig.read_ndjson(cf)
    # generated cases: space A always in full; space B in full (thorough, replay) or the slice of the seed (quick)
    ga = [c for c in gcases if c["space"] == "A"]
    gb = [c for c in gcases if c["space"] == "B"]
    for i, c in enumerate(ga + gb):
        cases.append({"id": 1000 + i, "name": c["name"], "toks": c["toks"], "aux": c["aux"], "space": c["space"]})
        SOURCES[c["name"]] = "".join(c["toks"])
    if only is not None:
        cases = [c for c in cases if c["name"] in only]
    rig.write_ndjson(cf, cases)
    of = ctx.work / "obs.ndjson"
    ctx.drive("c28", cf, of)
    obs = rig.read_ndjson(of)
    bad_parse = [o for o in obs if o["api"] == "parse"]
    obs = [o for o in obs if o["api"] != "parse"]
    # a corpus template or a source of space A rejected by the parser: the corpus / the grammar is wrong (machinery);
    # a rejected nesting of space B (import inside if, ...) is outside the property's quantifier: skipped and counted
    fatal = [o for o in bad_parse if not o["tree"].startswith("gen:B:")]
    if fatal:
        raise Infra("template rejected by the parser: " + json.dumps([dict(o, source=SOURCES.get(o["tree"])) for o in fatal[:3]]))
    ctx.cov.update(gen_rejected=len(bad_parse), gen_rejected_examples=[SOURCES[o["tree"]] for o in bad_parse[:5]])
    if only is None and len(bad_parse) > len(gb) // 4:
        raise Infra("the parser rejects %d of %d generated nestings: the grammar AstTreeGen does not fit the language" % (len(bad_parse), len(gb)))
    entries = judge(ctx, "trace", obs)
    by = {}
    for b in entries:
        by.setdefault(b["cls"], []).append(b)
    viol = by.get("violation", [])
    seen = {}
    for o in obs:
        if o["api"] == "CloneNode" and o["sub"] == 0:
            for n in o["orig"]["nodes"]:
                seen[n["k"]] = seen.get(n["k"], 0) + 1
    not_cov = sorted(s["k"] for s in schema if s["k"] not in seen)
    distinct = {json.dumps([o["api"], o["orig"]["nodes"]], sort_keys=True) for o in obs if len(o["orig"]["nodes"]) > 1}
    dsum = {}
    for b in entries:
        for sig in b.get("dsigs", []):
            d = dsum.setdefault(skey(sig), {"sig": sig, "n": 0})
            d["n"] += 1
    ctx.cov.update(evaluations=len(obs), traces_validated_against_impl=len(obs), templates=len(cases),
                   templates_corpus=sum(1 for c in cases if "toks" not in c), optional_children=optional_children(obs),
                   distinct_nontrivial=len(distinct),
                   rule="one observation per (node of a corpus or generated tree, API in CloneNode/CloneExpression/CloneTree; Walk+Inspect logged with "
                        "CloneNode); distinct = distinct (API, subtree graph incl. scalars and positions); non-trivial = subtree has more than one node",
                   exhaustive=False,
                   schema_kinds=len(schema), kinds_covered=len(seen), kinds_not_covered=not_cov,
                   kinds_not_covered_why="Package is produced only for programs (not reachable through the public template API); "
                                         "Placeholder is created by the type checker, never by the parser",
                   node_counts_by_kind=dict(sorted(seen.items())),
                   samples=[what(o, None) for o in rig.pick_samples([o for o in obs if len(o["orig"]["nodes"]) > 3], 3, ctx.seed)],
                   records_failing_property=len(viol), records_masked_by_deeper_panic=len(by.get("masked", [])),
                   diagnostics=list(dsum.values()))
    if only is None and len(not_cov) > 2:
        raise Infra("corpus does not cover node kinds: %s" % not_cov)
    # reproduction guard: representatives again in a fresh process
    bads = []
    if viol:
        g = groups_of(viol)
        names = sorted({x["obs"]["tree"] for x in g.values()})
        cc = ctx.work / "confirm_cases.ndjson"
        rig.write_ndjson(cc, [c for c in rig.read_ndjson(cf) if c["name"] in names])
        co = ctx.work / "confirm_obs.ndjson"
        ctx.drive("c28", cc, co)
        want = {(x["obs"]["tree"], x["obs"]["sub"], x["obs"]["api"]) for x in g.values()}
        cobs = [o for o in rig.read_ndjson(co) if (o["tree"], o["sub"], o["api"]) in want]
        again = groups_of([b for b in judge(ctx, "confirm", cobs) if b["cls"] == "violation"])
        ctx.cov["unreproduced"] = len(set(g) - set(again))
        for k, x in g.items():
            if k in again:
                x["what"] = dict(what(x["obs"], x["sig"]), records=x["n"])
                x["obs"] = {"tree": x["obs"]["tree"], "sub": x["obs"]["sub"], "api": x["obs"]["api"], "kind": x["obs"]["kind"]}
                bads.append(x)
    if only is None:
        selftest(ctx, obs)

    def rw(rdir, b):
        (rdir / "case.json").write_text(json.dumps({"name": b["obs"]["tree"], "sig": b["sig"]}))
    return ctx.report(bads, replay_writer=rw, max_violations=40)


def selftest(ctx, obs):
    """Corrupted observations must be rejected by the Trace spec."""
    good = [o for o in obs if o["api"] == "CloneNode" and o["clone"] == "ok" and o["walk"] == "ok" and 3 <= len(o["orig"]["nodes"]) <= 12
            and o["orig"]["nodes"] == o["copy"]["nodes"] and sum(1 for x in o["wlog"] if x > 0) >= 3]
    if not good:
        raise Infra("sensitivity self-test: no suitable passing observation")
    base = good[len(good) // 2]
    st = []
    a = json.loads(json.dumps(base)); a["copy"]["pids"][-1] = a["orig"]["pids"][-1]            # the copy shares a node
    b = json.loads(json.dumps(base)); i = max(j for j, x in enumerate(b["wlog"]) if x > 0); del b["wlog"][i]   # a node not visited
    c = json.loads(json.dumps(base)); c["after"]["nodes"][-1]["v"][0][1] += "~"                    # the original changed
    d = json.loads(json.dumps(base)); d["copy"]["nodes"][-1]["k"] += "X"                           # the copy differs
    e = json.loads(json.dumps(base)); i = max(j for j, x in enumerate(e["ilog"]) if x > 0); e["ilog"].insert(i, e["ilog"][i])  # visited twice
    f = json.loads(json.dumps(base)); f["wlog"][1:1] = [-1, 0]                                     # a callback with a nil child
    for n, o in enumerate([a, b, c, d, e, f]):
        o["id"] = 900001 + n
        st.append(o)
    rej = {x["id"] for x in judge(ctx, "selftest", st) if x["cls"] == "violation"}
    ctx.cov["sensitivity_selftest"] = {"corrupted": len(st), "rejected": len(rej)}
    if len(rej) < len(st):
        raise Infra(f"sensitivity self-test failed: {len(st)} corrupted observations, rejected ids {sorted(rej)}")


def replay(ctx, path):
    c = json.loads((path / "case.json").read_text())
    return run(ctx, only={c["name"]})


# The defects found by this check were fixed in /repo except those whose repair changes expectations pinned by the
# existing tests; those are listed in known-findings.json (kind "known").  _PROPOSED_BEFORE_FIXES documents the full set.
PROPOSED_KNOWN = []   # integrated into known-findings.json

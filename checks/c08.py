"""C08 - values shown as JavaScript or JSON are valid literals for the same data (DESIGN section 7 C08)."""
import json
import time
from concurrent.futures import ThreadPoolExecutor
import rig
from rig import Infra

META = {
    "title": "Values shown as JavaScript or JSON are valid literals for the same data",
    "engine": "ValueLit",
    "technique": "TLA+ reference parsers for JSON (RFC 8259) and for the ECMAScript literal subset (validity AND denoted abstract value, numbers through an exact decimal normal form) + Abs(descriptor) = the data encoding/json semantics assign to a Go value (tags, omitempty, '-', embedded structs, sorted map keys, []byte as base64, nil -> null, time.Time) + a branch-by-branch transcription of showInJS/showInJSON, model-checked by TLC over a bounded space of value descriptors; the same descriptors and seeded random ones are built by reflection, rendered by real templates in four JS/JSON contexts, and every rendered literal is parsed and judged by the TLC Trace spec",
    "level": "model_checking",
    "level_text": "TLC validates the two reference parsers (a corpus of 130 texts with known status, 44 equal/different denotation pairs, and Parse(Print(v)) = v for two independent reference printers on every abstract value of the space) and checks, for every value descriptor of depth <= 2 (quick) / 3 (thorough) and fan-out <= 2 over a 49-leaf menu (nil, booleans, boundary ints of 8 Go types, 1.5, 1e21, 5e-324, max floats, float32, NaN, +-Inf, -0, strings with quotes/</script>/U+2028/non-BMP/NUL, 11 times in the zones UTC, +00:00, +00:01, +05:30, +14:00, -00:30, -03:30, -09:30, -12:00, pointers, []byte) and a menu of Go containers ([]any, [N]any, typed slices/arrays, map[string|int|bool]any, 6 struct types with json tags/omitempty/'-'/embedded fields), that the transcription of showInJS/showInJSON renders one valid literal denoting Abs(descriptor), except for five named causes found in the tree. The same descriptors plus seeded random ones are built by reflection as real Go values, shown through Template.Run in <script>, .js, .json and <script type=application/ld+json>, and TLC parses each real output with the reference parser and compares the denoted value with Abs(descriptor).",
    "level_note": "Trusted: TLC, the Json community module, the Go driver (builds the value by reflection from the descriptor, cross-checks struct field names/tags against the descriptor, renders, strips the fixed text around the slot, logs - no parsing or expected value in Go). Numbers are compared as exact decimals (digits + exponent), not as IEEE doubles: a renderer printing non-shortest digits of the same float64 would be flagged and is then settled by the oracle guard (encoding/json, consulted only for records the TLA+ judge has failed). The JS reference covers literals only (null, booleans, numbers, NaN/Infinity, strings, arrays, objects, new Date(ISO string | integer ms)); any other expression is 'undef' (skipped, counted). Objects are compared as member sets; key order is demanded only for maps in JavaScript context. JavaScript context accepts both readings of a nil []byte (null or \"\") and of embedded structs (promoted or nested). Not covered: values of types implementing JSStringer/JSONStringer/json.Marshaler/error, Stringer map keys, named byte-slice types, cyclic values, strings that are not valid UTF-8 (reference undefined), map[bool] in JSON (encoding/json has no data for it).",
    "design_ref": "7/C08",
}

# Demonstrated on the unchanged tree (see the final report of the family).  One entry per root cause.
PROPOSED_KNOWN = []   # four of the five deviations found by this check were fixed in /repo; embedded-struct promotion stays a known finding (known-findings.json)

FAMS = ["valuelit"]
MC_INVS = ["PrintParse", "ModelMeetsRefExceptAsFound", "FixRemovesNonFinite", "FixedTreeOnlyEmbedded", "ModelAlwaysParses"]
PAR = max(2, min(8, rig.NCPU // 2))
# the oracle guard (encoding/json decodes the rendered text to the data it produces itself) can overrule the judge only
# on questions of DATA; it cannot see key order, and it has nothing to say about what is not JSON
ORACLE_DECIDES = {"different-data", "nil-byte-slice-as-empty-string", "embedded-struct-not-flattened", "time-subsecond-dropped"}
QUICK_ALL_CTX = 120        # quick tier: descriptors 1..120 (leaves, first containers) in all four contexts, the rest in two
RULE = ("every value descriptor of depth <= Depth with fan-out <= 2 over the leaf and container menus of MC_ValueLit.tla (exported "
        "by TLC; thorough: three pairings of the leaves instead of one, depth 3) x 4 contexts (quick: the two secondary contexts only for the first 120 descriptors) (<script>, .js, .json, "
        "<script type=application/ld+json>), plus seeded random nested descriptors (random ints of 11 Go types, floats with <= 15 "
        "significant digits, strings, times, typed/untyped containers, the 6 registered struct types) x 4 contexts; "
        "non-trivial = the rendered literal is a container, a string with an escape, a Date, or a number with more than 3 digits")


def judge(ctx, step, recs):
    """Judge observation records with Trace_ValueLit in up to PAR concurrent TLC processes.
    Returns (bad records with 'obs' attached, summed diagnostics)."""
    nsh = max(1, min(PAR, len(recs) // 800))
    size = (len(recs) + nsh - 1) // nsh if recs else 1
    parts = [recs[k:k + size] for k in range(0, max(len(recs), 1), size)]

    def one(i):
        p = ctx.work / f"{step}_{i}.ndjson"
        rig.write_ndjson(p, parts[i])
        b, _ = rig.trace_judge(ctx, f"{step}_{i}", FAMS, "Trace_ValueLit", p, timeout=840)
        for x in b:
            x["obs"] = parts[i][x["k"] - 1]
        return b, rig.read_ndjson(ctx.work / f"{step}_{i}" / "diag.ndjson")[0]
    with ThreadPoolExecutor(max_workers=PAR) as ex:
        res = list(ex.map(one, range(len(parts))))
    bads, diag = [], {"tally": {}}
    for b, d in res:
        bads += b
        for k, v in d.items():
            if k == "tally":
                for t in v:
                    diag["tally"][t["verdict"]] = diag["tally"].get(t["verdict"], 0) + t["n"]
            else:
                diag[k] = diag.get(k, 0) + v
    return bads, diag


def case_of(o):
    return {"id": o["id"], "desc": o["desc"], "cx": [o["ctx"]]}


def show_desc(d, depth=0):
    """compact human-readable form of a descriptor (evidence samples only)"""
    k = d["k"]
    if k == "nil":
        return "nil"
    if k == "bool":
        return "true" if d["b"] else "false"
    if k in ("int", "float"):
        return "%s(%s)" % (d["ty"], rig.b2s(d["txt"]))
    if k == "str":
        return json.dumps(rig.b2s(d["s"]))
    if k == "bytes":
        return "[]byte(nil)" if d["nil"] else "[]byte%s" % d["s"]
    if k == "time":
        return "time(%04d-%02d-%02dT%02d:%02d:%02d.%09d %+d min%s)" % (d["y"], d["mo"], d["d"], d["h"], d["mi"], d["sec"], d["ns"],
                                                                        d["off"], " UTC" if d["utc"] else "")
    if k == "ptr":
        return "(*T)(nil)" if d["nil"] else "&" + show_desc(d["v"], depth + 1)
    if k in ("slice", "array"):
        if d["nil"]:
            return "[]T(nil)"
        return ("[]" if k == "slice" else "[%d]" % len(d["kids"])) + ("T" if d["typed"] else "any") + \
            "{" + ", ".join(show_desc(x, depth + 1) for x in d["kids"]) + "}"
    if k == "map":
        if d["nil"]:
            return "map[%s]any(nil)" % d["kk"]
        return "map[%s]any{" % d["kk"] + ", ".join("%s: %s" % (json.dumps(rig.b2s(e["key"])), show_desc(e["v"], depth + 1))
                                                   for e in d["ents"]) + "}"
    if k == "struct":
        return d["ty"] + "{" + ", ".join("%s: %s" % (rig.b2s(f["name"]), show_desc(f["v"], depth + 1)) for f in d["fields"]) + "}"
    return "?"


def sample(o):
    s = {"ctx": o["ctx"], "value": show_desc(o["desc"])[:300], "st": o["st"], "out": rig.b2s(o["out"])[:300]}
    if o.get("err"):
        s["err"] = o["err"][:200]
    return s


def nontrivial(o):
    out = o["out"]
    if o["st"] != "ok" or not out:
        return False
    return out[0] in (91, 123, 110) and len(out) > 4 or (out[0] == 34 and 92 in out) or len(out) > 3 and out[0] != 34


def corrupt(o, how):
    """decoder-visible corruptions of a rendered literal"""
    out = list(o["out"])
    if how == 0:
        out = out + [93]                                   # trailing ']' : not one value
    elif how == 1:
        ds = [i for i, c in enumerate(out) if 48 <= c <= 57]
        if ds:
            out[ds[0]] = 48 + (out[ds[0]] - 48 + 1) % 10   # another digit: another number / string / date
        else:
            out = [91] + out + [93]                        # wrapped in an array: other data
    else:
        out = [32, 91] + out + [44, 32, 110, 117, 108, 108, 93]   # [v, null]: valid, other data
    o["out"] = out
    return o


def run(ctx, replay_case=None):
    consts = {"Depth": ctx.pick(2, 3), "Full": not ctx.quick}
    extra = ctx.pick(100, 6000)
    if replay_case is not None:
        extra = 0
    phase, t0 = {}, time.time()

    def lap(name):
        nonlocal t0
        phase[name] = round(time.time() - t0, 1)
        t0 = time.time()
        ctx.cov["phase_wall_s"] = phase
    # 1. model check (parsers validated; transcription against the reference) and export of the descriptors
    #    (a replay re-runs one stored case on the real code: no model check)
    wd = ctx.stage("mc", FAMS)
    cases = wd / "cases.ndjson"
    if replay_case is not None:
        rig.write_ndjson(cases, [dict(replay_case, id=1)])
    else:
        rig.write_cfg(wd / "MC_ValueLit.cfg", constants=consts, invariants=MC_INVS)
        # (no -coverage: the verdicts are computed as TLC constants, where coverage mode disables TLC's caching of
        #  LET-bound values - measured 14 min and out of memory; non-vacuity is the ASSUME on the occurring verdicts)
        r = ctx.tlc(wd, "MC_ValueLit", workers=4, timeout=ctx.pick(300, 800))
        ctx.cov.update(states=r.distinct, transitions=r.generated, mc_wall_s=round(r.wall, 1), mc_invariants=MC_INVS,
                       bounds=json.dumps(consts, sort_keys=True))
        occ = [p for p in r.printed if "verdicts occurring" in p]
        if occ:
            ctx.cov["model_verdicts_occurring"] = occ[-1][:600]
        if not r.ok:
            if r.invariant_violated:
                # counterexample on the implementation-shaped model: diagnostic; the verdict is decided on the real code
                ctx.cov["model_counterexample"] = {"invariants": r.invariant_violated, "tlc_out": str(wd / "MC_ValueLit.out")}
            else:
                raise Infra(f"MC_ValueLit failed: {wd}/MC_ValueLit.out\n" + rig.tail(r.out, 30))
        if not cases.exists():
            raise Infra("no cases.ndjson exported by MC_ValueLit")
        if ctx.quick:
            # quick tier: the two secondary contexts (.js file, <script type=application/ld+json>) dispatch to the same
            # renderers; they are exercised on the leaves and the first containers only (thorough: everywhere)
            cs = rig.read_ndjson(cases)
            rig.write_ndjson(cases, [c if c["id"] <= QUICK_ALL_CTX else dict(c, cx=["js_script", "json_file"]) for c in cs])
    lap("model_check_and_export")
    # 2. replay into the real templates
    obs = ctx.work / "obs.ndjson"
    ctx.drive("c08", cases, obs, args=["-extra", str(extra)])
    allobs = rig.read_ndjson(obs)
    if not allobs:
        raise Infra("the driver produced no observation")
    de = [o for o in allobs if o["st"] == "descerror"]
    if de:
        raise Infra("the driver could not build %d value(s) from their descriptors (spec menu and Go registry disagree?): %s"
                    % (len(de), sample(de[0])))
    kinds = {}
    for o in allobs:
        kinds[o["st"]] = kinds.get(o["st"], 0) + 1
    ctx.cov.update(evaluations=len(allobs), traces_validated_against_impl=len(allobs),
                   distinct_nontrivial=len({(o["ctx"], json.dumps(o["desc"], sort_keys=True)) for o in allobs if nontrivial(o)}),
                   rule=RULE, exhaustive=True, cases=len({o["id"] for o in allobs}), random_cases=extra,
                   samples=[sample(o) for o in rig.pick_samples(allobs, 5, ctx.seed)], outcomes=kinds)
    lap("build_and_drive")
    # 3. judge every observation by the Trace spec
    bads, diag = judge(ctx, "trace", allobs)
    if diag.get("records") != len(allobs):
        raise Infra("Trace_ValueLit consumed %s of %d records" % (diag.get("records"), len(allobs)))
    tally = diag["tally"]
    ctx.cov["verdict_tally"] = tally
    ctx.cov["bad_records_first_pass"] = diag["nbad"]
    ctx.cov["ref_undefined"] = tally.get("skip_ref_undefined", 0)
    ctx.cov["out_undefined"] = tally.get("skip_out_undefined", 0)
    ctx.cov["not_accepted_statically"] = tally.get("skip_not_accepted", 0)
    ctx.cov["model_output_mismatch"] = {"transcription_of_55cee7b_as_found": diag["drift_asfound"],
                                        "transcription_after_the_four_fixes": diag["drift_fixed"]}
    both = min(diag["drift_asfound"], diag["drift_fixed"])
    if both:
        ctx.cov["model_drift"] = ("real output differs from BOTH transcriptions of showInJS/showInJSON on at least %d of %d records "
                                  "(diagnostic only; the verdict is from the reference parsers and Abs)" % (both, diag["records"]))
    if tally.get("skip_out_undefined", 0) > len(allobs) // 20:
        raise Infra("the JavaScript reference could not read %d of %d outputs (outside its literal subset): the judge would be vacuous"
                    % (tally["skip_out_undefined"], len(allobs)))
    lap("judge")
    # 4. reproduction guard: the failing cases again, in a fresh process - this time the driver also consults
    #    encoding/json (oracle guard, violation path only);
    # 5. sensitivity self-test: three passing observations and three corruptions of them, judged together by the same
    #    Trace spec: exactly the corrupted ones must be rejected.
    confirmed, disputed, cobs = [], [], []
    if bads:
        bads = bads[:300]
        cc = [dict(case_of(b["obs"]), id=i + 1) for i, b in enumerate(bads)]
        rig.write_ndjson(ctx.work / "confirm_cases.ndjson", cc)
        ctx.drive("c08", ctx.work / "confirm_cases.ndjson", ctx.work / "confirm_obs.ndjson", args=["-oracle"])
        cobs = rig.read_ndjson(ctx.work / "confirm_obs.ndjson")

    def dj(o):
        return json.dumps(o["desc"], separators=(",", ":"))
    plain = [o for o in allobs if o["st"] == "ok" and o["id"] < 1000000 and replay_case is None
             and not any(w in dj(o) for w in ('"float"', '"time"', '"bytes"', '"struct"', '"kk":"bool"'))]
    picks = rig.pick_samples([o for o in plain if nontrivial(o)] or plain, 3, ctx.seed + 7)
    st = []
    for i, o in enumerate(picks):
        st.append(dict(json.loads(json.dumps(o)), id=900001 + i))
        st.append(dict(corrupt(json.loads(json.dumps(o)), i % 3), id=900101 + i))
    with ThreadPoolExecutor(max_workers=2) as ex:          # the two judging runs are independent: run them side by side
        f2 = ex.submit(judge, ctx, "trace_confirm", cobs) if cobs else None
        f3 = ex.submit(judge, ctx, "trace_selftest", st) if st else None
        b2 = f2.result()[0] if f2 else []
        r3 = f3.result() if f3 else None
    if bads:
        keys2 = {json.dumps(b["sig"], sort_keys=True) for b in b2}
        orc = {o["id"]: o.get("oracle", "na") for o in cobs}
        for i, b in enumerate(bads):
            if json.dumps(b["sig"], sort_keys=True) not in keys2:
                continue
            b["what"] = sample(b["obs"])
            b["oracle"] = orc.get(i + 1, "na")
            # encoding/json decodes the rendered text to the data it produces itself for this value, and the spec
            # disagrees: the spec is wrong, not the code
            (disputed if b["oracle"] == "agree" and b["sig"]["cause"] in ORACLE_DECIDES else confirmed).append(b)
        ctx.cov["unreproduced"] = len(bads) - len(confirmed) - len(disputed)
        ctx.cov["oracle_guard"] = {"consulted": len(cobs), "agree_with_code": len(disputed)}
        if disputed:
            ctx.cov["oracle_disputed"] = [{"sig": b["sig"], "case": b["what"]} for b in disputed[:5]]
    if r3:
        b3, d3 = r3
        wrong = [b for b in b3 if b["id"] < 900101]
        ctx.cov["sensitivity_selftest"] = {"corrupted": len(picks), "rejected": d3["nbad"], "originals_rejected": len(wrong)}
        if d3["nbad"] != len(picks) or wrong:
            raise Infra(f"sensitivity self-test failed: {len(picks)} corrupted observations, {d3['nbad']} rejected, "
                        f"{len(wrong)} originals rejected")
    lap("confirm_and_selftest")

    # 6. verdict
    def rw(rdir, b):
        (rdir / "case.json").write_text(json.dumps(case_of(b["obs"])))
        (rdir / "obs.json").write_text(json.dumps(b["obs"]))
    return ctx.report(confirmed, replay_writer=rw)


def replay(ctx, path):
    c = json.loads((path / "case.json").read_text())
    return run(ctx, replay_case=c)

"""C18 - template file loading stays inside the file system and terminates (DESIGN 7/C18)."""
import json, shutil, collections
from concurrent.futures import ThreadPoolExecutor
import rig
from rig import Infra

META = {
    "title": "Template file loading",
    "engine": "Loader",
    "technique": "TLA+ reference (lexical resolution Rooted, io/fs.ValidPath, reachability/cycle/escape facts of a "
                 "file graph, clauses over the log of Open calls) + implementation-shaped model of "
                 "parser_template.go/path.go (one TLC action per branch) model-checked against it over every graph "
                 "of a bounded space - sequences of <= max references, and a structured second space of fan-out graphs "
                 "(an entry file with two references, in any absolute/relative/dot-dot form, to two files in the same or in "
                 "different directories, each with a relative or dot-dot reference of its own); every graph is replayed into scriggo.BuildTemplate through a recording fs.FS "
                 "and through a FormatFS; the Open/Read log and outcome class are judged by a TLC Trace spec",
    "level": "model_checking",
    "level_text": "TLC checks, for every file graph of the space (quick: 3 layouts of 3 files at directory depths "
                  "0-2 with <=3 references over 3 kinds x 4 path forms, every single reference over 35 path forms (19 valid, 16 invalid) x "
                  "4 kinds x 3 depths, 4800 fan-out graphs of 5 files in 3 directories: 48 pairs of render references of the "
                  "entry file x (5 relative/dot-dot forms x render/render-default)^2 references of the two children; thorough: "
                  "4 kinds x 5 path forms, 4-file layouts with <=4 references, <=5-reference render graphs, all pairs of valid "
                  "path forms, fan-out graphs from entry files at depth 0 and 1 with import/render/extends parents and "
                  "import/render/render-default children over 6 forms), that the transcribed expansion "
                  "algorithm terminates (depth <= number of files, step bound, eventually an outcome), opens only "
                  "valid rooted names explained by a reference of an opened file, never reads a file twice, reports "
                  "every reachable cycle and every reachable root-escaping reference as an error, succeeds only after "
                  "opening the resolved target of every reference, fails only with a cause, and agrees with "
                  "the reference depth-first expansion (outcome class and exact sequence of opens). The same graphs "
                  "plus seeded random graphs (<=5 files, <=8 references, every third one grown as a tree from the entry file) are built by the real code under a "
                  "recording file system, plain and as FormatFS; TLC evaluates the property clauses on each real log.",
    "level_note": "Trusted: TLC, the Json module, the Go driver (writes one template per file, records Open/Read, "
                  "5 s watchdog, cuts a build off after 64 Open calls; no oracle). Property-level clauses: build "
                  "returns; every Open argument satisfies fs.ValidPath and is the entry file or Rooted(dir(f), p) "
                  "for a reference p of an already opened f; no name is read through two handles; reachable cycle "
                  "=> error; reachable escaping reference => error, of the not-found class when nothing else is "
                  "wrong with the graph; the resolution clause read per reference: a build that succeeds has opened "
                  "Rooted(dir(f), p) for every reference p of every file f it loaded (and that file exists unless the "
                  "reference is a render with default), and a build fails only if the graph has a cycle, an escaping or "
                  "missing target, or one of the causes the property is silent about (invalid path, extends placement, one "
                  "file in two roles, statement order). Agreement of all other outcome classes and of the exact open sequence with "
                  "the model is drift only. Not covered: file names that begin with '..' (e.g. '..a.html'), "
                  "non-ASCII names, file systems other than scriggo.Files, packages supplied for the import "
                  "fallback, concurrent builds.",
    "design_ref": "7/C18",
}

FAMS = ["loader"]
MC_INVS = ["DepthBound", "StepBound", "PcOk", "PropertyOnModel", "OpenedAtMostOnce", "OpensInMayOpen",
           "ImplMeetsRef", "OutcomeSound"]
MC_PROPS = ["Terminates"]
NSHARD = 12


def case_of(o):
    return {"id": o["id"], "files": o["files"], "entry": o["entry"], "refs": o["refs"]}


def judge(ctx, step, obs_list):
    """Run Trace_Loader over the observations (sharded, shards in parallel). Returns (bads, drifts)."""
    n = len(obs_list)
    nsh = max(1, min(NSHARD, n // 800))
    size = (n + nsh - 1) // nsh if n else 1
    parts = [obs_list[k:k + size] for k in range(0, max(n, 1), size)]

    def one(k):
        part = parts[k]
        wd = ctx.stage(f"{step}_{k}", FAMS)
        rig.write_ndjson(wd / "obs.ndjson", part)
        for f in ("bad.ndjson", "drift.ndjson"):
            if (wd / f).exists():
                (wd / f).unlink()
        rig.write_cfg(wd / "Trace_Loader.cfg", invariants=["Done"], postcondition="Consumed")
        r = ctx.tlc(wd, "Trace_Loader", workers=1, timeout=1500, heap="3g")
        if not r.ok:
            raise Infra(f"Trace_Loader did not complete cleanly: {wd}/Trace_Loader.out\n" + rig.tail(r.out, 30))
        if not (wd / "bad.ndjson").exists() or not (wd / "drift.ndjson").exists():
            raise Infra(f"Trace_Loader wrote no bad.ndjson/drift.ndjson ({wd})")
        b = rig.read_ndjson(wd / "bad.ndjson")
        for x in b:
            x["obs"] = part[x["k"] - 1]
        d = rig.read_ndjson(wd / "drift.ndjson")
        for x in d:
            x["obs"] = part[x["k"] - 1]
        return b, d

    bads, drifts, ndrift = [], [], 0
    with ThreadPoolExecutor(max_workers=len(parts)) as ex:
        for b, d in ex.map(one, range(len(parts))):
            bads += b
            drifts += d
            ndrift += d[0]["ndrift"] if d else 0
    return bads, drifts, ndrift


def show(o):
    def p(e):
        return "/".join(e)
    return {"fs": o["fsk"], "files": [p(f) for f in o["files"]], "entry": p(o["entry"]),
            "refs": ["%s: %s %r" % (p(r["o"]), r["k"], p(r["p"])) for r in o["refs"]],
            "opens": ["%s%s" % (p(x["n"]), "" if x["ok"] else " (not found)") for x in o["opens"]],
            "outcome": o["cls"] + ((": " + rig.b2s(o["msg"])[:160]) if o["msg"] else ""),
            "returned": o["ret"] and not o["runaway"]}


def selftest(allobs):
    """Corrupted observations, one per property clause; each must be rejected with that clause."""
    out = []
    ok2 = next((o for o in allobs if o["cls"] == "nil" and len(o["opens"]) >= 2), None)
    cyc = next((o for o in allobs if o["cls"] == "builderror" and b"cycle" in bytes(o["msg"]) and len(o["refs"]) == 1), None)
    if ok2:
        a = json.loads(json.dumps(ok2)); a["id"] = 990000001
        a["opens"].append(json.loads(json.dumps(a["opens"][1])))            # a file read through a second handle
        out.append((a, "read-once"))
        b = json.loads(json.dumps(ok2)); b["id"] = 990000002
        b["opens"][1]["n"] = [".."] + b["opens"][1]["n"]                    # an Open argument that leaves the root
        out.append((b, "open-valid-path"))
        c = json.loads(json.dumps(ok2)); c["id"] = 990000003
        c["opens"][1]["n"] = ["zz", "never-referenced.html"]                # an Open nothing refers to
        out.append((c, "open-provenance"))
        e = json.loads(json.dumps(ok2)); e["id"] = 990000005
        e["ret"] = False; e["cls"] = "hang"                                  # the build did not return
        out.append((e, "terminates"))
    esc = next((o for o in allobs if o["cls"] == "builderror" and b"does not exist" in bytes(o["msg"]) and len(o["refs"]) == 1
                and len(o["opens"]) == 1 and o["refs"][0]["k"] in ("render", "extends")), None)
    if esc:
        f = json.loads(json.dumps(esc)); f["id"] = 990000006
        f["cls"] = "nil"; f["msg"] = []                                      # a root-escaping reference built without error
        out.append((f, "escape-is-error"))
        h = json.loads(json.dumps(esc)); h["id"] = 990000007
        h["msg"] = rig.s2b("a.html:1:4: syntax error: something else")      # ... or reported as another class of error
        out.append((h, "escape-not-found-class"))
    # a build of render references only (none of the causes of failure the property is silent about), all opens found
    okr = next((o for o in allobs if o["cls"] == "nil" and len(o["opens"]) >= 3 and all(x["ok"] for x in o["opens"])
                and all(r["k"] == "render" for r in o["refs"])), None)
    if okr:
        i = json.loads(json.dumps(okr)); i["id"] = 990000008
        i["opens"].pop()                                                     # succeeded without opening a referenced file
        out.append((i, "ref-target-loaded"))
        j = json.loads(json.dumps(okr)); j["id"] = 990000009
        j["cls"] = "builderror"                                              # every reference resolves to a file, yet "not found"
        j["msg"] = rig.s2b('a.html:1:4: syntax error: render path "x.html" does not exist')
        out.append((j, "fails-without-cause"))
    if cyc:
        d = json.loads(json.dumps(cyc)); d["id"] = 990000004
        d["cls"] = "nil"; d["msg"] = []                                      # a cycle built without error
        out.append((d, "cycle-is-error"))
    return out


def run(ctx, only_cases=None):
    cases = ctx.work / "cases.ndjson"
    if only_cases is None:
        # 1. model check + export of the case space
        consts = {"Tier": ctx.pick(1, 2)}
        wd = ctx.stage("mc", FAMS)
        invs = MC_INVS + ctx.pick([], ["RunFnSame"])     # functional form of the model == the actions (thorough)
        rig.write_cfg(wd / "MC_Loader.cfg", spec="Spec", constants=consts, invariants=invs, properties=MC_PROPS)
        r = ctx.tlc(wd, "MC_Loader", workers=rig.NCPU, timeout=1500, coverage=not ctx.quick)
        ctx.cov.update(states=r.distinct, transitions=r.generated, mc_wall_s=round(r.wall, 1),
                       mc_invariants=invs + MC_PROPS, bounds="Tier=%d (families of MC_Loader.tla)" % consts["Tier"])
        if not r.ok:
            if r.invariant_violated or r.property_violated:
                ctx.cov["model_counterexample"] = {"invariants": r.invariant_violated or ["temporal"],
                                                   "tlc_out": str(wd / "MC_Loader.out")}
            else:
                raise Infra(f"MC_Loader failed: {wd}/MC_Loader.out\n" + rig.tail(r.out, 30))
        if not ctx.quick:
            ctx.cov["actions_never_taken"] = r.coverage_zero()
        if not (wd / "cases.ndjson").exists():
            raise Infra("no cases.ndjson exported by MC_Loader")
        shutil.copy(wd / "cases.ndjson", cases)
        extra = ctx.pick(1500, 10000)
        ctx.cov["extra_random_cases"] = extra
    else:
        rig.write_ndjson(cases, only_cases)
        extra = 0
    # 2. replay into the real code (recording fs.FS, then FormatFS)
    obs = ctx.work / "obs.ndjson"
    # quick: the FormatFS pass for every 3rd case; thorough and replay: for all
    ctx.drive("c18", cases, obs, args=["-extra", str(extra), "-fmtmod", str(ctx.pick(3, 1) if only_cases is None else 1)])
    allobs = rig.read_ndjson(obs)
    ncases = len({o["id"] for o in allobs})
    # 3. judge
    bads, drifts, ndrift = judge(ctx, "trace", allobs)
    cls = collections.Counter(o["cls"] for o in allobs)
    ctx.cov.update(evaluations=len(allobs), traces_validated_against_impl=len(allobs), cases=ncases,
                   open_events=sum(len(o["opens"]) for o in allobs),
                   outcome_classes=dict(cls),
                   double_probes_of_missing_files=sum(1 for o in allobs if len({tuple(x["n"]) for x in o["opens"] if not x["ok"]}) < sum(1 for x in o["opens"] if not x["ok"])),
                   distinct_nontrivial=len({json.dumps(case_of(o), sort_keys=True) for o in allobs if len(o["opens"]) >= 2}),
                   rule="every graph exported by TLC (exhaustive within the families of MC_Loader.tla) x {plain fs.FS, FormatFS} "
                        "plus seeded random graphs (<=5 files, <=8 references); non-trivial = at least one reference was followed "
                        "(a second Open happened)",
                   exhaustive=True, judged_bad_first_pass=len(bads),
                   samples=[show(o) for o in rig.pick_samples([o for o in allobs if len(o["opens"]) >= 3] or allobs, 4, ctx.seed)])
    ctx.cov["model_drift_records"] = ndrift
    if drifts:
        ctx.cov["model_drift"] = {"records": ndrift, "note": "real outcome class / open sequence differs from the implementation-shaped model (diagnostic only)",
                                  "examples": [dict(show(d["obs"]), model=d["model"], real=d["real"]) for d in drifts[:3]]}
    # 4. reproduction guard: fresh process, judged again
    confirmed = []
    if bads:
        seen, cc = set(), []
        for b in bads:
            if b["id"] not in seen:
                seen.add(b["id"])
                cc.append(case_of(b["obs"]))
        ccf, cof = ctx.work / "confirm_cases.ndjson", ctx.work / "confirm_obs.ndjson"
        rig.write_ndjson(ccf, cc[:400])
        ctx.drive("c18", ccf, cof)
        b2, _, _ = judge(ctx, "trace_confirm", rig.read_ndjson(cof))
        again = {(b["id"], b["obs"]["fsk"], json.dumps(b["sig"], sort_keys=True)) for b in b2}
        confirmed = [b for b in bads if (b["id"], b["obs"]["fsk"], json.dumps(b["sig"], sort_keys=True)) in again]
        ctx.cov["unreproduced"] = len(bads) - len(confirmed)
        for b in confirmed:
            b["what"] = show(b["obs"])
    # 5. sensitivity self-test (every run): one corrupted observation per clause must be rejected
    st = selftest(allobs)
    if only_cases is None:
        if len(st) < 9:
            raise Infra("sensitivity self-test: no suitable observations to corrupt")
    if st:
        b3, _, _ = judge(ctx, "trace_selftest", [o for o, _ in st])
        got = {b["id"]: b["sig"]["clause"] for b in b3}
        miss = [(o["id"], want, got.get(o["id"])) for o, want in st if got.get(o["id"]) != want]
        ctx.cov["sensitivity_selftest"] = {"corrupted": len(st), "rejected": len(st) - len(miss)}
        if miss:
            raise Infra("sensitivity self-test failed (id, expected clause, got): %r" % miss)

    def rw(rdir, b):
        (rdir / "case.json").write_text(json.dumps(case_of(b["obs"])))
        (rdir / "obs.json").write_text(json.dumps(b["obs"]))
    return ctx.report(confirmed, replay_writer=rw)


def replay(ctx, path):
    c = json.loads((path / "case.json").read_text())
    return run(ctx, only_cases=[c])

"""C14 - goroutine and channel programs agree with gc under every schedule (DESIGN 7/C14)."""
import json, random, shutil, glob, os, re, rig
from rig import Infra

META = {
    "engine": "ConcGo",
    "technique": "TLA+ interpreter of Go's goroutine/channel semantics (ConcGo.tla); TLC explores every schedule of each generated program and decides deadlock-freedom, panic-freedom and output determinism, yielding the unique expected output; the programs are run on the real VM (go statement allowed) under several GOMAXPROCS and hook-injected yields with the race detector; outputs judged by a TLC Trace spec",
    "level": "model_checking",
    "level_text": "For each seeded batch of concurrent programs (pipelines, fan-in, fan-out, select fan-in, select statements with several send cases and receive cases - in main and inside worker goroutines -, select with a default clause alone and in counter-bounded polling loops, v, ok := <-c on open and closed channels and for-loops that break on !ok, len/cap of buffered and nil channels, nil channels as select cases, goroutines that panic (statement or run-time panic of a channel operation) and recover in a deferred function that then sends, channels closed by a deferred call, unbuffered rendezvous chains of three goroutines, ping-pong, buffered/unbuffered, close/range, plus deliberately broken variants), TLC explores ALL schedules of the ConcGo model: programs that can deadlock, panic or print schedule-dependent output are discarded as outside the property's domain, for the others the unique output over all schedules is the expected output. Each valid program is built by the real scriggo and run under GOMAXPROCS 1/2/4/16 with seeded yields injected at the channel hooks, in a -race build; every run's printed output must equal the model's output and the race detector must stay silent.",
    "level_note": "Trusted: TLC, the concretiser (record -> Go source, string templates), Go's race detector for data races (the spec supplies the programs and yield points, not race detection itself). gc itself is not run on the passing path: the Go semantics is the TLA+ model (during development the generated programs were also run on gc, which agreed with the model on all of them). For a select with default, a partner that has reached its blocking operation on an unbuffered channel may or may not have parked yet: the model explores both. A panic inside a deferred function is over-approximated as a crash (such programs are left out). sync/time-based programs are not generated.",
    "design_ref": "7/C14",
}
FAMS = ["concgo"]
# A send on a closed channel, executed by the VM as a reflect.Select (a select statement, or a plain send when the
# run has a context that can be cancelled), panics and leaves its cases in vm.cases; after a deferred function has
# recovered, the next channel operation selects on the stale cases too: it panics again, or (in a goroutine) the
# goroutine dies and main waits for ever.  Fix proposed in /tmp/c14_fix.diff (runRecoverable drops vm.cases).
PROPOSED_KNOWN = []   # integrated into known-findings.json (fixed by a0f8682)


# ------------------------------------------------------------------ seeded generator of shapes
def gen_programs(rng, n):
    out = []
    shapes = [pipeline, fanin, fanout, selectfanin, buffered_only, pingpong, waitgroup, closer, natburst, selectsend,
              nbfill, nbpoll, polldrain, recvok, loopok, lencap, lensync, nilselect, nilmisc, workersel, crosssel,
              recoversend, deferclose, recoverrt, chain3, chain3sum]
    for i in range(n):
        f = shapes[i % len(shapes)]
        p = f(rng)
        p["shape"] = f.__name__ + p.pop("sub", "")
        # threads whose body is a single send / close may be started as `go` on a HOST function / builtin
        p["native"] = [t + 1 for t, th in enumerate(p["threads"]) if t > 0 and len(th) == 1 and th[0]["op"] in ("send", "close") and (p.get("allnative") or rng.random() < 0.6)]
        p.pop("allnative", None)
        p["style"] = rng.randint(0, 2)
        if i % 7 == 5:
            p = perturb(rng, p)
        p["id"] = i + 1
        out.append(p)
    return out


def I(op, **kw):
    d = {"op": op}
    d.update(kw)
    return d


def pipeline(rng):
    k = rng.randint(1, 3)
    n = rng.randint(1, 4)
    chans = [rng.choice([0, 0, 1, 2]) for _ in range(k + 1)]
    threads = [[]]
    # producer
    threads.append([I("send", ch=1, v=100 + i) for i in range(n)] + [I("close", ch=1)])
    for j in range(k):
        threads.append([I("rangefwd", ch=j + 1, ch2=j + 2, add=rng.randint(0, 3)), I("close", ch=j + 2)])
    main = [I("go", t=t) for t in range(2, len(threads) + 1)]
    rng.shuffle(main)
    main += [I(rng.choice(["range", "rangep"]), ch=k + 1), I("print")]
    threads[0] = main
    return {"chans": chans, "threads": threads}


def fanin(rng):
    m = rng.randint(2, 3)
    n = rng.randint(1, 2 if m == 3 else 3)
    chans = [rng.choice([0, 1, 3]), rng.choice([0, m])]   # data, done
    threads = [[]]
    for k in range(m):
        threads.append([I("send", ch=1, v=(k + 1) * 100 + i) for i in range(n)] + [I("send", ch=2, v=1)])
    threads.append([I("recv", ch=2) for _ in range(m)] + [I("close", ch=1)])
    main = [I("go", t=t) for t in range(2, len(threads) + 1)]
    rng.shuffle(main)
    main += [I("range", ch=1), I("print")]
    threads[0] = main
    return {"chans": chans, "threads": threads}


def fanout(rng):
    w = 2
    n = rng.randint(1, 4)
    chans = [rng.choice([0, 1, 2]), rng.choice([0, w])]
    threads = [[]]
    threads.append([I("send", ch=1, v=10 + i) for i in range(n)] + [I("close", ch=1)])
    for _ in range(w):
        threads.append([I("range", ch=1), I("sendacc", ch=2)])
    main = [I("go", t=t) for t in range(2, len(threads) + 1)]
    main += [I("recv", ch=2) for _ in range(w)] + [I("print")]
    threads[0] = main
    return {"chans": chans, "threads": threads}


def selectfanin(rng):
    na, nb = rng.randint(1, 3), rng.randint(1, 3)
    chans = [rng.choice([0, 1]), rng.choice([0, 2])]
    threads = [[], [I("send", ch=1, v=100 + i) for i in range(na)], [I("send", ch=2, v=200 + i) for i in range(nb)]]
    main = [I("go", t=2), I("go", t=3)] + [I("selrecv", chs=[1, 2]) for _ in range(na + nb)] + [I("print")]
    threads[0] = main
    return {"chans": chans, "threads": threads}


def selectsend(rng):
    """select statements with several send cases (each with its own value) and possibly receive cases"""
    a, b = rng.choice([(11, 22), (22, 11), (5, 700)])
    kind = rng.randint(0, 2)
    if kind == 0:
        # only one case can proceed: a buffered channel with room and an unbuffered one nobody receives from
        order = rng.choice([[1, 2], [2, 1]])
        vs = {1: a, 2: b}
        main = [I("selsend", chs=[], schs=order, vs=[vs[c] for c in order]), I("recvp", ch=1), I("printc", v=3)]
        return {"chans": [1, 0], "threads": [main]}
    if kind == 1:
        # two buffered channels of capacity one: the second select must take the other case
        sel = I("selsend", chs=[], schs=[1, 2], vs=[a, b])
        main = [sel, dict(sel), I("recvp", ch=1), I("recvp", ch=2)]
        return {"chans": [1, 1], "threads": [main]}
    # two workers each receive once and send back what they got; main sends and collects with one select
    cap3 = rng.choice([0, 2])
    sel = I("selsend", chs=[3], schs=[1, 2], vs=[a, b])
    threads = [[I("go", t=2), I("go", t=3)] + [dict(sel) for _ in range(4)] + [I("print")],
               [I("recv", ch=1), I("sendacc", ch=3)], [I("recv", ch=2), I("sendacc", ch=3)]]
    return {"chans": [rng.choice([0, 1]), 0, cap3], "threads": threads}


def buffered_only(rng):
    n = rng.randint(1, 4)
    main = [I("send", ch=1, v=7 + i) for i in range(n)] + [I("close", ch=1), I("rangep", ch=1), I("recvp", ch=1), I("printc", v=5)]
    return {"chans": [n], "threads": [main]}


def pingpong(rng):
    k = rng.randint(1, 3)
    chans = [rng.choice([0, 1]), rng.choice([0, 1])]
    t2 = []
    main = [I("go", t=2)]
    for i in range(k):
        main += [I("send", ch=1, v=i + 1), I("recv", ch=2)]
        t2 += [I("recv", ch=1), I("sendacc", ch=2)]
    main.append(I("print"))
    return {"chans": chans, "threads": [main, t2]}


def closer(rng):
    """main sends n items into a buffered channel, a goroutine closes it, main drains by range (go close(c))"""
    n = rng.randint(1, 3)
    main = [I("send", ch=1, v=40 + i) for i in range(n)] + [I("go", t=2), I("range", ch=1), I("print")]
    return {"chans": [n], "threads": [main, [I("close", ch=1)]]}


def natburst(rng):
    """main starts n goroutines on a HOST function in a row (go p.Send(c, k)), then sums what arrives"""
    n = rng.randint(2, 4)
    chans = [rng.choice([0, 1, n])]
    threads = [[]] + [[I("send", ch=1, v=10 * (k + 1) + k)] for k in range(n)]
    threads[0] = [I("go", t=t) for t in range(2, n + 2)] + [I("recv", ch=1) for _ in range(n)] + [I("print")]
    return {"chans": chans, "threads": threads, "allnative": True}


def waitgroup(rng):
    m = rng.randint(1, 3)
    chans = [rng.choice([0, m])]
    threads = [[]]
    for k in range(m):
        threads.append([I("send", ch=1, v=k + 1)])
    main = [I("printc", v=1)] + [I("go", t=t) for t in range(2, m + 2)] + [I("recv", ch=1) for _ in range(m)] + [I("print"), I("printc", v=9)]
    threads[0] = main
    return {"chans": chans, "threads": threads}


# ---- select with a default clause
def NB(n=1, chs=(), schs=(), vs=(), hit=1, dflt=100):
    return I("selnb", n=n, chs=list(chs), schs=list(schs), vs=list(vs), hit=hit, dflt=dflt)


def nbfill(rng):
    """non-blocking sends into a buffered channel of capacity k: the first k succeed, the others take the default clause"""
    k, m = rng.randint(0, 2), rng.randint(2, 3)
    if rng.random() < 0.5:
        main = [NB(n=m, schs=[1], vs=[7])]
    else:
        main = [NB(schs=[1], vs=[7 + j]) for j in range(m)]
    main += [I("print"), I("lenp", ch=1), I("close", ch=1), I("rangep", ch=1)]
    return {"chans": [k], "threads": [main]}


def nbpoll(rng):
    """k values wait in a buffered channel; a polling loop of m non-blocking receives gets them, then the default"""
    k, m = rng.randint(0, 2), rng.randint(2, 4)
    kind = rng.randint(0, 2)
    main = [I("send", ch=1, v=20 + j) for j in range(k)]
    if kind == 0:
        main += [NB(n=m, chs=[1])]
    elif kind == 1:
        # an unbuffered channel nobody else uses and a send case on it: never ready
        main += [NB(n=m, chs=[1, 2], schs=[2], vs=[5])]
    else:
        # closed channel: after the data every poll receives the zero value, never the default
        main += [I("close", ch=1), NB(n=m, chs=[1])]
    main += [I("print")]
    return {"chans": [max(k, 1), 0], "threads": [main]}


def polldrain(rng):
    """a producer sends n values and closes; main polls a few times (default adds nothing), then drains: the sum is fixed"""
    n = rng.randint(1, 3)
    main = [I("go", t=2), NB(n=rng.randint(1, 3), chs=[1], dflt=0), I(rng.choice(["range", "loopok"]), ch=1, nok=0), I("print")]
    prod = [I("send", ch=1, v=30 + j) for j in range(n)] + [I("close", ch=1)]
    return {"chans": [rng.choice([0, 1, 3])], "threads": [main, prod]}


# ---- receive with ok
def recvok(rng):
    """v, ok := <-c on a channel with data, closed with data, closed and empty"""
    k = rng.randint(0, 2)
    main = [I("send", ch=1, v=50 + j) for j in range(k)]
    if rng.random() < 0.5:
        main += [I("close", ch=1)] + [I("recvok", ch=1, nok=1000) for _ in range(k + rng.randint(1, 2))] + [I("print")]
        return {"chans": [max(k, 1)], "threads": [main]}
    # the last receive on c1 waits for the worker's close; the one on c2 finds an open channel
    main += [I("go", t=2)] + [I("recvok", ch=1, nok=1000) for _ in range(k + 1)] + [I("recvok", ch=2, nok=3000), I("print")]
    return {"chans": [max(k, rng.randint(0, 1)), rng.choice([0, 1])], "threads": [main, [I("close", ch=1), I("send", ch=2, v=9)]]}


def loopok(rng):
    """for { v, ok := <-c; if !ok { break }; ... } as the consumer of a producer, in main or in a worker"""
    n = rng.randint(1, 3)
    prod = [I("send", ch=1, v=60 + j) for j in range(n)] + [I("close", ch=1)]
    if rng.random() < 0.5:
        return {"chans": [rng.choice([0, 1, 2])], "threads": [[I("go", t=2), I("loopok", ch=1, nok=500), I("print")], prod]}
    cons = [I("loopok", ch=1, nok=500), I("sendacc", ch=2)]
    main = [I("go", t=3), I("go", t=2), I("recvok", ch=2, nok=7000), I("print")]
    return {"chans": [rng.choice([0, 1, 2]), rng.choice([0, 1])], "threads": [main, prod, cons]}


# ---- len and cap
def lencap(rng):
    """len / cap of a buffered channel that only main uses, before and after sends, receives and close"""
    n = rng.randint(1, 3)
    k = rng.randint(0, n)
    main = [I("capp", ch=1), I("lenp", ch=1)] + [I("send", ch=1, v=70 + j) for j in range(k)] + [I("lenp", ch=1)]
    if k > 0:
        main += [I("recv", ch=1), I("lenacc", ch=1)]
    main += [I("close", ch=1), I("lenp", ch=1), I("print")]
    return {"chans": [n], "threads": [main]}


def lensync(rng):
    """a worker fills a buffered channel and then signals on another one: len is fixed once the signal has arrived"""
    n = rng.randint(1, 3)
    w = [I("send", ch=1, v=80 + j) for j in range(n)] + [I("send", ch=2, v=1)]
    main = [I("go", t=2), I("recv", ch=2), I("lenp", ch=1), I("capp", ch=1), I("capp", ch=2), I("lenp", ch=2), I("recv", ch=1), I("lenacc", ch=1), I("print")]
    return {"chans": [n + rng.randint(0, 1), rng.choice([0, 1])], "threads": [main, w]}


# ---- nil channels
def nilselect(rng):
    """a nil channel case of a select is never ready: the other case is the one that proceeds"""
    kind = rng.randint(0, 2)
    if kind == 0:
        sel = I("selsend", chs=rng.choice([[1, 2], [2, 1]]), schs=[], vs=[])
        return {"chans": [-1, rng.choice([0, 1])], "threads": [[I("go", t=2), sel, dict(sel), I("print")], [I("send", ch=2, v=90), I("send", ch=2, v=91)]]}
    if kind == 1:
        # nil channel in a send case, the data arrives on the receive case
        sel = I("selsend", chs=[2], schs=[1], vs=[4])
        return {"chans": [-1, rng.choice([0, 1])], "threads": [[I("go", t=2), sel, I("print")], [I("send", ch=2, v=92)]]}
    # select with default whose only cases are on a nil channel, then one with a ready case too
    main = [NB(chs=[1], schs=[1], vs=[3]), I("send", ch=2, v=93), NB(n=2, chs=[1, 2], schs=[1], vs=[3]), I("print")]
    return {"chans": [-1, 1], "threads": [main]}


def nilmisc(rng):
    """len and cap of a nil channel; a goroutine parked for ever on a nil channel does not stop main"""
    main = [I("lenp", ch=1), I("capp", ch=1), I("go", t=2), I("go", t=3), I("recv", ch=2), I("print")]
    return {"chans": [-1, rng.choice([0, 1])], "threads": [main, [I(rng.choice(["recv", "range"]), ch=1)], [I("send", ch=2, v=94)]]}


# ---- select with send and receive cases inside worker goroutines
def workersel(rng):
    """a worker runs two selects, each with a receive case on one channel and a send case on another; main serves both"""
    v = rng.choice([7, 12])
    sel = I("selsend", chs=[1], schs=[2], vs=[v])
    w = [sel, dict(sel), I("sendacc", ch=3)]
    ops = [I("send", ch=1, v=10), I("recv", ch=2)]
    rng.shuffle(ops)
    main = [I("go", t=2)] + ops + [I("recv", ch=3), I("print")]
    # (the channel the worker sends on is unbuffered: with room in it the worker could send twice)
    return {"chans": [rng.choice([0, 1]), 0, rng.choice([0, 1])], "threads": [main, w]}


def crosssel(rng):
    """two workers in opposite selects on two unbuffered channels (each sends on the one the other receives from), equal values"""
    v = rng.choice([5, 8])
    s1 = I("selsend", chs=[1], schs=[2], vs=[v])
    s2 = I("selsend", chs=[2], schs=[1], vs=[v])
    k = rng.randint(1, 2)
    w1 = [dict(s1) for _ in range(k)] + [I("sendacc", ch=3)]
    w2 = [dict(s2) for _ in range(k)] + [I("sendacc", ch=3)]
    main = [I("go", t=2), I("go", t=3), I("recv", ch=3), I("recv", ch=3), I("print")]
    return {"chans": [0, 0, rng.choice([0, 2])], "threads": [main, w1, w2]}


# ---- panics, recover and deferred calls in goroutines
def recoversend(rng):
    """a goroutine panics, its deferred function recovers and then sends on the done channel"""
    k = rng.randint(0, 2)
    w = [I("defer", ds=[I("recover"), I("send", ch=2, v=1)])] + [I("send", ch=1, v=110 + j) for j in range(k)] + [I("panic"), I("send", ch=1, v=999)]
    main = [I("go", t=2)] + [I("recv", ch=1) for _ in range(k)] + [I("recv", ch=2), I("print"), I("lenp", ch=1)]
    return {"chans": [rng.choice([0, 2]), rng.choice([0, 1])], "threads": [main, w]}


def deferclose(rng):
    """the producer closes its channel from a deferred call (defer close(c)), with or without a second deferred function"""
    n = rng.randint(1, 3)
    w = [I("defer", ds=[I("close", ch=1)])]
    main = [I("go", t=2), I("range", ch=1), I("print")]
    chans = [rng.choice([0, 1, 2])]
    if rng.random() < 0.5:
        # deferred calls run last first: the send on done comes before the close
        w.append(I("defer", ds=[I("send", ch=2, v=2)]))
        chans.append(rng.choice([0, 1]))
        main = [I("go", t=2)] + [I("recv", ch=1) for _ in range(n)] + [I("recv", ch=2), I("recvok", ch=1, nok=100), I("print")]
    w += [I("send", ch=1, v=120 + j) for j in range(n)]
    return {"chans": chans, "threads": [main, w]}


def recoverrt(rng):
    """a run-time panic (close of a closed / nil channel, send on a closed channel, alone or as a select case) recovered
    by a deferred function, which then sends; the kind is part of the shape's name (it identifies the root cause)"""
    kind = rng.randint(0, 3)
    d = I("defer", ds=[I("recover"), I("sendacc", ch=2)])
    chans = [rng.choice([0, 1]), rng.choice([0, 1])]
    if kind == 0:
        w = [d, I("add", v=3), I("close", ch=1), I("close", ch=1), I("add", v=50)]
    elif kind == 1:
        w = [d, I("add", v=4), I("close", ch=1), I("send", ch=1, v=1), I("add", v=50)]
    elif kind == 2:
        w = [d, I("add", v=5), I("close", ch=1), I("add", v=50)]
        chans[0] = -1
    else:
        d = I("defer", ds=[I("recover"), I("selsend", chs=[], schs=[2], vs=[8])])
        w = [d, I("close", ch=1), I("selsend", chs=[], schs=[1], vs=[1]), I("add", v=50)]
    main = [I("go", t=2), I("recv", ch=2), I("print")]
    if rng.random() < 0.4:
        # main itself panics after the worker's value has arrived and recovers in a deferred function that prints
        main = [I("defer", ds=[I("recover"), I("print")]), I("go", t=2), I("recv", ch=2), I("panic"), I("printc", v=66)]
    return {"chans": chans, "threads": [main, w], "sub": ["-closeclosed", "-sendclosed", "-closenil", "-selclosed"][kind]}


# ---- unbuffered rendezvous chains a -> b -> c -> main
def chain3(rng):
    n = rng.randint(1, 2)
    a = [I("send", ch=1, v=130 + j) for j in range(n)]
    b, c, main = [], [], [I("go", t=t) for t in rng.sample([2, 3, 4], 3)]
    for _ in range(n):
        b += [I("recv", ch=1), I("add", v=1), I("sendacc", ch=2)]
        c += [I("recv", ch=2), I("sendacc", ch=3)]
        main += [I("recvp", ch=3)]
    return {"chans": [0, 0, 0], "threads": [main, a, b, c]}


def chain3sum(rng):
    """the same chain with closing: each stage forwards until its input is closed, then closes its output"""
    n = rng.randint(1, 3)
    a = [I("send", ch=1, v=140 + j) for j in range(n)] + [I("close", ch=1)]
    b = [I("rangefwd", ch=1, ch2=2, add=rng.randint(0, 2)), I("close", ch=2)]
    c = [I("defer", ds=[I("close", ch=3)]), I("rangefwd", ch=2, ch2=3, add=1)]
    main = [I("go", t=t) for t in rng.sample([2, 3, 4], 3)] + [I("loopok", ch=3, nok=1000), I("print")]
    return {"chans": [0, 0, 0], "threads": [main, a, b, c]}


def perturb(rng, p):
    """deliberately broken variants: TLC must classify them (deadlock / panic / nondeterministic)"""
    p = json.loads(json.dumps(p))
    ins_all = [(th, i, ins) for th in p["threads"] for i, ins in enumerate(th)]
    closes = [x for x in ins_all if x[2]["op"] == "close"]
    recovers = [x for x in ins_all if x[2]["op"] == "defer" and x[2]["ds"][0]["op"] == "recover"]
    polls = [x for x in ins_all if x[2]["op"] == "selnb"] if len(p["threads"]) > 1 else []
    kinds = (["dropclose", "dupclose"] if closes else []) + (["droprecover"] if recovers else []) + (["dflt"] if polls else []) \
        + (["nilchan"] if -1 not in p["chans"] else []) + (["workerprint"] if len(p["threads"]) > 1 else [])
    if not kinds:
        return p
    kind = rng.choice(kinds)
    p["shape"] += "+" + kind
    if kind == "dropclose":
        th, i, _ = closes[0]
        del th[i]
    elif kind == "dupclose":
        th, i, ins = closes[0]
        th.insert(i, dict(ins))
    elif kind == "droprecover":       # the panic is no longer recovered
        del recovers[0][2]["ds"][0]
    elif kind == "dflt":              # the number of polls that find the channel empty now shows in the sum
        polls[0][2]["dflt"] += 100
    elif kind == "nilchan":
        p["chans"][rng.randrange(len(p["chans"]))] = -1
    else:
        p["threads"][1].append(I("printc", v=3))
    return p


def tla(v):
    if isinstance(v, dict):
        return "[" + ", ".join(f"{k} |-> {tla(x)}" for k, x in v.items() if k not in ("shape", "native", "style")) + "]"
    if isinstance(v, list):
        return "<<" + ", ".join(tla(x) for x in v) + ">>"
    if isinstance(v, str):
        return '"' + v + '"'
    return str(v)


def run(ctx, only_ids=None):
    nprog = ctx.pick(52, 312)
    progs = gen_programs(random.Random(ctx.seed * 7919 + 1), nprog)
    batch = 26
    cases = []
    states = trans = 0
    verdicts, byshape = {}, {}
    for b in range(0, len(progs), batch):
        part = progs[b:b + batch]
        wd = ctx.stage(f"mc_{b // batch}", FAMS)
        (wd / "ConcGoProgs.tla").write_text(
            "---- MODULE ConcGoProgs ----\nEXTENDS Integers\nProgs == <<\n" + ",\n".join(tla(p) for p in part) + "\n>>\n====\n")
        rig.write_cfg(wd / "MC_ConcGo.cfg", spec="Spec", invariants=["Observe"], postcondition="Export")
        r = ctx.tlc(wd, "MC_ConcGo", workers=1, timeout=1200, must_pass=True)
        states += r.distinct
        trans += r.generated
        res = {c["id"]: c for c in rig.read_ndjson(wd / "cases.ndjson")}
        for p in part:
            v = res[p["id"]]
            verdicts[v["verdict"]] = verdicts.get(v["verdict"], 0) + 1
            # per shape (a "+kind" suffix marks a deliberately broken variant)
            sh = byshape.setdefault(p["shape"].split("-")[0] if "+" not in p["shape"] else "perturbed:" + p["shape"].split("+")[1], {})
            sh[v["verdict"]] = sh.get(v["verdict"], 0) + 1
            if v["verdict"] == "ok":
                # (a broken variant that is still valid is labelled with its base shape: signatures name the shape)
                cases.append({"id": p["id"], "prog": p, "exp": v["exp"], "shape": p["shape"].split("+")[0]})
    ctx.cov.update(states=states, transitions=trans, programs_generated=len(progs), model_verdicts=verdicts, model_verdicts_by_shape=byshape)
    if verdicts.get("ok", 0) < nprog // 2:
        raise Infra(f"generator produced too few valid programs: {verdicts}")
    if sum(v for k, v in verdicts.items() if k != "ok") == 0:
        raise Infra("no broken variant was classified by the model: the domain filter is not exercised")
    if only_ids is not None:
        cases = [c for c in cases if c["id"] in only_ids]
    rig.write_ndjson(ctx.work / "cases.ndjson", cases)
    obs = ctx.work / "obs.ndjson"
    racedir = ctx.work / "race"
    racedir.mkdir(exist_ok=True)
    ctx.drive("c14", ctx.work / "cases.ndjson", obs, race=True, timeout=2400,
              args=["-reps", ctx.pick(2, 6)], env={"GORACE": f"log_path={racedir}/r halt_on_error=0 exitcode=0"})
    allobs = rig.read_ndjson(obs)
    races = race_records(racedir)
    allobs += races
    rig.write_ndjson(obs, allobs)
    ctx.cov.update(evaluations=len(allobs), traces_validated_against_impl=len(allobs),
                   distinct_nontrivial=len({json.dumps(o["prog"], sort_keys=True) for o in allobs if o["kind"] == "run" and len(o["prog"]["threads"]) > 1}),
                   rule="seeded shape generator; a program counts if TLC found it deadlock-free, panic-free and deterministic over ALL schedules; non-trivial = more than one goroutine; each run under GOMAXPROCS 1/2/4/16 x repetitions with seeded yields",
                   exhaustive=False, race_reports=len(races),
                   samples=[{"shape": o["shape"], "gmp": o["gmp"], "exp": o["exp"], "out": o["out"], "src": o["src"][:400]} for o in rig.pick_samples([o for o in allobs if o["kind"] == "run"], 3, ctx.seed)])
    bads, _ = rig.trace_judge(ctx, "trace", FAMS, "Trace_ConcGo", obs)
    for b in bads:
        b["obs"] = allobs[b["k"] - 1]
    confirmed = []
    if bads:
        ids = sorted({b["id"] for b in bads if b["obs"]["kind"] == "run"})
        cc = ctx.work / "confirm_cases.ndjson"
        rig.write_ndjson(cc, [c for c in cases if c["id"] in ids])
        co = ctx.work / "confirm_obs.ndjson"
        racedir2 = ctx.work / "race2"
        racedir2.mkdir(exist_ok=True)
        ctx.drive("c14", cc, co, race=True, timeout=2400, args=["-reps", 10], env={"GORACE": f"log_path={racedir2}/r halt_on_error=0 exitcode=0"})
        o2 = rig.read_ndjson(co) + race_records(racedir2)
        if any(b["obs"]["kind"] == "race" for b in bads) and not ids:
            # a race with no failing program: re-run everything once
            ctx.drive("c14", ctx.work / "cases.ndjson", co, race=True, timeout=2400, args=["-reps", 3], env={"GORACE": f"log_path={racedir2}/r halt_on_error=0 exitcode=0"})
            o2 = rig.read_ndjson(co) + race_records(racedir2)
        rig.write_ndjson(co, o2)
        b2, _ = rig.trace_judge(ctx, "trace_confirm", FAMS, "Trace_ConcGo", co)
        keys = {json.dumps(b["sig"], sort_keys=True) for b in b2}
        confirmed = [b for b in bads if json.dumps(b["sig"], sort_keys=True) in keys]
        ctx.cov["unreproduced"] = len(bads) - len(confirmed)
        for b in confirmed:
            o = b["obs"]
            b["what"] = {k: o.get(k) for k in ("shape", "gmp", "exp", "out", "outcome", "detail", "where", "src")}
    ok = [o for o in allobs if o["kind"] == "run" and o["outcome"] == "ok" and o["out"]][:2]
    st = []
    for o in ok:
        c = json.loads(json.dumps(o))
        c["out"][-1] += 1
        st.append(c)
    if st:
        p = ctx.work / "selftest_obs.ndjson"
        rig.write_ndjson(p, st)
        b3, _ = rig.trace_judge(ctx, "trace_selftest", FAMS, "Trace_ConcGo", p)
        ctx.cov["sensitivity_selftest"] = {"corrupted": len(st), "rejected": len(b3)}
        if len(b3) < len(st):
            raise Infra("sensitivity self-test failed")

    def rw(rdir, b):
        (rdir / "case.json").write_text(json.dumps({"id": b["obs"].get("id")}))
        (rdir / "obs.json").write_text(json.dumps(b["obs"]))
    return ctx.report(confirmed, replay_writer=rw)


def race_records(d):
    out = []
    for f in sorted(glob.glob(str(d) + "/r.*")):
        txt = open(f).read()
        for rep in txt.split("WARNING: DATA RACE")[1:]:
            frames = re.findall(r"^\s+(github\.com/open2b/scriggo[^\s(]*)\(", rep, re.M)
            where = frames[0] if frames else "unknown"
            out.append({"id": 0, "kind": "race", "where": where, "text": rep[:1500], "outcome": "race", "shape": "", "exp": [], "out": [],
                        "prog": {"threads": []}, "gmp": 0, "src": ""})
    # one record per distinct site
    seen, uniq = set(), []
    for o in out:
        if o["where"] not in seen:
            seen.add(o["where"])
            uniq.append(o)
    return uniq


def replay(ctx, path):
    c = json.loads((path / "case.json").read_text())
    return run(ctx, only_ids={c["id"]})

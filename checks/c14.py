"""C14 - goroutine and channel programs agree with gc under every schedule (DESIGN 7/C14)."""
import json, random, shutil, glob, os, re, rig
from rig import Infra

META = {
    "engine": "ConcGo",
    "technique": "TLA+ interpreter of Go's goroutine/channel semantics (ConcGo.tla); TLC explores every schedule of each generated program and decides deadlock-freedom, panic-freedom and output determinism, yielding the unique expected output; the programs are run on the real VM (go statement allowed) under several GOMAXPROCS and hook-injected yields with the race detector; outputs judged by a TLC Trace spec",
    "level": "model_checking",
    "level_text": "For each seeded batch of concurrent programs (pipelines, fan-in, fan-out, select fan-in, select statements with several send cases and receive cases, ping-pong, buffered/unbuffered, close/range, plus deliberately broken variants), TLC explores ALL schedules of the ConcGo model: programs that can deadlock, panic or print schedule-dependent output are discarded as outside the property's domain, for the others the unique output over all schedules is the expected output. Each valid program is built by the real scriggo and run under GOMAXPROCS 1/2/4/16 with seeded yields injected at the channel hooks, in a -race build; every run's printed output must equal the model's output and the race detector must stay silent.",
    "level_note": "Trusted: TLC, the concretiser (record -> Go source, string templates), Go's race detector for data races (the spec supplies the programs and yield points, not race detection itself). gc itself is not run on the passing path: the Go semantics is the TLA+ model. sync/time-based programs are not generated.",
    "design_ref": "7/C14",
}
FAMS = ["concgo"]


# ------------------------------------------------------------------ seeded generator of shapes
def gen_programs(rng, n):
    out = []
    shapes = [pipeline, fanin, fanout, selectfanin, buffered_only, pingpong, waitgroup, closer, natburst, selectsend]
    for i in range(n):
        f = shapes[i % len(shapes)]
        p = f(rng)
        p["shape"] = f.__name__
        # threads whose body is a single send / close may be started as `go` on a HOST function / builtin
        p["native"] = [t + 1 for t, th in enumerate(p["threads"]) if t > 0 and len(th) == 1 and th[0]["op"] in ("send", "close") and (p.get("allnative") or rng.random() < 0.6)]
        p.pop("allnative", None)
        p["style"] = rng.randint(0, 2)
        if rng.random() < 0.15:
            p = perturb(rng, p)
        p["id"] = i + 1
        out.append(p)
    return out


def I(op, **kw):
    d = {"op": op}
    d.update(kw)
    return d


def pipeline(rng):
    k = rng.randint(1, 3)
    n = rng.randint(1, 4)
    chans = [rng.choice([0, 0, 1, 2]) for _ in range(k + 1)]
    threads = [[]]
    # producer
    threads.append([I("send", ch=1, v=100 + i) for i in range(n)] + [I("close", ch=1)])
    for j in range(k):
        threads.append([I("rangefwd", ch=j + 1, ch2=j + 2, add=rng.randint(0, 3)), I("close", ch=j + 2)])
    main = [I("go", t=t) for t in range(2, len(threads) + 1)]
    rng.shuffle(main)
    main += [I(rng.choice(["range", "rangep"]), ch=k + 1), I("print")]
    threads[0] = main
    return {"chans": chans, "threads": threads}


def fanin(rng):
    m = rng.randint(2, 3)
    n = rng.randint(1, 2 if m == 3 else 3)
    chans = [rng.choice([0, 1, 3]), rng.choice([0, m])]   # data, done
    threads = [[]]
    for k in range(m):
        threads.append([I("send", ch=1, v=(k + 1) * 100 + i) for i in range(n)] + [I("send", ch=2, v=1)])
    threads.append([I("recv", ch=2) for _ in range(m)] + [I("close", ch=1)])
    main = [I("go", t=t) for t in range(2, len(threads) + 1)]
    rng.shuffle(main)
    main += [I("range", ch=1), I("print")]
    threads[0] = main
    return {"chans": chans, "threads": threads}


def fanout(rng):
    w = 2
    n = rng.randint(1, 4)
    chans = [rng.choice([0, 1, 2]), rng.choice([0, w])]
    threads = [[]]
    threads.append([I("send", ch=1, v=10 + i) for i in range(n)] + [I("close", ch=1)])
    for _ in range(w):
        threads.append([I("range", ch=1), I("sendacc", ch=2)])
    main = [I("go", t=t) for t in range(2, len(threads) + 1)]
    main += [I("recv", ch=2) for _ in range(w)] + [I("print")]
    threads[0] = main
    return {"chans": chans, "threads": threads}


def selectfanin(rng):
    na, nb = rng.randint(1, 3), rng.randint(1, 3)
    chans = [rng.choice([0, 1]), rng.choice([0, 2])]
    threads = [[], [I("send", ch=1, v=100 + i) for i in range(na)], [I("send", ch=2, v=200 + i) for i in range(nb)]]
    main = [I("go", t=2), I("go", t=3)] + [I("selrecv", chs=[1, 2]) for _ in range(na + nb)] + [I("print")]
    threads[0] = main
    return {"chans": chans, "threads": threads}


def selectsend(rng):
    """select statements with several send cases (each with its own value) and possibly receive cases"""
    a, b = rng.choice([(11, 22), (22, 11), (5, 700)])
    kind = rng.randint(0, 2)
    if kind == 0:
        # only one case can proceed: a buffered channel with room and an unbuffered one nobody receives from
        order = rng.choice([[1, 2], [2, 1]])
        vs = {1: a, 2: b}
        main = [I("selsend", chs=[], schs=order, vs=[vs[c] for c in order]), I("recvp", ch=1), I("printc", v=3)]
        return {"chans": [1, 0], "threads": [main]}
    if kind == 1:
        # two buffered channels of capacity one: the second select must take the other case
        sel = I("selsend", chs=[], schs=[1, 2], vs=[a, b])
        main = [sel, dict(sel), I("recvp", ch=1), I("recvp", ch=2)]
        return {"chans": [1, 1], "threads": [main]}
    # two workers each receive once and send back what they got; main sends and collects with one select
    cap3 = rng.choice([0, 2])
    sel = I("selsend", chs=[3], schs=[1, 2], vs=[a, b])
    threads = [[I("go", t=2), I("go", t=3)] + [dict(sel) for _ in range(4)] + [I("print")],
               [I("recv", ch=1), I("sendacc", ch=3)], [I("recv", ch=2), I("sendacc", ch=3)]]
    return {"chans": [rng.choice([0, 1]), 0, cap3], "threads": threads}


def buffered_only(rng):
    n = rng.randint(1, 4)
    main = [I("send", ch=1, v=7 + i) for i in range(n)] + [I("close", ch=1), I("rangep", ch=1), I("recvp", ch=1), I("printc", v=5)]
    return {"chans": [n], "threads": [main]}


def pingpong(rng):
    k = rng.randint(1, 3)
    chans = [rng.choice([0, 1]), rng.choice([0, 1])]
    t2 = []
    main = [I("go", t=2)]
    for i in range(k):
        main += [I("send", ch=1, v=i + 1), I("recv", ch=2)]
        t2 += [I("recv", ch=1), I("sendacc", ch=2)]
    main.append(I("print"))
    return {"chans": chans, "threads": [main, t2]}


def closer(rng):
    """main sends n items into a buffered channel, a goroutine closes it, main drains by range (go close(c))"""
    n = rng.randint(1, 3)
    main = [I("send", ch=1, v=40 + i) for i in range(n)] + [I("go", t=2), I("range", ch=1), I("print")]
    return {"chans": [n], "threads": [main, [I("close", ch=1)]]}


def natburst(rng):
    """main starts n goroutines on a HOST function in a row (go p.Send(c, k)), then sums what arrives"""
    n = rng.randint(2, 4)
    chans = [rng.choice([0, 1, n])]
    threads = [[]] + [[I("send", ch=1, v=10 * (k + 1) + k)] for k in range(n)]
    threads[0] = [I("go", t=t) for t in range(2, n + 2)] + [I("recv", ch=1) for _ in range(n)] + [I("print")]
    return {"chans": chans, "threads": threads, "allnative": True}


def waitgroup(rng):
    m = rng.randint(1, 3)
    chans = [rng.choice([0, m])]
    threads = [[]]
    for k in range(m):
        threads.append([I("send", ch=1, v=k + 1)])
    main = [I("printc", v=1)] + [I("go", t=t) for t in range(2, m + 2)] + [I("recv", ch=1) for _ in range(m)] + [I("print"), I("printc", v=9)]
    threads[0] = main
    return {"chans": chans, "threads": threads}


def perturb(rng, p):
    """deliberately broken variants: TLC must classify them (deadlock / panic / nondeterministic)"""
    p = json.loads(json.dumps(p))
    kind = rng.choice(["dropclose", "dupclose", "workerprint"])
    for th in p["threads"]:
        for i, ins in enumerate(th):
            if kind == "dropclose" and ins["op"] == "close":
                del th[i]
                p["shape"] += "+dropclose"
                return p
            if kind == "dupclose" and ins["op"] == "close":
                th.insert(i, dict(ins))
                p["shape"] += "+dupclose"
                return p
    if len(p["threads"]) > 1:
        p["threads"][1].append(I("printc", v=3))
        p["shape"] += "+workerprint"
    return p


def tla(v):
    if isinstance(v, dict):
        return "[" + ", ".join(f"{k} |-> {tla(x)}" for k, x in v.items() if k not in ("shape", "native", "style")) + "]"
    if isinstance(v, list):
        return "<<" + ", ".join(tla(x) for x in v) + ">>"
    if isinstance(v, str):
        return '"' + v + '"'
    return str(v)


def run(ctx, only_ids=None):
    nprog = ctx.pick(42, 280)
    progs = gen_programs(random.Random(ctx.seed * 7919 + 1), nprog)
    batch = 14
    cases = []
    states = trans = 0
    verdicts = {}
    for b in range(0, len(progs), batch):
        part = progs[b:b + batch]
        wd = ctx.stage(f"mc_{b // batch}", FAMS)
        (wd / "ConcGoProgs.tla").write_text(
            "---- MODULE ConcGoProgs ----\nProgs == <<\n" + ",\n".join(tla(p) for p in part) + "\n>>\n====\n")
        rig.write_cfg(wd / "MC_ConcGo.cfg", spec="Spec", invariants=["Observe"], postcondition="Export")
        r = ctx.tlc(wd, "MC_ConcGo", workers=1, timeout=1200, must_pass=True)
        states += r.distinct
        trans += r.generated
        res = {c["id"]: c for c in rig.read_ndjson(wd / "cases.ndjson")}
        for p in part:
            v = res[p["id"]]
            verdicts[v["verdict"]] = verdicts.get(v["verdict"], 0) + 1
            if v["verdict"] == "ok":
                cases.append({"id": p["id"], "prog": p, "exp": v["exp"], "shape": p["shape"]})
    ctx.cov.update(states=states, transitions=trans, programs_generated=len(progs), model_verdicts=verdicts)
    if verdicts.get("ok", 0) < nprog // 2:
        raise Infra(f"generator produced too few valid programs: {verdicts}")
    if sum(v for k, v in verdicts.items() if k != "ok") == 0:
        raise Infra("no broken variant was classified by the model: the domain filter is not exercised")
    if only_ids is not None:
        cases = [c for c in cases if c["id"] in only_ids]
    rig.write_ndjson(ctx.work / "cases.ndjson", cases)
    obs = ctx.work / "obs.ndjson"
    racedir = ctx.work / "race"
    racedir.mkdir(exist_ok=True)
    ctx.drive("c14", ctx.work / "cases.ndjson", obs, race=True, timeout=2400,
              args=["-reps", ctx.pick(2, 6)], env={"GORACE": f"log_path={racedir}/r halt_on_error=0 exitcode=0"})
    allobs = rig.read_ndjson(obs)
    races = race_records(racedir)
    allobs += races
    rig.write_ndjson(obs, allobs)
    ctx.cov.update(evaluations=len(allobs), traces_validated_against_impl=len(allobs),
                   distinct_nontrivial=len({json.dumps(o["prog"], sort_keys=True) for o in allobs if o["kind"] == "run" and len(o["prog"]["threads"]) > 1}),
                   rule="seeded shape generator; a program counts if TLC found it deadlock-free, panic-free and deterministic over ALL schedules; non-trivial = more than one goroutine; each run under GOMAXPROCS 1/2/4/16 x repetitions with seeded yields",
                   exhaustive=False, race_reports=len(races),
                   samples=[{"shape": o["shape"], "gmp": o["gmp"], "exp": o["exp"], "out": o["out"], "src": o["src"][:400]} for o in rig.pick_samples([o for o in allobs if o["kind"] == "run"], 3, ctx.seed)])
    bads, _ = rig.trace_judge(ctx, "trace", FAMS, "Trace_ConcGo", obs)
    for b in bads:
        b["obs"] = allobs[b["k"] - 1]
    confirmed = []
    if bads:
        ids = sorted({b["id"] for b in bads if b["obs"]["kind"] == "run"})
        cc = ctx.work / "confirm_cases.ndjson"
        rig.write_ndjson(cc, [c for c in cases if c["id"] in ids])
        co = ctx.work / "confirm_obs.ndjson"
        racedir2 = ctx.work / "race2"
        racedir2.mkdir(exist_ok=True)
        ctx.drive("c14", cc, co, race=True, timeout=2400, args=["-reps", 10], env={"GORACE": f"log_path={racedir2}/r halt_on_error=0 exitcode=0"})
        o2 = rig.read_ndjson(co) + race_records(racedir2)
        if any(b["obs"]["kind"] == "race" for b in bads) and not ids:
            # a race with no failing program: re-run everything once
            ctx.drive("c14", ctx.work / "cases.ndjson", co, race=True, timeout=2400, args=["-reps", 3], env={"GORACE": f"log_path={racedir2}/r halt_on_error=0 exitcode=0"})
            o2 = rig.read_ndjson(co) + race_records(racedir2)
        rig.write_ndjson(co, o2)
        b2, _ = rig.trace_judge(ctx, "trace_confirm", FAMS, "Trace_ConcGo", co)
        keys = {json.dumps(b["sig"], sort_keys=True) for b in b2}
        confirmed = [b for b in bads if json.dumps(b["sig"], sort_keys=True) in keys]
        ctx.cov["unreproduced"] = len(bads) - len(confirmed)
        for b in confirmed:
            o = b["obs"]
            b["what"] = {k: o.get(k) for k in ("shape", "gmp", "exp", "out", "outcome", "detail", "where", "src")}
    ok = [o for o in allobs if o["kind"] == "run" and o["outcome"] == "ok" and o["out"]][:2]
    st = []
    for o in ok:
        c = json.loads(json.dumps(o))
        c["out"][-1] += 1
        st.append(c)
    if st:
        p = ctx.work / "selftest_obs.ndjson"
        rig.write_ndjson(p, st)
        b3, _ = rig.trace_judge(ctx, "trace_selftest", FAMS, "Trace_ConcGo", p)
        ctx.cov["sensitivity_selftest"] = {"corrupted": len(st), "rejected": len(b3)}
        if len(b3) < len(st):
            raise Infra("sensitivity self-test failed")

    def rw(rdir, b):
        (rdir / "case.json").write_text(json.dumps({"id": b["obs"].get("id")}))
        (rdir / "obs.json").write_text(json.dumps(b["obs"]))
    return ctx.report(confirmed, replay_writer=rw)


def race_records(d):
    out = []
    for f in sorted(glob.glob(str(d) + "/r.*")):
        txt = open(f).read()
        for rep in txt.split("WARNING: DATA RACE")[1:]:
            frames = re.findall(r"^\s+(github\.com/open2b/scriggo[^\s(]*)\(", rep, re.M)
            where = frames[0] if frames else "unknown"
            out.append({"id": 0, "kind": "race", "where": where, "text": rep[:1500], "outcome": "race", "shape": "", "exp": [], "out": [],
                        "prog": {"threads": []}, "gmp": 0, "src": ""})
    # one record per distinct site
    seen, uniq = set(), []
    for o in out:
        if o["where"] not in seen:
            seen.add(o["where"])
            uniq.append(o)
    return uniq


def replay(ctx, path):
    c = json.loads((path / "case.json").read_text())
    return run(ctx, only_ids={c["id"]})

"""C29 - rewriting Markdown link destinations changes only link destinations (DESIGN section 7 C29).

The functions under test live in package main of cmd/scriggo, so the replay goes through the build-tagged
test file cmd/scriggo/verif_linkdest_test.go (hook; staged in /verif/hooks-staging) run with `go test`.

`python3 checks/c29.py --gen` regenerates spec/linkdest/LinkDestKinds.tla (the block-kind table as byte
tuples) from the readable table KINDS below; every run verifies that the committed module is that text.
"""
import json, os, re, shutil, subprocess, sys, time
from pathlib import Path
from concurrent.futures import ThreadPoolExecutor

if __name__ == "__main__":
    sys.path.insert(0, str(Path(__file__).resolve().parent.parent / "lib"))
import rig
from rig import Infra

META = {
    "title": "Markdown link destination rewriting",
    "engine": "LinkDest",
    "technique": "TLA+ reference (documents built from self-delimiting blocks whose link-destination spans are known by construction; fence documents whose code/link classification is computed from the CommonMark 4.5 fence rules; query documents whose destination is a CommonMark-escaped punctuation string; RFC 3986-style Rewrite; CommonMark backslash unescape; well-formed destination) + implementation-shaped model of the line scanner of cmd/scriggo/linkdestination.go and of mdescape.go, model-checked by TLC over every block sequence and every fence-line sequence; every document replayed into the real linkDestinationReplacer.replace (once and twice) through a -tags verif test file in cmd/scriggo; outputs judged by a TLC Trace spec",
    "level": "model_checking",
    "level_text": "TLC explores every document made of <=2 blocks over all 57 block kinds and <=3 (quick) / <=4 (thorough) blocks over the 16 core kinds (inline links in 8 spellings, reference definitions, images, headings/list items/block quotes, code spans, backquote and tilde fences with longer closing fence / shorter fence inside / info string / a fence line with an info string inside, indented code, HTML blocks / raw-text elements with upper-case end tag / <pre> / comments, absolute / mailto / fragment / query / dot / extension-less / trailing-slash / root / scheme-relative destinations, plus stress kinds: autolink, unclosed HTML, multi-line code span and link text, fence in a block quote, 4-space nested list, unbalanced backquote) and every fence document of <=3 fence lines over {backquote, tilde} x run length {3,4} x 4 (quick) / 6 (thorough) variants (plain, trailing spaces, info string, indented by 4, indented by 3, space + info string) with a link line after each fence line, and checks that the transcribed scanner (inFence, htmlState stack/rawTag/rawCloser, codeSpanLen, link-stack depth) rewrites exactly the ground-truth spans (for fence documents: the spans the CommonMark 4.5 opening/closing-fence rules leave outside code) and that its Rewrite meets the RFC 3986-style reference; TLC exports the same documents with their spans, plus 4228 query documents ([a](p1/q?k S v) for every string S of <=2 bytes over the ASCII punctuation without '%' and a letter, bare and between angle brackets, every punctuation byte escaped or only \\ ( ) < > escaped); the real replace() is run on each document (and on its own output) and the TLA+ Trace spec decides: bytes outside real destinations unchanged, code/HTML/non-link destinations untouched, absolute/fragment/query destinations kept, every relative destination rewritten to a URL under the base that is still a CommonMark destination and, read back with the CommonMark unescape, has the source's query and fragment, idempotent; markdownUnescape(markdownURLEscape(u)) = u for every string of <=3/<=5 bytes over a 9-symbol punctuation alphabet and every string of <=2/<=3 bytes over all 32 ASCII punctuation bytes, a letter and a space.",
    "level_note": "Trusted: TLC, the Json module, the ~200-line Go test file that only calls the functions and logs (goldmark's link destinations are logged only when a violation is being confirmed - oracle guard), python glue that copies files and counts. 'What is a link' is decided by construction for the generated block kinds, not for CommonMark as a whole: container nesting beyond one block quote / one nested list, fences inside containers other than that block quote, fence lines with tabs, setext headings, link reference definitions spanning lines, entity references inside destinations, tabs, CRLF and non-ASCII text are not generated. Exact spelling of the rewritten URL (.html -> .md, percent-encoding) is compared with the implementation-shaped model only (model_drift, diagnostic); the property-level clauses are 'absolute, under the base', 'query and fragment kept modulo percent-encoding' (RFC 3986 5.2.2) and 'still a destination' (CommonMark 6.3). Destinations whose query/fragment has '%', a space or a non-ASCII byte are ref_undefined. The output is not parsed by goldmark (the hook logs goldmark's reading of the source only).",
    "design_ref": "7/C29",
}

FAMS = ["linkdest"]
MC_INVS = ["ModelMeetsRef", "ModelOutputAbsolute"]
HOOK = "cmd/scriggo/verif_linkdest_test.go"
GO_TIMEOUT = 420

# ------------------------------------------------------------------------------------------------
# Block kinds.  Text of one block; {cls:dest} marks a destination-looking span with its ground truth:
#   rel     a real link destination that is relative        -> must be rewritten to an absolute URL
#   stay    a real link destination that must be kept (absolute URL, only query and/or fragment)
#   code    destination-looking text inside a code span / code block   -> must be untouched
#   html    destination-looking text inside raw HTML                   -> must be untouched
#   nonlink destination-looking text that is not part of a link        -> must be untouched
# '^' is replaced by the 1-based position of the block in the document (keeps destinations distinct).
# (name, core, open, text); open = the block leaves an HTML-tag-like construct unclosed (signature only).
# ------------------------------------------------------------------------------------------------
KINDS = [
    ("inl_plain", 1, 0, "See [text]({rel:p^/q.html}) here."),
    ("inl_angle", 1, 0, "[text](<{rel:p^/q.html}>)"),
    ("inl_title", 1, 0, "[text]({rel:p^/q.html} \"Ti tle\")"),
    ("inl_title_paren", 0, 0, "[text]( {rel:p^/q.html} (t) )"),
    ("inl_nested", 1, 0, "[a [b] c]({rel:p^/q.html})"),
    ("inl_escparen", 1, 0, "[text]({rel:p^/q\\(1\\).html})"),
    ("inl_balparen", 0, 0, "[text]({rel:p^/q(1).html})"),
    ("refdef", 1, 0, "[x^]: {rel:p^/q.html} \"t\""),
    ("refdef_angle", 0, 0, "[y^]: <{rel:p^/q.html}>"),
    ("image", 1, 0, "![alt]({rel:i^/logo.png})"),
    ("two_links", 0, 0, "[a]({rel:p^/a.html}) and [b]({rel:p^/b})"),
    ("heading", 0, 0, "# T [a]({rel:p^/q.html})"),
    ("list_item", 0, 0, "- [a]({rel:p^/q.html})"),
    ("quote", 0, 0, "> [a]({rel:p^/q.html})"),
    ("esc_bracket", 0, 0, "\\[no]({nonlink:f^/g.html}) [yes]({rel:p^/q.html})"),
    ("spaced_paren", 0, 0, "[no] ({nonlink:f^/g.html})"),
    ("codespan", 1, 0, "Use `[f]({code:f^/g.html})` here."),
    ("codespan2", 0, 0, "``x ` [f]({code:f^/g.html})``"),
    ("codespan_inner_run", 0, 0, "`a``[f]({code:f^/g.html})``b`"),
    ("fence_bq", 1, 0, "```\n[f]({code:f^/g.html})\n```"),
    ("fence_tilde_long", 1, 0, "~~~\n[f]({code:f^/g.html})\n~~~~"),
    ("fence_short_inside", 1, 0, "````\n[f]({code:f^/g.html})\n```\n[g]({code:f^/h.html})\n````"),
    ("fence_info", 0, 0, "```go\n[f]({code:f^/g.html})\n```"),
    ("fence_tilde_bq", 0, 0, "~~~ a`b\n[f]({code:f^/g.html})\n~~~"),
    ("fence_info_inside", 0, 0, "~~~\n~~~ text\n[f]({code:f^/g.html})\n~~~"),
    ("fence_bq_info_inside", 0, 0, "```\n````go\n[f]({code:f^/g.html})\n```"),
    ("indented", 1, 0, "Text:\n\n    [f]({code:f^/g.html})"),
    ("html_div", 1, 0, "<div>\n[f]({html:f^/g.html})\n</div>"),
    ("html_script", 1, 0, "<script>\n[f]({html:f^/g.html})\n\n[g]({html:f^/h.html})\n</SCRIPT>"),
    ("html_pre", 0, 0, "<pre>\n[f]({html:f^/g.html})\n</pre>"),
    ("html_comment", 1, 0, "<!-- [f]({html:f^/g.html}) -->"),
    ("html_comment_ml", 0, 0, "<!--\n[f]({html:f^/g.html})\n\n[g]({html:f^/h.html})\n-->"),
    ("html_pi", 0, 0, "<?x [f]({html:f^/g.html}) ?>"),
    ("html_cdata", 0, 0, "<![CDATA[\n[f]({html:f^/g.html})\n]]>"),
    ("html_decl", 0, 0, "<!DOCTYPE html>"),
    ("d_abs", 0, 0, "[a]({stay:https://other.org/p^})"),
    ("d_mailto", 0, 0, "[a]({stay:mailto:u^@x.org})"),
    ("d_frag", 1, 0, "[a]({stay:#s^})"),
    ("d_query", 0, 0, "[a]({stay:?q=^})"),
    ("d_qf", 0, 0, "[a]({stay:?q=^#s})"),
    ("d_up", 0, 0, "[a]({rel:../u^.html})"),
    ("d_dot", 0, 0, "[a]({rel:./d^})"),
    ("d_noext", 0, 0, "[a]({rel:n^})"),
    ("d_slash", 0, 0, "[a]({rel:s^/})"),
    ("d_root", 0, 0, "[a]({rel:/r^})"),
    ("d_net", 0, 0, "[a]({rel://cdn.org/l^.js})"),
    ("d_relfrag", 0, 0, "[a]({rel:p^/q.html#frag})"),
    ("d_relquery", 0, 0, "[a]({rel:p^/q?x=1})"),
    ("d_md", 0, 0, "[a]({rel:r^.md})"),
    ("d_upup", 0, 0, "[a]({rel:../../../w^})"),
    # stress kinds: constructs whose extent is not one line / that look like HTML
    ("autolink", 0, 1, "<https://other.org/a^>"),
    ("html_unclosed", 0, 1, "<div>\n[f]({html:f^/g.html})"),
    ("codespan_ml", 0, 0, "`x\n[f]({code:f^/g.html})`"),
    ("linktext_ml", 0, 0, "[a\nb]({rel:p^/q.html})"),
    ("quote_fence", 0, 0, "> ```\n> [f]({code:f^/g.html})\n> ```"),
    ("nested_list4", 0, 0, "- a\n    - b [x]({rel:p^/q.html})"),
    ("bq_unbalanced", 0, 0, "x ` y [a]({rel:p^/q.html})"),
]

SEG = re.compile(r"\{(rel|stay|code|html|nonlink):([^}]*)\}")


def segments(text):
    out, pos = [], 0
    for m in SEG.finditer(text):
        if m.start() > pos:
            out.append(("lit", text[pos:m.start()]))
        out.append((m.group(1), m.group(2)))
        pos = m.end()
    if pos < len(text):
        out.append(("lit", text[pos:]))
    return out


def tla_bytes(s):
    return "<<" + ",".join("0" if b == 94 else str(b) for b in s.encode()) + ">>"      # 94 = '^'


def kinds_module():
    L = ["---------------------------- MODULE LinkDestKinds ----------------------------",
         "(* C29: the block-kind table of LinkDest.tla as byte tuples.  GENERATED by `python3 checks/c29.py --gen`",
         "   from the readable table KINDS of checks/c29.py (TLC cannot index TLA+ strings); every run of the check",
         "   verifies that this file is exactly the generated text.  Each kind is a sequence of segments",
         "   [c |-> class, b |-> bytes]: class \"lit\" is literal text, any other class is a destination-looking span",
         "   with its ground truth (rel / stay / code / html / nonlink, see LinkDest.tla).  Byte 0 stands for the",
         "   decimal digit of the block's 1-based position in the document. *)",
         "Kinds == <<"]
    rows = []
    for name, core, opn, text in KINDS:
        shown = text.replace("\n", "\\n")
        segs = ",\n      ".join('[c |-> "%s", b |-> %s]' % (c, tla_bytes(b)) for c, b in segments(text))
        rows.append('  \\* %s\n  [name |-> "%s", core |-> %s, open |-> %s, segs |-> <<\n      %s>>]'
                    % (shown, name, "TRUE" if core else "FALSE", "TRUE" if opn else "FALSE", segs))
    L.append(",\n".join(rows))
    L.append(">>")
    L.append("=============================================================================")
    return "\n".join(L) + "\n"


def check_kinds_module():
    f = rig.SPEC / "linkdest" / "LinkDestKinds.tla"
    if not f.exists() or f.read_text() != kinds_module():
        raise Infra("spec/linkdest/LinkDestKinds.tla is not the text generated from KINDS: run python3 checks/c29.py --gen")


# kinds on which the implementation-shaped model is known to deviate from the reference (each one is a finding
# demonstrated on the real code, see PROPOSED_KNOWN); MC_LinkDest does not assert documents containing them.
EXCUSED = ["codespan_inner_run", "autolink", "html_unclosed", "codespan_ml", "linktext_ml", "quote_fence",
           "nested_list4", "bq_unbalanced"]

# Genuine defects demonstrated by this check on the unchanged tree (each confirmed by goldmark on the violation
# path); minimal documents, code locations and proposed repairs are in the C29 report.
# Three of the eight defects found by the first version of this check were fixed in /repo (autolink, html_unclosed,
# codespan_inner_run: the implementation-shaped model still transcribes the code BEFORE those fixes, so they stay in EXCUSED and
# show as model drift); the other five are known findings (known-findings.json).
# The query documents (every punctuation string in a query, CommonMark-escaped) exposed two more, confirmed with goldmark:
#  (1) isMarkdownEscapable (mdescape.go) lists 21 of the 32 ASCII punctuation characters CommonMark lets a backslash escape;
#      for the other ones markdownUnescape keeps the backslash of \c (so `[a](a\,b.html)` becomes .../a%5C,b.md and
#      `[a](q?k\#\"v)` gets the fragment %5C%22v) and markdownURLEscape does not double a backslash before c (so `[a](q?k\\"v)`,
#      which denotes q?k\"v, is written ...q.md?k\"v, which denotes q.md?k"v);
#  (2) markdownURLEscape protects backslashes only: an unbalanced parenthesis of the query that was escaped in the source is
#      written bare (`[a](q?k\(v)` -> `[a](https://.../q.md?k(v)`, not a link any more), and so are '<' and '>' inside <...>.
_NOT_LISTED = {34: '"', 36: "$", 39: "'", 44: ",", 47: "/", 58: ":", 59: ";", 63: "?", 64: "@", 94: "^"}   # ('%' is not generated)
PROPOSED_KNOWN = []   # integrated into known-findings.json


def consts(ctx):
    return {"AllLen": 2, "CoreLen": ctx.pick(3, 4), "Excused": set(EXCUSED), "EscLen": ctx.pick(3, 5),
            "FenceRuns": {3, 4}, "FenceVars": ctx.pick(4, 6), "FenceLen": 3, "QLen": 2, "EscWideLen": ctx.pick(2, 3)}


def go_test(ctx, infile, outfile, oracle=False):
    """Replay: go test -tags verif -run ^TestVerifLinkDest$ in the repository under test (the hook reads
    VERIF_C29_IN, writes VERIF_C29_OUT).  Any failure of the machinery is Infra, never a verdict."""
    if not (rig.REPO / HOOK).exists():
        raise Infra(f"hook file missing: {rig.REPO / HOOK} (staged copy: {rig.ROOT / 'hooks-staging' / HOOK})")
    env = rig.goenv()
    env["VERIF_C29_IN"], env["VERIF_C29_OUT"] = str(infile), str(outfile)
    env.pop("VERIF_C29_ORACLE", None)
    if oracle:
        env["VERIF_C29_ORACLE"] = "1"
    out = Path(outfile)
    if out.exists():
        out.unlink()
    cmd = ["go", "test", "-tags", "verif", "-run", "^TestVerifLinkDest$", "-count=1", "./cmd/scriggo/"]
    t = time.time()
    try:
        p = subprocess.run(cmd, cwd=rig.REPO, env=env, stdout=subprocess.PIPE, stderr=subprocess.STDOUT, text=True,
                           timeout=GO_TIMEOUT)
    except subprocess.TimeoutExpired:
        raise Infra(f"go test timed out after {GO_TIMEOUT}s")
    if p.returncode != 0 or not out.exists():
        raise Infra(f"go test -tags verif ./cmd/scriggo failed rc={p.returncode}:\n" + rig.tail(p.stdout, 30))
    return time.time() - t


def show(o):
    if o["k"] == "esc":
        return {"k": "esc", "u": rig.b2s(o["u"]), "esc": rig.b2s(o["esc"]), "unesc": rig.b2s(o["unesc"])}
    d = {"k": "doc", "kinds": o["kinds"], "base": rig.b2s(o["base"]), "dir": rig.b2s(o["dir"]), "src": rig.b2s(o["src"]),
         "spans": [[sp["s"], sp["e"], sp["c"]] for sp in o["spans"]], "out": rig.b2s(o["out"])}
    if o["out2"] != o["out"]:
        d["out2"] = rig.b2s(o["out2"])
    if o.get("outcome") != "ok":
        d["outcome"], d["err"] = o.get("outcome"), o.get("err")
    if "gm" in o:
        d["goldmark_destinations"] = o["gm"]
    return d


def case_of(o):
    keys = ("id", "k", "u") if o["k"] == "esc" else ("id", "k", "kinds", "src", "spans", "base", "dir")
    return {k: o[k] for k in keys}


def nontrivial(o):
    return o["k"] == "doc" and o.get("out") != o.get("src") or o["k"] == "esc" and o.get("esc") != o.get("u")


def judge(ctx, step, obs_path, mode="judge"):
    """Trace_LinkDest over an observation file; large files are cut into shards judged by parallel TLC processes
    (python only splits lines and merges the per-signature lists).  Returns one record per distinct signature:
    {k (1-based index of the first observation having it), id, sig, n (observations sharing it), nbad (total)}."""
    lines = Path(obs_path).read_text().splitlines(keepends=True)
    nsh = max(1, min(6, len(lines) // 2500))
    if nsh == 1:
        return rig.trace_judge(ctx, step, FAMS, "Trace_LinkDest", obs_path, consts={"Mode": mode})[0]
    size = (len(lines) + nsh - 1) // nsh
    os.environ.setdefault("JAVA_TOOL_OPTIONS", "-XX:ParallelGCThreads=2 -XX:CICompilerCount=2")

    def one(i):
        f = ctx.work / f"{step}_shard{i}.ndjson"
        f.write_text("".join(lines[i * size:(i + 1) * size]))
        return rig.trace_judge(ctx, f"{step}_{i}", FAMS, "Trace_LinkDest", f, consts={"Mode": mode})[0]
    with ThreadPoolExecutor(max_workers=nsh) as pool:
        parts = list(pool.map(one, range(nsh)))
    merged, total = {}, 0
    for i, bs in enumerate(parts):
        total += bs[0]["nbad"] if bs else 0
        for b in bs:
            key = json.dumps(b["sig"], sort_keys=True)
            b["k"] += i * size
            if key in merged:
                merged[key]["n"] += b["n"]
            else:
                merged[key] = b
    out = sorted(merged.values(), key=lambda b: b["k"])
    for b in out:
        b["nbad"] = total
    return out


def corruptions(accepted):
    """Falsified copies of ACCEPTED observations, each with the set of causes the Trace spec may name."""
    out = []
    docs = [o for o in accepted if o["k"] == "doc"]

    def pick(pred):
        for o in docs:
            if pred(o):
                return json.loads(json.dumps(o))
        return None
    # 1. a byte outside every span changed
    o = pick(lambda o: any(sp["c"] == "rel" for sp in o["spans"]) and o["spans"][0]["s"] > 0)
    if o:
        o["out"][0] ^= 1
        o["out2"] = list(o["out"])
        out.append((o, {"outside-changed"}))
    # 2. a destination inside code / HTML rewritten
    o = pick(lambda o: any(sp["c"] in ("code", "html") for sp in o["spans"]))
    if o:
        sp = [sp for sp in o["spans"] if sp["c"] in ("code", "html")][0]
        k = o["spans"].index(sp)
        # position in out: spans before it may have been rewritten; corrupt through the source instead
        src = bytes(o["src"])
        old = src[sp["s"]:sp["e"]]
        outb = bytes(o["out"])
        at = outb.find(old)
        if at >= 0:
            new = outb[:at] + b"https://example.com/x.md" + outb[at + len(old):]
            o["out"] = list(new)
            o["out2"] = list(new)
            out.append((o, {sp["c"] + "-rewritten"}))
    # 3. a relative destination left relative (the input returned unchanged)
    o = pick(lambda o: any(sp["c"] == "rel" for sp in o["spans"]))
    if o:
        o["out"] = list(o["src"])
        o["out2"] = list(o["src"])
        out.append((o, {"missed"}))
    # 4. fragment-only / absolute destination rewritten
    o = pick(lambda o: len(o["spans"]) == 1 and o["spans"][0]["c"] == "stay")
    if o:
        sp = o["spans"][0]
        new = o["src"][:sp["s"]] + list(b"https://example.com/base/docs.md") + o["src"][sp["e"]:]
        o["out"], o["out2"] = new, list(new)
        out.append((o, {"stay-changed"}))
    # 5. rewritten, but not under the base
    o = pick(lambda o: len(o["spans"]) == 1 and o["spans"][0]["c"] == "rel")
    if o:
        sp = o["spans"][0]
        new = o["src"][:sp["s"]] + list(b"/abs/but/no/origin.md") + o["src"][sp["e"]:]
        o["out"], o["out2"] = new, list(new)
        out.append((o, {"not-absolute"}))
    # 6. second pass changes the text again
    o = pick(lambda o: any(sp["c"] == "rel" for sp in o["spans"]))
    if o:
        o["out2"] = o["out2"] + [120]
        out.append((o, {"not-idempotent"}))
    # 7. escape pair does not round-trip
    for e in accepted:
        if e["k"] == "esc" and e["u"]:
            e = json.loads(json.dumps(e))
            e["unesc"] = e["unesc"] + [92]
            out.append((e, {"esc-roundtrip"}))
            break
    # 8. the query of a rewritten destination altered
    o = pick(lambda o: len(o["spans"]) == 1 and o["spans"][0]["c"] == "rel" and 63 in o["src"][o["spans"][0]["s"]:o["spans"][0]["e"]]
             and 35 not in o["src"] and 63 in o["out"] and o["out"].index(63) + 1 < len(o["out"]) and chr(o["out"][o["out"].index(63) + 1]).isalpha())
    if o:
        o["out"][o["out"].index(63) + 1] ^= 1
        o["out2"] = list(o["out"])
        out.append((o, {"suffix-changed"}))
    # 9. what is written is not a destination any more (unbalanced parenthesis)
    o = pick(lambda o: len(o["spans"]) == 1 and o["spans"][0]["c"] == "rel" and o["spans"][0]["e"] == len(o["src"]) - 1
             and o["src"][-1] == 41 and o["src"][o["spans"][0]["s"] - 1] == 40 and o["out"] != o["src"])
    if o:
        o["out"] = o["out"][:-1] + [40, 41]
        o["out2"] = list(o["out"])
        out.append((o, {"dest-broken"}))
    for i, (o, _) in enumerate(out):
        o["id"] = 900000001 + i
        if o["k"] == "doc":     # keeps the signatures of the falsified copies apart from those of real findings
            o["kinds"] = [k + "/selftest" for k in o["kinds"]]
    return out


def oracle_guard(ctx, confirmed, confirm_obs):
    """Violation path only: goldmark (CommonMark) is asked whether the blamed span really is / is not a link
    destination.  If goldmark sides with the real code against the ground truth, the specification is wrong for
    that block: the record is oracle_disputed, not a violation."""
    byid = {o["id"]: o for o in confirm_obs}
    kept, disputed, summary = [], [], {"goldmark_agrees_with_ground_truth": 0, "goldmark_disputes_ground_truth": 0, "not_applicable": 0}
    for b in confirmed:
        o = byid.get(b["id"])
        cause = b["sig"]["cause"]
        if o is None or o["k"] != "doc" or "gm" not in o or cause not in ("missed", "code-rewritten", "html-rewritten", "nonlink-rewritten"):
            summary["not_applicable"] += 1
            kept.append(b)
            continue
        unesc = lambda t: re.sub(r"\\([!-/:-@\[-`{-~])", r"\1", t)     # goldmark keeps backslash escapes in Destination
        gm = {unesc(d[4:] if d.startswith("ref:") else d) for d in o["gm"]}
        src = bytes(o["src"])
        blamed = [sp for sp in o["spans"] if o["kinds"][sp["b"] - 1] == b["sig"]["kind"]
                  and (sp["c"] == "rel") == (cause == "missed")]
        texts = {unesc(src[sp["s"]:sp["e"]].decode("latin-1")) for sp in blamed}
        is_link = bool(texts & gm)
        agrees = is_link if cause == "missed" else not is_link
        if agrees or not blamed:
            summary["goldmark_agrees_with_ground_truth"] += 1
            b["goldmark_destinations"] = o["gm"]
            kept.append(b)
        else:
            summary["goldmark_disputes_ground_truth"] += 1
            disputed.append(b)
    ctx.cov["oracle_guard"] = summary
    if disputed:
        ctx.cov["oracle_disputed"] = [{"id": b["id"], "sig": b["sig"], "case": show(b["obs"])} for b in disputed[:5]]
    return kept


def run(ctx, replay_case=None):
    if not (rig.REPO / HOOK).exists():
        raise Infra(f"hook file missing: {rig.REPO / HOOK} (staged copy: {rig.ROOT / 'hooks-staging' / HOOK})")
    check_kinds_module()
    K = consts(ctx)
    obs = ctx.work / "obs.ndjson"
    bg, mcfut = ThreadPoolExecutor(max_workers=1), None
    if replay_case is not None:
        cases = ctx.work / "cases.ndjson"
        rig.write_ndjson(cases, [replay_case])
    else:
        # 1. TLC "gen": constant-level checks of the model (table consistency, Rewrite under every configuration,
        #    escape pair) + export of the documents; then, in the background, TLC "mc": the transcribed scanner
        #    against the ground truth over every block sequence (kept apart: -coverage cannot hold the export)
        gd = ctx.stage("gen", FAMS)
        rig.write_cfg(gd / "MC_LinkDest.cfg", constants=dict(K, Mode="gen"))
        g = ctx.tlc(gd, "MC_LinkDest", workers=1, timeout=1500)
        cases = gd / "cases.ndjson"
        if not g.ok:
            m = re.search(r"Assumption line (\d+), col \d+ to line \d+, col \d+ of module MC_LinkDest is false", g.out)
            if not (m and cases.exists()):
                raise Infra(f"MC_LinkDest (gen) failed: {gd}/MC_LinkDest.out\n" + rig.tail(g.out, 30))
            # the transcription of Rewrite / of the escape pair does not meet the reference: diagnostic
            ctx.cov["model_counterexample_constant_level"] = {"assumption_at_line": int(m.group(1)), "tlc_out": str(gd / "MC_LinkDest.out")}
        if not cases.exists():
            raise Infra("MC_LinkDest exported no cases.ndjson")
        wd = ctx.stage("mc", FAMS)
        rig.write_cfg(wd / "MC_LinkDest.cfg", constants=dict(K, Mode="mc"), invariants=MC_INVS)
        # no -coverage: TLC's CostModelCreator runs out of memory (6 GB) on the nested recursive operators of the
        # scanner model before the first state; the specification has a single action (append a block), every
        # block kind is a transition label, and non-vacuity of the model is shown by model_drift (it predicts the
        # real bytes, the findings included)
        mcfut = bg.submit(ctx.tlc, wd, "MC_LinkDest", workers=rig.NCPU, timeout=2700)
    # 2. replay into the real code
    ctx.cov["go_test_wall_s"] = round(go_test(ctx, cases, obs), 1)
    allobs = rig.read_ndjson(obs)
    ncases = sum(1 for _ in open(cases))
    if len(allobs) != ncases:
        raise Infra(f"hook wrote {len(allobs)} observations for {ncases} cases")
    docs = [o for o in allobs if o["k"] == "doc"]
    ctx.cov.update(evaluations=len(allobs), traces_validated_against_impl=len(allobs),
                   documents=len(docs), escape_strings=len(allobs) - len(docs),
                   fence_documents=sum(1 for o in docs if o["kinds"][0].startswith("fl_")),
                   query_documents=sum(1 for o in docs if o["kinds"] == ["query_escape"]),
                   distinct_nontrivial=len({json.dumps([o.get("src"), o.get("base"), o.get("dir"), o.get("u")]) for o in allobs if nontrivial(o)}),
                   rule="every block sequence within the bounds and every escape string, exported by TLC (exhaustive, seed-independent); a document is "
                        "non-trivial when the real replace() changed at least one byte, an escape string when escaping changed it",
                   exhaustive=True,
                   samples=[show(o) for o in rig.pick_samples([o for o in docs if nontrivial(o)] or allobs, 3, ctx.seed)]
                           + [show(o) for o in rig.pick_samples([o for o in allobs if o["k"] == "esc" and nontrivial(o)], 1, ctx.seed)])
    # 3. judge; in parallel, model drift (diagnostic): does the transcription predict the real bytes?
    pool = ThreadPoolExecutor(max_workers=2)
    dfut = None
    if replay_case is None:
        sample = rig.pick_samples(allobs, ctx.pick(1500, 20000), ctx.seed + 3)
        dp = ctx.work / "drift_obs.ndjson"
        rig.write_ndjson(dp, sample)
        dfut = pool.submit(judge, ctx, "drift", dp, "drift")
    bads = judge(ctx, "trace", obs)
    for b in bads:
        b["obs"] = allobs[b["k"] - 1]
    ctx.cov["judged_bad_first_pass"] = bads[0]["nbad"] if bads else 0
    ctx.cov["judged_bad_distinct_signatures"] = len(bads)
    # 4. reproduction guard (fresh process, goldmark logged) and, in the same TLC run, the sensitivity self-test:
    #    falsified copies of accepted observations must be rejected for the right reason
    bad_ids = {b["id"] for b in bads}
    st = corruptions([o for o in allobs if o["id"] not in bad_ids]) if replay_case is None else []
    cobs = []
    if bads:
        ci, co = ctx.work / "confirm_cases.ndjson", ctx.work / "confirm_obs.ndjson"
        rig.write_ndjson(ci, [case_of(b["obs"]) for b in bads])
        go_test(ctx, ci, co, oracle=True)
        cobs = rig.read_ndjson(co)
    confirmed = []
    if cobs or st:
        cp = ctx.work / "confirm_selftest_obs.ndjson"
        rig.write_ndjson(cp, cobs + [o for o, _ in st])
        b2 = judge(ctx, "trace_confirm", cp)
        again = {json.dumps(b["sig"], sort_keys=True) for b in b2 if b["id"] < 900000001}
        confirmed = [b for b in bads if json.dumps(b["sig"], sort_keys=True) in again]
        ctx.cov["unreproduced"] = len(bads) - len(confirmed)
        confirmed = oracle_guard(ctx, confirmed, cobs)
        for b in confirmed:
            b["what"] = json.dumps(show(b["obs"]), ensure_ascii=False)
        if st:
            got = {b["sig"]["cause"] for b in b2 if b["id"] >= 900000001}
            want = set().union(*[w for _, w in st])
            nrej = sum(b["n"] for b in b2 if b["id"] >= 900000001)
            if any(b["sig"]["cause"] == "esc-roundtrip" and b["id"] < 900000001 for b in b2):
                nrej, got = nrej + 1, got | {"esc-roundtrip"}       # merged with a real finding of the same signature
            ctx.cov["sensitivity_selftest"] = {"corrupted": len(st), "rejected": nrej, "causes": sorted(got)}
            if len(st) < 9 or nrej < len(st) or not want <= got:
                raise Infra(f"sensitivity self-test failed: {len(st)} corrupted observations, {nrej} rejected, causes {sorted(got)} (wanted {sorted(want)})")
    if dfut is not None:
        drift = dfut.result()
        ctx.cov["model_drift"] = {"compared_with_model": len(sample), "mismatches": drift[0]["nbad"] if drift else 0,
                                  "examples": [show(sample[b["k"] - 1]) for b in drift[:3]]}

    if mcfut is not None:
        r = mcfut.result()
        ctx.cov.update(states=r.distinct, transitions=r.generated, mc_wall_s=round(r.wall, 1),
                       mc_invariants=MC_INVS + ["TableConsistent", "RewriteAllCfgs", "EscPairModel", "SpellingsDenote"],
                       bounds=f"documents of <= {K['AllLen']} blocks over all {len(KINDS)} block kinds and <= {K['CoreLen']} blocks over the "
                              f"{sum(1 for k in KINDS if k[1])} core kinds (base https://example.com/base/, dir docs/sub); every single block under 4 base/dir "
                              f"configurations; fence documents of <= {K['FenceLen']} fence lines over 2 characters x runs {sorted(K['FenceRuns'])} x "
                              f"{K['FenceVars']} variants; query documents: strings of <= {K['QLen']} bytes over 32 symbols x 4 spellings; "
                              f"escape pair: strings of <= {K['EscLen']} bytes over 9 symbols and of <= {K['EscWideLen']} bytes over 34 symbols",
                       model_excused_kinds=EXCUSED)
        if not r.ok:
            if r.invariant_violated:
                ctx.cov["model_counterexample"] = {"invariants": r.invariant_violated, "tlc_out": str(ctx.work / "mc" / "MC_LinkDest.out")}
            else:
                raise Infra(f"MC_LinkDest failed: {ctx.work}/mc/MC_LinkDest.out\n" + rig.tail(r.out, 30))
        ctx.cov["tlc_coverage_note"] = "TLC -coverage not used: its cost model cannot be built for this specification within 6 GB"
    def rw(rdir, b):
        (rdir / "case.json").write_text(json.dumps(case_of(b["obs"])))
        (rdir / "obs.json").write_text(json.dumps(b["obs"]))
    return ctx.report(confirmed, replay_writer=rw)


def replay(ctx, path):
    return run(ctx, replay_case=json.loads((Path(path) / "case.json").read_text()))


if __name__ == "__main__":
    if "--gen" in sys.argv:
        (rig.SPEC / "linkdest").mkdir(exist_ok=True)
        (rig.SPEC / "linkdest" / "LinkDestKinds.tla").write_text(kinds_module())
        print("written", rig.SPEC / "linkdest" / "LinkDestKinds.tla", len(KINDS), "kinds")
    sys.exit(0)

"""C29 - rewriting Markdown link destinations changes only link destinations (DESIGN section 7 C29).

The functions under test live in package main of cmd/scriggo, so the replay goes through the build-tagged
test file cmd/scriggo/verif_linkdest_test.go (hook; staged in /verif/hooks-staging) run with `go test`.

`python3 checks/c29.py --gen` regenerates spec/linkdest/LinkDestKinds.tla (the block-kind table as byte
tuples) from the readable table KINDS below; every run verifies that the committed module is that text.
"""
import json, os, re, shutil, subprocess, sys, time
from pathlib import Path

if __name__ == "__main__":
    sys.path.insert(0, str(Path(__file__).resolve().parent.parent / "lib"))
import rig
from rig import Infra

META = {
    "title": "Markdown link destination rewriting",
    "engine": "LinkDest",
    "technique": "TLA+ reference (documents built from self-delimiting blocks whose link-destination spans are known by construction; RFC 3986-style Rewrite; CommonMark backslash unescape) + implementation-shaped model of the line scanner of cmd/scriggo/linkdestination.go and of mdescape.go, model-checked by TLC over every block sequence; every document replayed into the real linkDestinationReplacer.replace (once and twice) through a -tags verif test file in cmd/scriggo; outputs judged by a TLC Trace spec",
    "level": "model_checking",
    "level_text": "TLC explores every document made of <=2 (quick) / <=3 (thorough) blocks over all block kinds and <=3 / <=4 blocks over the 20 core kinds (inline links in 8 spellings, reference definitions, images, code spans, fences, indented code, HTML blocks/raw-text elements/comments, absolute/fragment/query/dot/extension/slash destinations, plus stress kinds: autolink, unclosed HTML, multi-line code span and link text, fence in a block quote, 4-space nested list, unbalanced backquote) and checks that the transcribed scanner (inFence, htmlState, codeSpanLen, link stack) rewrites exactly the ground-truth spans and that its Rewrite meets the reference; TLC exports the same documents with their spans; the real replace() is run on each (and on its own output) and the TLA+ Trace spec decides: bytes outside real destinations unchanged, code/HTML/non-link destinations untouched, absolute/fragment/query destinations kept, every relative destination rewritten to a URL under the base, idempotent; markdownUnescape(markdownURLEscape(u)) = u for every string <=4/<=5 over a 9-symbol punctuation alphabet.",
    "level_note": "Trusted: TLC, the Json module, the ~200-line Go test file that only calls the functions and logs (goldmark's link destinations are logged only when a violation is being confirmed - oracle guard), python glue that copies files and counts. 'What is a link' is decided by construction for the generated block kinds, not for CommonMark as a whole: container nesting beyond one block quote / one nested list, setext headings, link reference definitions spanning lines, entity references inside destinations, tabs, CRLF and non-ASCII text are not generated. Exact spelling of the rewritten URL (.html -> .md, percent-encoding) is compared with the implementation-shaped model only (model_drift, diagnostic); the property-level clause is 'absolute, under the base'.",
    "design_ref": "7/C29",
}

FAMS = ["linkdest"]
HOOK = "cmd/scriggo/verif_linkdest_test.go"
GO_TIMEOUT = 420

# ------------------------------------------------------------------------------------------------
# Block kinds.  Text of one block; {cls:dest} marks a destination-looking span with its ground truth:
#   rel     a real link destination that is relative        -> must be rewritten to an absolute URL
#   stay    a real link destination that must be kept (absolute URL, only query and/or fragment)
#   code    destination-looking text inside a code span / code block   -> must be untouched
#   html    destination-looking text inside raw HTML                   -> must be untouched
#   nonlink destination-looking text that is not part of a link        -> must be untouched
# '^' is replaced by the 1-based position of the block in the document (keeps destinations distinct).
# (name, core, open, text); open = the block leaves an HTML-tag-like construct unclosed (signature only).
# ------------------------------------------------------------------------------------------------
KINDS = [
    ("inl_plain", 1, 0, "See [text]({rel:p^/q.html}) here."),
    ("inl_angle", 1, 0, "[text](<{rel:p^/q.html}>)"),
    ("inl_title", 1, 0, "[text]({rel:p^/q.html} \"Ti tle\")"),
    ("inl_title_paren", 0, 0, "[text]( {rel:p^/q.html} (t) )"),
    ("inl_nested", 1, 0, "[a [b] c]({rel:p^/q.html})"),
    ("inl_escparen", 1, 0, "[text]({rel:p^/q\\(1\\).html})"),
    ("inl_balparen", 0, 0, "[text]({rel:p^/q(1).html})"),
    ("refdef", 1, 0, "[x^]: {rel:p^/q.html} \"t\""),
    ("refdef_angle", 0, 0, "[y^]: <{rel:p^/q.html}>"),
    ("image", 1, 0, "![alt]({rel:i^/logo.png})"),
    ("two_links", 0, 0, "[a]({rel:p^/a.html}) and [b]({rel:p^/b})"),
    ("heading", 0, 0, "# T [a]({rel:p^/q.html})"),
    ("list_item", 0, 0, "- [a]({rel:p^/q.html})"),
    ("quote", 0, 0, "> [a]({rel:p^/q.html})"),
    ("esc_bracket", 1, 0, "\\[no]({nonlink:f^/g.html}) [yes]({rel:p^/q.html})"),
    ("spaced_paren", 0, 0, "[no] ({nonlink:f^/g.html})"),
    ("codespan", 1, 0, "Use `[f]({code:f^/g.html})` here."),
    ("codespan2", 0, 0, "``[f]({code:f^/g.html}) ` x``"),
    ("codespan_inner_run", 0, 0, "`a``[f]({code:f^/g.html})``b`"),
    ("fence_bq", 1, 0, "```\n[f]({code:f^/g.html})\n```"),
    ("fence_tilde_long", 1, 0, "~~~\n[f]({code:f^/g.html})\n~~~~"),
    ("fence_short_inside", 1, 0, "````\n[f]({code:f^/g.html})\n```\n[g]({code:f^/h.html})\n````"),
    ("fence_info", 0, 0, "```go\n[f]({code:f^/g.html})\n```"),
    ("fence_tilde_bq", 0, 0, "~~~ a`b\n[f]({code:f^/g.html})\n~~~"),
    ("indented", 1, 0, "Text:\n\n    [f]({code:f^/g.html})"),
    ("html_div", 1, 0, "<div>\n[f]({html:f^/g.html})\n</div>"),
    ("html_script", 1, 0, "<script>\n[f]({html:f^/g.html})\n\n[g]({html:f^/h.html})\n</SCRIPT>"),
    ("html_pre", 0, 0, "<pre>\n[f]({html:f^/g.html})\n</pre>"),
    ("html_comment", 1, 0, "<!-- [f]({html:f^/g.html}) -->"),
    ("html_comment_ml", 0, 0, "<!--\n[f]({html:f^/g.html})\n\n[g]({html:f^/h.html})\n-->"),
    ("d_abs", 1, 0, "[a]({stay:https://other.org/p^})"),
    ("d_mailto", 0, 0, "[a]({stay:mailto:u^@x.org})"),
    ("d_frag", 1, 0, "[a]({stay:#s^})"),
    ("d_query", 1, 0, "[a]({stay:?q=^})"),
    ("d_qf", 0, 0, "[a]({stay:?q=^#s})"),
    ("d_up", 1, 0, "[a]({rel:../u^.html})"),
    ("d_dot", 1, 0, "[a]({rel:./d^})"),
    ("d_noext", 0, 0, "[a]({rel:n^})"),
    ("d_slash", 1, 0, "[a]({rel:s^/})"),
    ("d_root", 0, 0, "[a]({rel:/r^})"),
    ("d_net", 0, 0, "[a]({rel://cdn.org/l^.js})"),
    ("d_relfrag", 0, 0, "[a]({rel:p^/q.html#frag})"),
    ("d_relquery", 0, 0, "[a]({rel:p^/q?x=1})"),
    ("d_md", 0, 0, "[a]({rel:r^.md})"),
    ("d_upup", 0, 0, "[a]({rel:../../../w^})"),
    # stress kinds: constructs whose extent is not one line / that look like HTML
    ("autolink", 0, 1, "<https://other.org/a^>"),
    ("html_unclosed", 0, 1, "<div>\n[f]({html:f^/g.html})"),
    ("codespan_ml", 0, 0, "`x\n[f]({code:f^/g.html})`"),
    ("linktext_ml", 0, 0, "[a\nb]({rel:p^/q.html})"),
    ("quote_fence", 0, 0, "> ```\n> [f]({code:f^/g.html})\n> ```"),
    ("nested_list4", 0, 0, "- a\n    - b [x]({rel:p^/q.html})"),
    ("bq_unbalanced", 0, 0, "x ` y [a]({rel:p^/q.html})"),
]

SEG = re.compile(r"\{(rel|stay|code|html|nonlink):([^}]*)\}")


def segments(text):
    out, pos = [], 0
    for m in SEG.finditer(text):
        if m.start() > pos:
            out.append(("lit", text[pos:m.start()]))
        out.append((m.group(1), m.group(2)))
        pos = m.end()
    if pos < len(text):
        out.append(("lit", text[pos:]))
    return out


def tla_bytes(s):
    return "<<" + ",".join("0" if b == 94 else str(b) for b in s.encode()) + ">>"      # 94 = '^'


def kinds_module():
    L = ["---------------------------- MODULE LinkDestKinds ----------------------------",
         "(* C29: the block-kind table of LinkDest.tla as byte tuples.  GENERATED by `python3 checks/c29.py --gen`",
         "   from the readable table KINDS of checks/c29.py (TLC cannot index TLA+ strings); every run of the check",
         "   verifies that this file is exactly the generated text.  Each kind is a sequence of segments",
         "   [c |-> class, b |-> bytes]: class \"lit\" is literal text, any other class is a destination-looking span",
         "   with its ground truth (rel / stay / code / html / nonlink, see LinkDest.tla).  Byte 0 stands for the",
         "   decimal digit of the block's 1-based position in the document. *)",
         "Kinds == <<"]
    rows = []
    for name, core, opn, text in KINDS:
        shown = text.replace("\n", "\\n")
        segs = ",\n      ".join('[c |-> "%s", b |-> %s]' % (c, tla_bytes(b)) for c, b in segments(text))
        rows.append('  \\* %s\n  [name |-> "%s", core |-> %s, open |-> %s, segs |-> <<\n      %s>>]'
                    % (shown, name, "TRUE" if core else "FALSE", "TRUE" if opn else "FALSE", segs))
    L.append(",\n".join(rows))
    L.append(">>")
    L.append("=============================================================================")
    return "\n".join(L) + "\n"


def check_kinds_module():
    f = rig.SPEC / "linkdest" / "LinkDestKinds.tla"
    if not f.exists() or f.read_text() != kinds_module():
        raise Infra("spec/linkdest/LinkDestKinds.tla is not the text generated from KINDS: run python3 checks/c29.py --gen")


if __name__ == "__main__":
    if "--gen" in sys.argv:
        (rig.SPEC / "linkdest").mkdir(exist_ok=True)
        (rig.SPEC / "linkdest" / "LinkDestKinds.tla").write_text(kinds_module())
        print("written", rig.SPEC / "linkdest" / "LinkDestKinds.tla", len(KINDS), "kinds")
    sys.exit(0)

"""C26 - Markdown escaping neutralises Markdown syntax (DESIGN section 7 C26)."""
import json
import os
import time
from concurrent.futures import ThreadPoolExecutor
import rig
from rig import Infra

META = {
    "title": "Markdown escaping neutralises Markdown syntax",
    "engine": "MdEscape",
    "technique": "TLA+ reference written from the CommonMark specification (backslash escapes and character references "
                 "undone + white-space normalisation; line structure of indented code blocks with LF / CR LF / lone CR "
                 "line endings; an escape-completeness predicate that is a sufficient condition for inertness) + "
                 "loop-by-loop transcription of markdownEscape / markdownCodeBlockEscape (as found and with the proposed "
                 "repairs), model-checked exhaustively by TLC; the same strings are shown by real .md templates in 6 "
                 "paragraph-level placements and 2 indented-code-block placements and every rendered slice is judged by "
                 "the TLC Trace spec; a slice failing the completeness predicate is a candidate that is decided by "
                 "goldmark's conversion of the real output (element structure and text, parsed in TLA+)",
    "level": "model_checking",
    "level_text": "TLC checks, for every string of length <= 4 over the 19-symbol Markdown alphabet of DESIGN 7/C26, every string "
                  "of length <= 5 over its 16-symbol sub-alphabet (thorough) and every string of length <= 5 (quick) / 6 "
                  "(thorough) over a 7-symbol white-space alphabet with TAB, that the transcribed paragraph escaper round-trips "
                  "through the CommonMark unescape reference, that the repaired transcription is escape-complete and confines "
                  "every code-block line under both line-ending conventions, and that the as-found transcription falls short "
                  "exactly on the demonstrated shapes (CR in a code block; tab kept at the start of a later line). The exported "
                  "strings (length <= 3 quick / <= 4 thorough over the 19 symbols, plus white-space, core-alphabet and dictionary "
                  "strings) and seeded fragment mixes are rendered by Template.Run in 8 placements; TLC judges each real slice: "
                  "round trip and code-block confinement decide directly, completeness decides only 'pass'.",
    "level_note": "PARTIAL: 'introduces no Markdown or HTML element' is decided by a sufficient condition written in the "
                  "spec (escape completeness); CommonMark's inline/block parsing algorithm is not specified in TLA+. A real "
                  "output failing the sufficient condition is reported only if goldmark (configured as cmd/scriggo does: "
                  "GFM, footnotes, unsafe HTML, heading ids), run by the driver on that output, produces an element the "
                  "template did not make or different text - the one family whose last word on a candidate is an external "
                  "parser (DESIGN section 8). Records meeting the sufficient condition are never shown to goldmark by the "
                  "verdict predicate. Trusted: TLC, the Json module, the Go driver (8 fixed templates, slicing, goldmark "
                  "call, no expectation), goldmark for candidates. Code-block confinement is judged under both line-ending "
                  "conventions (CommonMark 2.1: LF, CR LF, lone CR; and LF-only, which is what goldmark does), reading documented in the spec. Exhaustive only "
                  "to the stated lengths/alphabets; native.HTML / Markdown-typed values (allowHTML path, "
                  "CDATA, comments) and the lexer's own detection of code-block context in template source are not covered.",
    "design_ref": "7/C26",
}

# Demonstrated on the unchanged tree (see the family report).
PROPOSED_KNOWN = []   # the three findings (two root causes) of this check were fixed in /repo (known-findings.json, kind "fixed")

FAMS = ["mdescape"]
# many short TLC processes run side by side: keep each JVM's collector from starting one GC thread per core
os.environ.setdefault("JAVA_TOOL_OPTIONS", "-XX:ParallelGCThreads=4")
MC_INVS = ["RoundTripFound", "RoundTripFixed", "CompleteFixed", "CompleteFoundExtent", "CodeFixedConfined",
           "CodeFoundExtent", "FixConservative"]
PAR = max(2, min(12, rig.NCPU * 3 // 4))       # driver+Trace shards processed by concurrent TLC processes
ALLPL = ["para", "start", "cont", "list", "heading", "quote", "codetab", "codesp"]
CORE = ["para", "start", "heading", "codetab"]
RULE = ("every string of length <= GenLen over the 19-symbol Markdown alphabet, of length <= GenWs over the 7-symbol "
        "white-space alphabet (with TAB), of length <= GenCore over the 8-symbol core alphabet (with ';'), of length <= GenWsCore over the 4-symbol line-structure alphabet (TAB SP LF a), a 49-string "
        "dictionary of Markdown constructs (all exported by TLC) and seeded fragment mixes, each shown in 8 placements "
        "(thorough tier: the strings of length GenLen of the whole alphabet and of length GenCore of the core alphabet in 4 "
        "placements: para, start, heading, codetab); non-trivial = the rendered slice differs from the input; "
        "distinct = distinct (placement, string)")


def case_of(o):
    return {"id": o["id"], "s": o["s"], "pl": [o["pl"]]}


def sample(o):
    return {"pl": o["pl"], "s": rig.b2s(o["s"]), "out": rig.b2s(o["out"]), "html": rig.b2s(o["html"]), "st": o["st"]}


def corrupt(o, how):
    """Observation-level corruptions that the Trace spec must reject."""
    o["st"] = "ok"
    if o["pl"] in ("codetab", "codesp"):
        o["out"] = o["out"] + [10, 98]               # a new, unindented line
    elif how == 0:
        o["out"] = o["out"] + [90]                   # different text
    elif how == 1:
        o["out"] = [42] + o["out"] + [42]            # raw emphasis around the value, and the converter saw it
        o["s"] = [42] + o["s"] + [42]
        o["html"] = rig.s2b("<p><em>x</em></p>\n")
    else:
        o["out"] = o["out"] + [92, 92]           # one more literal backslash
    return o


def judge_file(ctx, step, path, audit=False):
    b, _ = rig.trace_judge(ctx, step, FAMS, "Trace_MdEscape", path, consts={"Audit": audit}, timeout=2400)
    d = rig.read_ndjson(ctx.work / step / "diag.ndjson")[0]
    return b, d


def shard(ctx, name, cases_path, extra, stats, audit=False):
    """drive one shard of cases and judge it (first pass: records without the html field); folds its numbers
    into stats; returns (bad records, undecided candidates), each with its complete observation attached"""
    obs = ctx.work / f"obs_{name}.ndjson"
    ctx.drive("c26", cases_path, obs, args=["-extra", str(extra), "-j", str(max(2, rig.NCPU // PAR))])
    slim = ctx.work / f"slim_{name}.ndjson"
    n = ok = 0
    nontriv = set()
    kinds, keep = {}, []
    with open(obs) as f, open(slim, "w") as g:
        for line in f:
            n += 1
            o = json.loads(line)
            if audit:
                g.write(line)
            else:
                g.write(json.dumps({k: v for k, v in o.items() if k != "html"}, separators=(",", ":")) + "\n")
            if o["st"] != "ok":
                kinds[o["st"]] = kinds.get(o["st"], 0) + 1
                if len(keep) < 3:
                    keep.append(o)
                continue
            ok += 1
            if o["out"] != o["s"]:
                nontriv.add(hash((o["pl"], bytes(o["s"]))))
            if n % 997 == 1 and len(keep) < 60:
                keep.append(o)
    step = "trace_" + name
    bads, d = judge_file(ctx, step, slim, audit)
    if d["records"] != n:
        raise Infra("Trace_MdEscape consumed %s of %d records of shard %s" % (d["records"], n, name))
    cand = rig.read_ndjson(ctx.work / step / "cand.ndjson")
    need = {b["k"] for b in bads} | {c["k"] for c in cand}
    at = {}
    if need:
        with open(obs) as f:
            at = {k: json.loads(line) for k, line in enumerate(f, 1) if k in need}
    for b in bads:
        b["obs"] = at[b["k"]]
    stats.append({"n": n, "ok": ok, "nontriv": nontriv, "kinds": kinds, "keep": keep, "diag": d})
    for p in (obs, slim, ctx.work / step / "obs.ndjson"):
        if p.exists():
            os.unlink(p)
    return bads, [at[c["k"]] for c in cand]


def second_pass(ctx, cands):
    """the candidates' complete records (with goldmark's HTML of the real output) judged by the same Trace spec"""
    if not cands:
        return [], {"nbad": 0, "records": 0}
    nsh = max(1, min(PAR, len(cands) // 4000))
    size = (len(cands) + nsh - 1) // nsh
    parts = [cands[k:k + size] for k in range(0, len(cands), size)]

    def one(i):
        p = ctx.work / f"cand_{i}.ndjson"
        rig.write_ndjson(p, parts[i])
        b, d = judge_file(ctx, f"trace_cand_{i}", p)
        for x in b:
            x["obs"] = parts[i][x["k"] - 1]
        if d["undecided"]:
            raise Infra("second pass left %d candidates undecided" % d["undecided"])
        return b, d
    with ThreadPoolExecutor(max_workers=PAR) as ex:
        res = list(ex.map(one, range(len(parts))))
    return [b for r_ in res for b in r_[0]], {"nbad": sum(r_[1]["nbad"] for r_ in res), "records": sum(r_[1]["records"] for r_ in res)}


def run(ctx, replay_case=None):
    consts = {"MaxLen": 4, "Len16": ctx.pick(4, 5), "WsLen": ctx.pick(5, 6), "GenLen": ctx.pick(3, 4), "GenWs": ctx.pick(3, 5),
              "GenCore": ctx.pick(3, 5), "GenWsCore": ctx.pick(6, 7)}
    extra = ctx.pick(400, 8000)
    phase, t0 = {}, time.time()

    def lap(name):
        nonlocal t0
        phase[name] = round(time.time() - t0, 1)
        t0 = time.time()
        ctx.cov["phase_wall_s"] = phase
    # 1. model check the transcriptions against the reference; export the strings
    wd = ctx.stage("mc", FAMS)
    cases = wd / "cases.ndjson"
    if replay_case is not None:
        rig.write_ndjson(cases, [dict(replay_case, id=1)])
        extra = 0
    else:
        rig.write_cfg(wd / "MC_MdEscape.cfg", constants=consts, invariants=MC_INVS)
        r = ctx.tlc(wd, "MC_MdEscape", workers=rig.NCPU, timeout=ctx.pick(600, 2400), coverage=not ctx.quick)
        ctx.cov.update(states=r.distinct, transitions=r.generated, mc_wall_s=round(r.wall, 1), mc_invariants=MC_INVS,
                       bounds=json.dumps(consts, sort_keys=True))
        if not r.ok:
            if r.invariant_violated:
                ctx.cov["model_counterexample"] = {"invariants": r.invariant_violated, "tlc_out": str(wd / "MC_MdEscape.out")}
            else:
                raise Infra(f"MC_MdEscape failed: {wd}/MC_MdEscape.out\n" + rig.tail(r.out, 30))
        if not ctx.quick:
            ctx.cov["actions_never_taken"] = r.coverage_zero()
            # vacuity: sub-expressions of the specification (transcribed loops and reference predicates) that TLC's
            # coverage report says were never evaluated in the exhaustive run
            import re
            last = r.out.rsplit("The coverage statistics at", 1)[-1]
            zero = sorted(set(re.findall(r"^\s*\|*(line \d+, col \d+ to line \d+, col \d+ of module MdEscape): 0\s*$", last, re.M)))
            ctx.cov["model_expressions_never_evaluated"] = {"count": len(zero), "first": zero[:12]}
        if not cases.exists():
            raise Infra("no cases.ndjson exported by MC_MdEscape")
    lap("model_check_and_export")
    # 2+3. replay into the real templates and judge, shard by shard (PAR concurrent driver -> TLC pipelines)
    allc = rig.read_ndjson(cases)
    if replay_case is None and not ctx.quick:
        # thorough: the longest strings of the whole-alphabet and core-alphabet slices are shown in 4 placements
        for c in allc:
            if (c.get("k") == "a" and len(c["s"]) == consts["GenLen"]) or (c.get("k") == "c" and len(c["s"]) == consts["GenCore"]):
                c["pl"] = CORE
    allc.sort(key=lambda c: c["id"])
    weight = lambda c: len(c.get("pl") or ALLPL)
    per = ctx.pick(9000, 120000)          # records per shard
    parts, cur, w = [], [], 0
    for c in allc:
        cur.append(c)
        w += weight(c)
        if w >= per:
            parts.append(cur)
            cur, w = [], 0
    if cur:
        parts.append(cur)
    jobs = []
    for i, p in enumerate(parts):
        cp = ctx.work / f"cases_{i}.ndjson"
        rig.write_ndjson(cp, p)
        jobs.append((f"s{i}", cp, 0))
    if extra:
        cp = ctx.work / "cases_x.ndjson"
        rig.write_ndjson(cp, [])
        jobs.append(("x", cp, extra))
    stats = []
    audit = bool(os.environ.get("C26_AUDIT"))
    with ThreadPoolExecutor(max_workers=PAR) as ex:
        res = list(ex.map(lambda j: shard(ctx, j[0], j[1], j[2], stats, audit), jobs))
    bads = [b for r_ in res for b in r_[0]]
    cands = [o for r_ in res for o in r_[1]]
    lap("drive_and_judge")
    b2, d2 = second_pass(ctx, cands)
    bads += b2
    lap("candidates_second_pass")
    n = sum(s["n"] for s in stats)
    ok = sum(s["ok"] for s in stats)
    if n == 0:
        raise Infra("the driver produced no observation")
    kinds = {}
    for s in stats:
        for k, v in s["kinds"].items():
            kinds[k] = kinds.get(k, 0) + v
    diag = {}
    for s in stats:
        for k, v in s["diag"].items():
            diag[k] = diag.get(k, 0) + v
    keep = [o for s in stats for o in s["keep"]]
    okkeep = [o for o in keep if o["st"] == "ok"]
    ctx.cov.update(evaluations=n, traces_validated_against_impl=ok - diag["ref_undefined"],
                   distinct_nontrivial=len(set().union(*[s["nontriv"] for s in stats])), rule=RULE, exhaustive=True,
                   cases=len(allc), random_cases=extra, shards=len(jobs),
                   samples=[sample(o) for o in rig.pick_samples([o for o in okkeep if o["out"] != o["s"]] or okkeep, 4, ctx.seed)],
                   not_rendered=n - ok, ref_undefined=diag["ref_undefined"],
                   candidates_decided_by_goldmark=len(cands), candidates_rejected_by_goldmark=d2["nbad"],
                   bad_records_first_pass=diag["nbad"] + d2["nbad"],
                   model_output_mismatch={"transcription_as_found": diag["drift_asfound"],
                                          "transcription_with_repairs": diag["drift_fixed"]})
    if audit:
        ctx.cov["audit_disputed"] = diag["audit_disputed"]
    if min(diag["drift_asfound"], diag["drift_fixed"]):
        ctx.cov["model_drift"] = ("real output differs from BOTH transcriptions on at least %d of %d records (diagnostic only; the "
                                  "verdict is from the reference)" % (min(diag["drift_asfound"], diag["drift_fixed"]), n))
    if kinds:
        ctx.cov["not_rendered_kinds"] = kinds
        bad0 = [o for o in keep if o["st"] != "ok"]
        if bad0:
            ctx.cov["not_rendered_example"] = dict(sample(bad0[0]), out=rig.b2s(bad0[0]["out"])[:200])
        if kinds.get("nodelim") or kinds.get("gmerr"):
            raise Infra("driver assumption broken (fixed template text not found around the value, or goldmark failed): %s %s"
                        % (kinds, ctx.cov.get("not_rendered_example")))
        if ok == 0:
            raise Infra("no template rendered: %s" % ctx.cov.get("not_rendered_example"))
    # 5. (started now, runs beside step 4) sensitivity self-test: corrupted observations must be rejected by the same Trace spec
    pool = [o for o in okkeep if o["out"] != o["s"] or o["pl"] in ("codetab", "codesp")] or okkeep
    para = [o for o in pool if o["pl"] not in ("codetab", "codesp")]
    code = [o for o in pool if o["pl"] in ("codetab", "codesp")]
    st = []
    for how, src in ((0, para), (1, para), (2, para), (0, code)):
        if src:
            st.append(corrupt(json.loads(json.dumps(src[(ctx.seed + how) % len(src)])), how))
    for i, o in enumerate(st):
        o["id"] = 900001 + i

    def selftest():
        p = ctx.work / "selftest_obs.ndjson"
        rig.write_ndjson(p, st)
        return judge_file(ctx, "trace_selftest", p)[1]
    ex = ThreadPoolExecutor(max_workers=1)
    fut = ex.submit(selftest) if st else None
    # 4. reproduction guard: the failing cases again, in a fresh process, judged again
    confirmed = []
    if bads:
        bads = bads[:300]
        seen, cc = set(), []
        for b in bads:
            key = (b["obs"]["pl"], bytes(b["obs"]["s"]))
            if key not in seen:
                seen.add(key)
                cc.append(dict(case_of(b["obs"]), id=len(cc) + 1))
        rig.write_ndjson(ctx.work / "confirm_cases.ndjson", cc)
        ctx.drive("c26", ctx.work / "confirm_cases.ndjson", ctx.work / "confirm_obs.ndjson")
        b2, _ = judge_file(ctx, "trace_confirm", ctx.work / "confirm_obs.ndjson")
        keys2 = {json.dumps(b["sig"], sort_keys=True) for b in b2}
        confirmed = [b for b in bads if json.dumps(b["sig"], sort_keys=True) in keys2]
        ctx.cov["unreproduced"] = len(bads) - len(confirmed)
        for b in confirmed:
            b["what"] = sample(b["obs"])
    if fut:
        d3 = fut.result()
        ctx.cov["sensitivity_selftest"] = {"corrupted": len(st), "rejected": d3["nbad"]}
        if d3["nbad"] < len(st):
            raise Infra(f"sensitivity self-test failed: {len(st)} corrupted observations, only {d3['nbad']} rejected")
    ex.shutdown()
    lap("confirm_and_selftest")

    # 6. verdict
    def rw(rdir, b):
        (rdir / "case.json").write_text(json.dumps(case_of(b["obs"])))
        (rdir / "obs.json").write_text(json.dumps(b["obs"]))
    return ctx.report(confirmed, replay_writer=rw)


def replay(ctx, path):
    c = json.loads((path / "case.json").read_text())
    return run(ctx, replay_case=c)

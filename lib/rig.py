"""Shared rig for all checks: TLC runner, Go driver builder/runner, evidence, known findings.

Pipeline (DESIGN.md section 2):  TLC Gen -> cases.ndjson -> Go driver on the real scriggo
(-tags verif) -> obs.ndjson -> TLC Trace spec judges -> bad.ndjson -> confirm / known / VIOLATION.
Drivers contain no oracle; verdicts come only from the Trace specs' property-level predicates.
Exit codes: 0 held (possibly KNOWN-FINDING lines), 1 confirmed unlisted violation, 2 machinery failure.
"""
import json, os, re, shutil, subprocess, sys, time, hashlib, random
from pathlib import Path

ROOT = Path(__file__).resolve().parent.parent
SPEC = ROOT / "spec"
REPO = Path(os.environ.get("VERIF_REPO", "/repo"))
WORK = ROOT / ".work"
TLA_CP = "/opt/veriftools/tla/tla2tools.jar:/opt/veriftools/tla/CommunityModules-deps.jar"
NCPU = min(os.cpu_count() or 4, int(os.environ.get("VERIF_WORKERS", "8")))


class Infra(Exception):
    """The machinery failed (exit 2) - never a verdict."""


def goenv():
    env = dict(os.environ)
    env["GOFLAGS"] = "-mod=mod"
    env["GOPROXY"] = "off"
    env.pop("GOSUMDB", None)
    env.pop("GOTOOLCHAIN", None)  # auto: cached go1.25.0 toolchain
    return env


class TLCResult:
    def __init__(self, out, rc, wall):
        self.out, self.rc, self.wall = out, rc, wall
        m = re.findall(r"(\d+) states generated, (\d+) distinct states found", out)
        self.generated = int(m[-1][0]) if m else 0
        self.distinct = int(m[-1][1]) if m else 0
        self.ok = rc == 0 and "No error has been found" in out
        self.invariant_violated = re.findall(r"Invariant (\S+) is violated", out)
        self.property_violated = bool(re.search(r"Temporal propert(y|ies) .*violated", out)) or bool(
            re.findall(r"Action property (\S+) is violated", out))
        self.deadlock = "Deadlock reached" in out
        self.printed = re.findall(r"^(<<.*>>|\".*\")$", out, re.M)

    def coverage_zero(self):
        """actions/lines with zero count in a -coverage run"""
        return re.findall(r"^<(\w+) line .*>: 0:0$", self.out, re.M)


def write_cfg(path, spec=None, init=None, next_=None, constants=None, invariants=(), properties=(),
              constraint=None, action_constraint=None, view=None, postcondition=None,
              deadlock=False, symmetry=None):
    L = []
    if spec:
        L.append(f"SPECIFICATION {spec}")
    else:
        L.append(f"INIT {init or 'Init'}")
        L.append(f"NEXT {next_ or 'Next'}")
    if constants:
        L.append("CONSTANTS")
        for k, v in constants.items():
            if isinstance(v, str) and v.startswith("<-"):
                L.append(f"  {k} <- {v[2:].strip()}")      # substitution by a definition of the module
            else:
                L.append(f"  {k} = {tla_value(v)}")
    for i in invariants:
        L.append(f"INVARIANT {i}")
    for p in properties:
        L.append(f"PROPERTY {p}")
    if constraint:
        L.append(f"CONSTRAINT {constraint}")
    if action_constraint:
        L.append(f"ACTION_CONSTRAINT {action_constraint}")
    if view:
        L.append(f"VIEW {view}")
    if postcondition:
        L.append(f"POSTCONDITION {postcondition}")
    if symmetry:
        L.append(f"SYMMETRY {symmetry}")
    L.append(f"CHECK_DEADLOCK {'TRUE' if deadlock else 'FALSE'}")
    Path(path).write_text("\n".join(L) + "\n")


def tla_value(v):
    if isinstance(v, bool):
        return "TRUE" if v else "FALSE"
    if isinstance(v, int):
        return str(v)
    if isinstance(v, str):
        if v.startswith("@"):  # raw TLA+ (model value / expression allowed in cfg)
            return v[1:]
        return '"' + v + '"'
    if isinstance(v, (list, tuple)):
        return "<<" + ", ".join(tla_value(x) for x in v) + ">>"
    if isinstance(v, (set, frozenset)):
        return "{" + ", ".join(tla_value(x) for x in sorted(v, key=str)) + "}"
    raise TypeError(v)


class Ctx:
    def __init__(self, pid, tier="quick", seed=None):
        self.pid = pid
        self.tier = tier
        self.seed = int(seed if seed is not None else os.environ.get("VERIF_SEED", "1"))
        self.rng = random.Random(self.seed)
        # runs against a scratch checkout (VERIF_REPO) get their own scratch directory, so that they can run while
        # the same check runs against /repo
        self.work = WORK / (pid if str(REPO) == "/repo" else pid + "__" + hashlib.sha1(str(REPO).encode()).hexdigest()[:8])
        self.t0 = time.time()
        self.cov = {}            # coverage dict for evidence
        self.assumptions = []
        self.known_lines = []
        self.violations = []     # list of dicts {signature, case, obs, what}
        self.notes = {}
        self._driver = None
        self.level = "model_checking"
        if self.work.exists():
            shutil.rmtree(self.work, ignore_errors=True)
        self.work.mkdir(parents=True, exist_ok=True)

    @property
    def quick(self):
        return self.tier == "quick"

    def pick(self, quick, thorough):
        return quick if self.quick else thorough

    # ---------------------------------------------------------------- TLC
    def stage(self, step, families):
        """Create .work/<pid>/<step>/ with lib/*.tla and the given family dirs' files flattened in."""
        d = self.work / step
        d.mkdir(parents=True, exist_ok=True)
        for fam in ["lib"] + list(families):
            for f in (SPEC / fam).glob("*.tla"):
                shutil.copy(f, d / f.name)
            for f in (SPEC / fam).glob("*.cfg"):
                shutil.copy(f, d / f.name)
        return d

    def tlc(self, wd, module, cfg=None, workers=None, timeout=900, simulate=None, depth=None,
            coverage=False, dfs=False, extra=(), xss="512m", heap=None, must_pass=False, dump=None):
        """Run TLC on <wd>/<module>.tla with <wd>/<cfg> (default <module>.cfg)."""
        cfg = cfg or (module + ".cfg")
        meta = Path(wd) / ("meta_" + module + "_" + str(int(time.time() * 1000) % 10**9))
        heap = heap or "6g"
        cmd = ["timeout", str(timeout), "java", "-XX:+UseParallelGC", f"-Xss{xss}", f"-Xmx{heap}"]
        if dfs:
            cmd.append("-Dtlc2.tool.queue.IStateQueue=StateDeque")
        cmd += ["-cp", TLA_CP, "tlc2.TLC", "-metadir", str(meta), "-workers", str(workers or 1),
                "-config", cfg, "-noGenerateSpecTE"]
        if simulate:
            cmd += ["-simulate", simulate]
            cmd += ["-seed", str(self.seed)]
        if depth:
            cmd += ["-depth", str(depth)]
        if coverage:
            cmd += ["-coverage", "1"]
        if dump:
            cmd += ["-dump"] + list(dump)
        cmd += list(extra)
        cmd.append(module + ".tla")
        t = time.time()
        p = subprocess.run(cmd, cwd=wd, stdout=subprocess.PIPE, stderr=subprocess.STDOUT, text=True)
        wall = time.time() - t
        (Path(wd) / (module + ".out")).write_text(p.stdout)
        shutil.rmtree(meta, ignore_errors=True)
        r = TLCResult(p.stdout, p.returncode, wall)
        if p.returncode == 124:
            raise Infra(f"TLC timeout ({timeout}s) on {module} in {wd}")
        if "StackOverflowError" in p.stdout or "OutOfMemoryError" in p.stdout:
            raise Infra(f"TLC resource error on {module}: see {wd}/{module}.out")
        if re.search(r"(Parsing or semantic analysis failed|Error: .*(evaluat|TLC threw|was not|attempted|Attempted))", p.stdout) and not r.invariant_violated:
            raise Infra(f"TLC error on {module}: see {wd}/{module}.out\n" + tail(p.stdout, 25))
        if must_pass and not r.ok:
            raise Infra(f"TLC run of {module} did not pass: see {wd}/{module}.out\n" + tail(p.stdout, 30))
        return r

    # ---------------------------------------------------------------- Go driver
    def build_driver(self, sub, race=False):
        """Build harness/cmd/<sub> against the CURRENT working tree of the repository (-tags verif).
        VERIF_REPO=<dir> points the harness at another checkout (used to try seeded changes in a
        scratch worktree without touching /repo)."""
        key = sub + ("_race" if race else "")
        self._driver = self._driver or {}
        if key in self._driver:
            return self._driver[key]
        bind = self.work / "bin"
        bind.mkdir(parents=True, exist_ok=True)
        out = bind / key
        h = ROOT / "harness"
        cmd = ["go", "build", "-tags", "verif", "-o", str(out)]
        if str(REPO) != "/repo":
            mf = bind / "alt.mod"
            mf.write_text((h / "go.mod").read_text().replace("=> /repo", "=> " + str(REPO)))
            shutil.copy(REPO / "go.sum", bind / "alt.sum")
            cmd += ["-modfile", str(mf)]
        else:
            sync_gosum(h)
        if race:
            cmd.append("-race")
        cmd.append("./cmd/" + sub)
        p = subprocess.run(cmd, cwd=h, env=goenv(), stdout=subprocess.PIPE, stderr=subprocess.STDOUT, text=True)
        if p.returncode != 0:
            raise Infra("driver build failed (the tree under %s must compile with -tags verif):\n" % REPO + tail(p.stdout, 40))
        self._driver[key] = out
        return out

    def drive(self, sub, infile, outfile, args=(), timeout=900, race=False, env=None, allow_fail=False):
        drv = self.build_driver(sub, race=race)
        cmd = ["timeout", str(timeout), str(drv), "-in", str(infile), "-out", str(outfile),
               "-seed", str(self.seed)] + [str(a) for a in args]
        e = dict(os.environ)
        if env:
            e.update(env)
        p = subprocess.run(cmd, stdout=subprocess.PIPE, stderr=subprocess.STDOUT, text=True, env=e)
        if p.returncode != 0 and not allow_fail:
            raise Infra(f"driver {sub} failed rc={p.returncode}:\n" + tail(p.stdout, 40))
        return p

    # ---------------------------------------------------------------- verdict plumbing
    def known_findings(self):
        f = ROOT / "known-findings.json"
        out = [k for k in json.loads(f.read_text()) if k.get("property") == self.pid] if f.exists() else []
        try:  # entries proposed by a family under development (moved into known-findings.json by the integrator)
            import importlib
            m = importlib.import_module("checks." + self.pid.lower())
            out += [dict(k, property=self.pid) for k in getattr(m, "PROPOSED_KNOWN", [])]
        except Exception:
            pass
        return out

    def classify(self, bads):
        """bads: list of dicts each with 'sig' (signature) + anything else.
        Returns (known: {sigkey: [bad...]}, unknown: [bad...]).  'fixed' entries suppress nothing."""
        kf = [k for k in self.known_findings() if k.get("kind") == "known"]
        known, unknown = {}, []
        for b in bads:
            hit = None
            for k in kf:
                if sig_match(k["signature"], b.get("sig")):
                    hit = k
                    break
            if hit:
                known.setdefault(json.dumps(hit["signature"], sort_keys=True), (hit, []))[1].append(b)
            else:
                unknown.append(b)
        return known, unknown

    def report(self, bads, replay_writer=None, max_violations=10):
        """Classify confirmed bad records, print KNOWN-FINDING / VIOLATION lines, return exit code."""
        known, unknown = self.classify(bads)
        for _, (k, lst) in sorted(known.items()):
            line = f"KNOWN-FINDING: property={self.pid} {k['what']} [{len(lst)} case(s)]"
            print(line)
            self.known_lines.append(line)
        rc = 0
        seen = set()
        n = 0
        for b in unknown:
            sk = json.dumps(b.get("sig"), sort_keys=True)
            if sk in seen:
                continue
            seen.add(sk)
            n += 1
            if n > max_violations:
                continue
            # runs against another tree (VERIF_REPO: seeded changes, older commits) keep their replays and their
            # evidence in their own scratch directory: evidence/ and replays/ only ever describe /repo itself
            rdir = (ROOT / "replays" if str(REPO) == "/repo" else self.work / "replays") / self.pid / str(n)
            rshow = f"replays/{self.pid}/{n}" if str(REPO) == "/repo" else str(rdir)
            if rdir.exists():
                shutil.rmtree(rdir)
            rdir.mkdir(parents=True)
            (rdir / "bad.json").write_text(json.dumps(b, indent=1))
            if replay_writer:
                replay_writer(rdir, b)
            (rdir / "cmd").write_text(f"VERIF_SEED={self.seed} ./check {self.pid} --tier {self.tier} --replay {rshow}\n")
            print(f"VIOLATION property={self.pid} replay={rshow}")
            print("  signature:", sk[:400])
            if b.get("what"):
                print("  what:", str(b["what"])[:400])
            rc = 1
        self.cov["violations_distinct_signatures"] = len(seen)
        self.cov["known_findings_hit"] = len(known)
        self.nviol = len(seen)
        return rc

    def write_evidence(self, violations=0):
        ev = {
            "property_id": self.pid,
            "tier": self.tier,
            "seed": self.seed,
            "level": self.level,
            "coverage": self.cov,
            "assumptions": self.assumptions,
            "wall_s": round(time.time() - self.t0, 2),
            "violations": violations,
        }
        d = ROOT / "evidence" if str(REPO) == "/repo" else self.work
        d.mkdir(exist_ok=True)
        (d / f"{self.pid}.json").write_text(json.dumps(ev, indent=1, sort_keys=True) + "\n")


def sig_match(pattern, sig):
    """Structural equality; in a known-finding pattern the string "*" matches anything at that position
    and a dict pattern matches a dict having at least those keys with matching values."""
    if pattern == "*":
        return True
    if isinstance(pattern, dict) and isinstance(sig, dict):
        return all(k in sig and sig_match(v, sig[k]) for k, v in pattern.items())
    if isinstance(pattern, list) and isinstance(sig, list):
        return len(pattern) == len(sig) and all(sig_match(a, b) for a, b in zip(pattern, sig))
    return pattern == sig


def tail(s, n):
    return "\n".join(s.splitlines()[-n:])


def sync_gosum(h):
    src = REPO / "go.sum"
    dst = Path(h) / "go.sum"
    if src.exists():
        base = src.read_text()
        extra = (Path(h) / "go.sum.extra")
        if extra.exists():
            base += extra.read_text()
        if not dst.exists() or dst.read_text() != base:
            dst.write_text(base)


def read_ndjson(p):
    out = []
    with open(p) as f:
        for line in f:
            line = line.strip()
            if line:
                out.append(json.loads(line))
    return out


def write_ndjson(p, recs):
    with open(p, "w") as f:
        for r in recs:
            f.write(json.dumps(r, separators=(",", ":")) + "\n")


def b2s(arr):
    """int array (bytes) -> python str for display"""
    try:
        return bytes(arr).decode("utf-8", "backslashreplace")
    except Exception:
        return repr(arr)


def s2b(s):
    return list(s.encode("utf-8")) if isinstance(s, str) else list(s)


# ------------------------------------------------------------------------------------------------
# The standard functional pipeline: MC(+Gen) -> drive -> Trace -> confirm -> selftest -> report
# ------------------------------------------------------------------------------------------------
def trace_judge(ctx, step, fams, module, obs_path, consts=None, timeout=1800, extra_files=(), dfs=False):
    """Run a Trace spec over obs ndjson; returns (bad records, TLCResult)."""
    wd = ctx.stage(step, fams)
    if Path(obs_path).resolve() != (wd / "obs.ndjson").resolve():
        shutil.copy(obs_path, wd / "obs.ndjson")
    for f in extra_files:
        shutil.copy(f, wd / Path(f).name)
    bad = wd / "bad.ndjson"
    if bad.exists():
        bad.unlink()
    write_cfg(wd / (module + ".cfg"), constants=consts, invariants=["Done"], postcondition="Consumed")
    r = ctx.tlc(wd, module, workers=1, timeout=timeout, dfs=dfs)
    if not r.ok:
        raise Infra(f"Trace spec {module} did not complete cleanly: {wd}/{module}.out\n" + tail(r.out, 30))
    if not bad.exists():
        raise Infra(f"Trace spec {module} wrote no bad.ndjson ({wd})")
    return read_ndjson(bad), r


def functional(ctx, *, fams, mc_module, mc_consts, mc_invs, sub, trace_module, case_from_obs,
               corrupt, nontrivial, sample, mc_props=(), mc_constraint=None, mc_view=None, extra=0, driver_args=(),
               mc_timeout=1800, trace_consts=None, rule="", exhaustive=True, mc_workers=None,
               cases_hook=None, shard=400000, replay_ids=None):
    """Returns exit code. See module docstring."""
    # 1. exhaustive model check of the implementation-shaped model against the reference + case export
    wd = ctx.stage("mc", fams)
    write_cfg(wd / (mc_module + ".cfg"), constants=mc_consts, invariants=mc_invs, properties=mc_props,
              constraint=mc_constraint, view=mc_view)
    r = ctx.tlc(wd, mc_module, workers=mc_workers or NCPU, timeout=mc_timeout, coverage=not ctx.quick)
    ctx.cov["states"] = r.distinct
    ctx.cov["transitions"] = r.generated
    ctx.cov["mc_wall_s"] = round(r.wall, 1)
    ctx.cov["mc_invariants"] = list(mc_invs) + list(mc_props)
    model_findings = []
    if not r.ok:
        if r.invariant_violated or r.property_violated:
            # design-level counterexample on the implementation-shaped model: diagnostic (model_drift /
            # candidate); the verdict is decided on the real code below.
            model_findings = r.invariant_violated or ["temporal"]
            ctx.cov["model_counterexample"] = {"invariants": model_findings, "tlc_out": str(wd / (mc_module + ".out"))}
        else:
            raise Infra(f"MC {mc_module} failed: {wd}/{mc_module}.out\n" + tail(r.out, 30))
    if not ctx.quick:
        ctx.cov["actions_never_taken"] = r.coverage_zero()
    cases = wd / "cases.ndjson"
    if not cases.exists():
        raise Infra("no cases.ndjson exported by " + mc_module)
    if cases_hook:
        cases_hook(cases)
    if replay_ids is not None:
        keep = [c for c in read_ndjson(cases) if c["id"] in replay_ids]
        write_ndjson(cases, keep)
        extra = extra if any(i >= 1000000 for i in replay_ids) else 0
    # 2. replay into the real code
    obs = ctx.work / "obs.ndjson"
    ctx.drive(sub, cases, obs, args=["-extra", str(extra)] + list(driver_args))
    allobs = read_ndjson(obs)
    if replay_ids is not None:
        allobs = [o for o in allobs if o["id"] in replay_ids]
        write_ndjson(obs, allobs)
    ctx.cov["evaluations"] = len(allobs)
    ctx.cov["traces_validated_against_impl"] = len(allobs)
    ctx.cov["distinct_nontrivial"] = len({json.dumps(o, sort_keys=True) for o in allobs if nontrivial(o)})
    ctx.cov["rule"] = rule
    ctx.cov["exhaustive"] = bool(exhaustive)
    ctx.cov["samples"] = [sample(o) for o in pick_samples(allobs, 4, ctx.seed)]
    # 3. judge by the Trace spec (sharded)
    bads = []
    for k in range(0, max(len(allobs), 1), shard):
        part = allobs[k:k + shard]
        p = ctx.work / f"obs_{k // shard}.ndjson"
        write_ndjson(p, part)
        b, tr = trace_judge(ctx, f"trace_{k // shard}", fams, trace_module, p, consts=trace_consts)
        for x in b:
            x["obs"] = part[x["k"] - 1]
        bads += b
    ctx.cov["judged_bad_first_pass"] = len(bads)
    # 4. reproduction guard: re-run the failing cases in a fresh process and judge again
    confirmed = []
    if bads:
        ids = sorted({b["id"] for b in bads})
        seen_ids, ccases = set(), []
        for b in bads:
            if b["id"] not in seen_ids:
                seen_ids.add(b["id"])
                ccases.append(case_from_obs(b["obs"]))
        rc_cases = ctx.work / "confirm_cases.ndjson"
        write_ndjson(rc_cases, ccases)
        rc_obs = ctx.work / "confirm_obs.ndjson"
        ctx.drive(sub, rc_cases, rc_obs, args=list(driver_args))
        b2, _ = trace_judge(ctx, "trace_confirm", fams, trace_module, rc_obs, consts=trace_consts)
        keys2 = {json.dumps(b["sig"], sort_keys=True) for b in b2}
        confirmed = [b for b in bads if json.dumps(b["sig"], sort_keys=True) in keys2]
        ctx.cov["unreproduced"] = len(bads) - len(confirmed)
        for b in confirmed:
            b["what"] = sample(b["obs"])
    # 5. sensitivity self-test: a corrupted observation must be rejected by the same Trace spec
    st = []
    for o in pick_samples([o for o in allobs if nontrivial(o)] or allobs, 3, ctx.seed + 7):
        c = corrupt(json.loads(json.dumps(o)))
        if c is not None:
            st.append(c)
    if st:
        p = ctx.work / "selftest_obs.ndjson"
        write_ndjson(p, st)
        b3, _ = trace_judge(ctx, "trace_selftest", fams, trace_module, p, consts=trace_consts)
        ctx.cov["sensitivity_selftest"] = {"corrupted": len(st), "rejected": len(b3)}
        if len(b3) < len(st):
            raise Infra(f"sensitivity self-test failed: {len(st)} corrupted observations, only {len(b3)} rejected")
    # 6. verdict
    def rw(rdir, b):
        if "obs" in b:
            (rdir / "case.json").write_text(json.dumps(case_from_obs(b["obs"])))
            (rdir / "obs.json").write_text(json.dumps(b["obs"]))
    rc = ctx.report(confirmed, replay_writer=rw)
    if model_findings:
        ctx.cov["model_drift"] = "implementation-shaped model violates " + ",".join(model_findings) + \
            " (diagnostic only; verdict above is from the real code)"
    return rc


def pick_samples(lst, n, seed):
    if len(lst) <= n:
        return list(lst)
    r = random.Random(seed)
    return [lst[i] for i in sorted(r.sample(range(len(lst)), n))]
